"""E5 — baton-passing real threads under a seeded scheduler.

Real threading.Thread objects run the code under test, but exactly one of them
(or the scheduler itself) holds the baton at any moment; all others are parked
on a private semaphore.  The *choice of who runs next* — the only thing that
must not be real — is drawn from the tape.  Hand-over points:

  (a) every blocking primitive, replaced by a simulator object (SimLock,
      SimRLock, SimCondition, SimQueue, SimEvent, SimThread.join);
  (b) explicit sched.point(label) calls placed by interposed functions
      (e.g. each intercepted filesystem call of C50);
  (c) optionally sys.settrace *line* events inside a configurable set of source
      files, each a potential pre-emption with tape-drawn probability.

Deadlock (no runnable thread while some thread is unfinished) is reported to the
scenario, which decides whether it is a violation (lost wake-up).
"""
import sys
import threading

_real_Thread = threading.Thread
_real_Semaphore = threading.Semaphore
_real_get_ident = threading.get_ident


class Abort(BaseException):
    """Raised inside parked sim-threads to unwind them when a run is torn down."""


class Deadlock(Exception):
    def __init__(self, blocked):
        self.blocked = blocked
        Exception.__init__(self, "deadlock: %s" % (blocked,))


class SThread:
    def __init__(self, sched, name, fn, args=(), kwargs=None, daemon=True):
        self.sched = sched
        self.name = name
        self.serial = len(sched.threads)   # unique per scheduler (names given by code under test may collide)
        self.fn = fn
        self.args = args
        self.kwargs = kwargs or {}
        self.go = _real_Semaphore(0)
        self.state = "new"        # new | runnable | blocked | done
        self.waiting_on = None    # description while blocked
        self.can_run = None       # predicate re-evaluated by the scheduler while blocked
        self.exc = None
        self.result = None
        self.started = False
        self.real = _real_Thread(target=self._main, name="sim-" + name, daemon=True)
        self.ident = None
        self.steps = 0

    def _main(self):
        self.go.acquire()
        sched = self.sched
        self.ident = _real_get_ident()
        sched._by_ident[self.ident] = self
        try:
            if sched.aborting:
                return
            if sched.trace_files:
                sys.settrace(sched._tracer)
            try:
                self.result = self.fn(*self.args, **self.kwargs)
            finally:
                sys.settrace(None)
        except Abort:
            pass
        except BaseException as e:  # noqa: B902 - reported to the scheduler
            self.exc = e
        finally:
            self.state = "done"
            sched._by_ident.pop(self.ident, None)
            sched.back.release()

    # threading.Thread-like API used by code under test
    def is_alive(self):
        return self.started and self.state != "done"

    isAlive = is_alive

    def join(self, timeout=None):
        self.sched.block_until(lambda: self.state == "done", "join:" + self.name)

    def start(self):
        self.sched.start_thread(self)


class Scheduler:
    def __init__(self, sim, trace_files=(), preempt_p=0.0, policy="uniform"):
        """policy "uniform": every hand-over picks uniformly among the runnable threads.
        policy "pct" (probabilistic concurrency testing, Burckhardt et al. 2010): threads get tape-drawn priorities, the
        runnable thread with the highest priority always runs, and a hand-over at a pre-emption point *demotes* the running
        thread below everybody else - so a run has few, randomly placed, long-lasting pre-emptions, which is what
        ordering bugs of small depth need (thread A stopped at one exact line while thread B runs a whole operation)."""
        self.sim = sim
        self.policy = policy
        self.prio = {}
        self._low = 0
        self.threads = []
        self.current = None
        self.back = _real_Semaphore(0)
        self.aborting = False
        self._by_ident = {}
        self.trace_files = tuple(trace_files)
        self.preempt_p = preempt_p
        self.switches = 0
        self.main_ident = _real_get_ident()
        self.idle_hook = None   # called when nothing is runnable; returns True if it made progress possible
        self._tracer_cache = {}

    # ---- creation
    def spawn(self, name, fn, *args, **kwargs):
        t = SThread(self, name, fn, args, kwargs)
        self.threads.append(t)
        self.start_thread(t)
        return t

    def thread_factory(self, *a, **kw):
        """Stand-in for threading.Thread(target=..., name=...)."""
        target = kw.get("target")
        name = kw.get("name") or "t%d" % len(self.threads)
        args = kw.get("args", ())
        kwargs = kw.get("kwargs", {})
        t = SThread(self, str(name), target, args, kwargs)
        self.threads.append(t)
        return t

    def start_thread(self, t):
        if t.started:
            raise RuntimeError("threads can only be started once")
        t.started = True
        t.state = "runnable"
        t.real.start()

    # ---- inside sim threads
    def me(self):
        return self._by_ident.get(_real_get_ident())

    def point(self, label=None, demote=False):
        """Potential hand-over: park this thread and let the scheduler choose.
        demote (policy "pct" only): the thread's priority drops below everybody else's first."""
        t = self.me()
        if t is None:
            return  # scheduler/main thread: nothing to do
        t.steps += 1
        if demote and self.policy == "pct":
            self._low -= 1
            self.prio[t] = self._low
        self._park(t)

    def _park(self, t):
        self.back.release()
        t.go.acquire()
        if self.aborting:
            raise Abort()

    def block_until(self, pred, what):
        t = self.me()
        if t is None:
            # main thread "blocks": drive others until pred holds
            while not pred():
                if not self.step():
                    raise Deadlock([(x.name, x.waiting_on) for x in self.threads if x.state == "blocked"] + [("main", what)])
            return
        if pred():
            self.point(what)
            if pred():
                return
        while True:
            t.state = "blocked"
            t.waiting_on = what
            t.can_run = pred
            self._park(t)
            # the scheduler only resumes us when pred() was true at selection time
            if pred():
                t.waiting_on = None
                t.can_run = None
                return

    # ---- tracer (line-level pre-emption)
    def _tracer(self, frame, event, arg):
        if event != "call":
            return None
        fn = frame.f_code.co_filename
        hit = self._tracer_cache.get(fn)
        if hit is None:
            hit = any(fn.endswith(s) for s in self.trace_files)
            self._tracer_cache[fn] = hit
        return self._line if hit else None

    def _line(self, frame, event, arg):
        if event == "line" and not self.aborting:
            t = self.me()
            if t is not None and self.current is t and self.preempt_p and self.sim.draw_bool(self.preempt_p, "preempt"):
                self.sim.probe("line_preemption")
                if self.policy == "pct":
                    self._low -= 1
                    self.prio[t] = self._low
                self.point("line")
        return self._line

    # ---- scheduler side (main thread)
    def runnable(self):
        out = []
        for t in self.threads:
            if t.state == "runnable":
                out.append(t)
            elif t.state == "blocked" and t.can_run is not None and t.can_run():
                out.append(t)
        return out

    def step(self, choose=None):
        """Let one tape-chosen runnable thread run until its next hand-over.
        Returns False if nothing is runnable."""
        r = self.runnable()
        if not r:
            if self.idle_hook is not None and self.idle_hook():
                r = self.runnable()
            if not r:
                return False
        if choose is not None:
            t = choose(r)
        elif len(r) == 1:
            t = r[0]
        elif self.policy == "pct":
            for x in r:
                if x not in self.prio:
                    self.prio[x] = self.sim.draw_int(1, 64, "prio")
            if self.current in r and self.sim.draw_bool(0.05, "demote"):
                # explicit yield points / lock hand-overs are change points too
                self._low -= 1
                self.prio[self.current] = self._low
            t = max(r, key=lambda x: (self.prio[x], -self.threads.index(x)))
            self.sim.fault("interleave") if t is not self.current and self.current is not None and self.current.state != "done" else None
        else:
            t = r[self.sim.draw_int(0, len(r) - 1, "sched")]
            self.sim.fault("interleave") if t is not self.current and self.current is not None and self.current.state != "done" else None
        if t.state == "blocked":
            t.state = "runnable"
        self.current = t
        self.switches += 1
        t.go.release()
        self.back.acquire()
        if t.exc is not None:
            e, t.exc = t.exc, None
            raise e
        return True

    def unfinished(self):
        return [t for t in self.threads if t.started and t.state != "done"]

    def run(self, max_steps=100000, until=None):
        n = 0
        while n < max_steps:
            if until is not None and until():
                return n
            if not self.step():
                u = self.unfinished()
                if u:
                    raise Deadlock([(x.name, x.waiting_on) for x in u])
                return n
            n += 1
        return n

    def shutdown(self):
        """Unwind every parked thread (run finished or aborted)."""
        self.aborting = True
        for t in self.threads:
            if t.started and t.state != "done":
                t.go.release()
        for t in self.threads:
            if t.started:
                t.real.join(5.0)
        self._by_ident.clear()


# ---------------------------------------------------------------- primitives

class SimLock:
    def __init__(self, sched, name="lock"):
        self.sched = sched
        self.name = name
        self.owner = None

    def acquire(self, blocking=True, timeout=-1):
        s = self.sched
        me = s.me() or "main"
        if not blocking:
            s.point("trylock:" + self.name)
            if self.owner is None:
                self.owner = me
                return True
            return False
        s.block_until(lambda: self.owner is None, "lock:" + self.name)
        self.owner = me
        return True

    def release(self):
        if self.owner is None:
            raise RuntimeError("release unlocked lock")
        self.owner = None
        self.sched.point("unlock:" + self.name)

    def locked(self):
        return self.owner is not None

    __enter__ = acquire

    def __exit__(self, *a):
        self.release()


class SimRLock:
    def __init__(self, sched, name="rlock"):
        self.sched = sched
        self.name = name
        self.owner = None
        self.count = 0

    def acquire(self, blocking=True, timeout=-1):
        s = self.sched
        me = s.me() or "main"
        if self.owner is me:
            self.count += 1
            return True
        s.block_until(lambda: self.owner is None, "rlock:" + self.name)
        self.owner = me
        self.count = 1
        return True

    def release(self):
        self.count -= 1
        if self.count == 0:
            self.owner = None
            self.sched.point("runlock:" + self.name)

    __enter__ = acquire

    def __exit__(self, *a):
        self.release()


class SimQueue:
    """queue.Queue stand-in (unbounded): get() blocks while empty."""

    def __init__(self, sched, name="queue"):
        self.sched = sched
        self.name = name
        self.items = []

    def put(self, item, block=True, timeout=None):
        self.items.append(item)
        self.sched.point("put:" + self.name)

    def get(self, block=True, timeout=None):
        self.sched.block_until(lambda: bool(self.items), "get:" + self.name)
        return self.items.pop(0)

    def qsize(self):
        return len(self.items)

    def empty(self):
        return not self.items


class SimEvent:
    def __init__(self, sched, name="event"):
        self.sched = sched
        self.name = name
        self.flag = False

    def set(self):
        self.flag = True
        self.sched.point("set:" + self.name)

    def clear(self):
        self.flag = False

    def is_set(self):
        return self.flag

    def wait(self, timeout=None):
        self.sched.block_until(lambda: self.flag, "wait:" + self.name)
        return True


class SimLocal:
    """threading.local stand-in keyed by sim thread."""

    def __init__(self, sched):
        object.__setattr__(self, "_sched", sched)
        object.__setattr__(self, "_d", {})

    def _slot(self):
        t = self._sched.me()
        key = t.serial if t is not None else "main"
        return self._d.setdefault(key, {})

    def __getattr__(self, k):
        try:
            return self._slot()[k]
        except KeyError:
            raise AttributeError(k)

    def __setattr__(self, k, v):
        self._slot()[k] = v

    def __delattr__(self, k):
        try:
            del self._slot()[k]
        except KeyError:
            raise AttributeError(k)
