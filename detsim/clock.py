"""Discrete-event clock (IReactorTime) owned by the simulator, plus a global
SimReactor that is installed as twisted.internet.reactor so that code falling
back to the global reactor reads simulated time.

Twisted's DelayedCall is used only as the handle object; ordering and firing
are this module's own (a list kept sorted by (time, seq)).
"""
from zope.interface import implementer

from twisted.internet import base
from twisted.internet.interfaces import IReactorTime


@implementer(IReactorTime)
class SimClock:
    def __init__(self, start=0.0):
        self.now = float(start)
        self._seq = 0
        self._calls = []  # DelayedCall objects; kept sorted lazily
        self.fired = 0

    # IReactorTime
    def seconds(self):
        return self.now

    def callLater(self, delay, callable, *args, **kw):
        assert delay >= 0, delay
        self._seq += 1
        dc = base.DelayedCall(
            self.now + delay, callable, args, kw,
            self._cancelled, self._resetted, self.seconds,
        )
        dc._simseq = self._seq
        self._calls.append(dc)
        return dc

    def _cancelled(self, dc):
        try:
            self._calls.remove(dc)
        except ValueError:
            pass

    def _resetted(self, dc):
        pass

    def getDelayedCalls(self):
        return list(self._calls)

    # simulator side
    def _key(self, dc):
        return (dc.getTime(), dc._simseq)

    def next_time(self):
        if not self._calls:
            return None
        return min(dc.getTime() for dc in self._calls)

    def pending(self):
        return len(self._calls)

    def run_next(self):
        """Jump to the earliest timer and run it.  Returns False if none."""
        if not self._calls:
            return False
        dc = min(self._calls, key=self._key)
        self._calls.remove(dc)
        t = dc.getTime()
        if t > self.now:
            self.now = t
        dc.called = 1
        self.fired += 1
        dc.func(*dc.args, **dc.kw)
        return True

    def advance(self, amount):
        """Advance by amount, running every timer whose time is reached, each at
        its own time (so timers never observe an overshoot)."""
        target = self.now + amount
        while self._calls:
            dc = min(self._calls, key=self._key)
            if dc.getTime() > target:
                break
            self.run_next()
        self.now = target

    def jump(self, amount):
        """Clock-jump fault: move time forward first, then run what is due (timers
        observe the overshoot)."""
        self.now += amount
        while self._calls:
            dc = min(self._calls, key=self._key)
            if dc.getTime() > self.now:
                break
            self.run_next()

    def run_until_idle(self, max_calls=10000, horizon=None):
        n = 0
        while self._calls and n < max_calls:
            if horizon is not None and self.next_time() > horizon:
                break
            self.run_next()
            n += 1
        return n


class _NullClockError(RuntimeError):
    pass


class SimReactor:
    """Process-global reactor stand-in.  Delegates time to the clock of the run
    in progress (set by the runner); counts fall-backs so they show up in
    evidence."""

    def __init__(self):
        self.clock = SimClock()
        self.fallbacks = 0
        self.running = True
        self._threadCalls = []
        self._triggers = []

    def seconds(self):
        self.fallbacks += 1
        return self.clock.seconds()

    def callLater(self, *a, **kw):
        self.fallbacks += 1
        return self.clock.callLater(*a, **kw)

    def getDelayedCalls(self):
        return self.clock.getDelayedCalls()

    def callFromThread(self, f, *a, **kw):
        self._threadCalls.append((f, a, kw))

    def callWhenRunning(self, f, *a, **kw):
        return self.clock.callLater(0, f, *a, **kw)

    def addSystemEventTrigger(self, phase, eventType, f, *a, **kw):
        h = (phase, eventType, f, a, kw)
        self._triggers.append(h)
        return h

    def removeSystemEventTrigger(self, h):
        try:
            self._triggers.remove(h)
        except ValueError:
            pass

    def fireSystemEvent(self, eventType):
        pass

    def getThreadPool(self):
        raise _NullClockError("no thread pool in simulation")

    def stop(self):
        self.running = False

    def run(self, *a, **kw):
        raise _NullClockError("SimReactor.run() must never be called")

    # IReactorFDSet no-ops (a scenario that needs them uses its own object)
    def addReader(self, r):
        pass

    def addWriter(self, w):
        pass

    def removeReader(self, r):
        pass

    def removeWriter(self, w):
        pass

    def removeAll(self):
        return []

    def getReaders(self):
        return []

    def getWriters(self):
        return []


GLOBAL = None


def install_global():
    """Install the SimReactor as twisted.internet.reactor (idempotent)."""
    global GLOBAL
    if GLOBAL is not None:
        return GLOBAL
    import sys

    if "twisted.internet.reactor" in sys.modules:
        r = sys.modules["twisted.internet.reactor"]
        if isinstance(r, SimReactor):
            GLOBAL = r
            return r
        raise RuntimeError("a real reactor is already installed")
    from twisted.internet.main import installReactor

    GLOBAL = SimReactor()
    installReactor(GLOBAL)
    return GLOBAL


def bind(sim, start=0.0):
    """Fresh SimClock for this run, also visible through the global reactor."""
    c = SimClock(start)
    sim.clock = c
    if GLOBAL is not None:
        GLOBAL.clock = c
        GLOBAL._threadCalls = []
        GLOBAL._triggers = []
    return c
