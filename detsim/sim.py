"""Per-run simulation context: tape + trace + counters + oracle entry point."""
import hashlib
from collections import Counter

from .tape import Tape


class Violation(Exception):
    """An oracle clause failed.  signature = property:clause:witness."""

    def __init__(self, prop, clause, witness="", detail=""):
        self.prop = prop
        self.clause = clause
        self.witness = str(witness)
        self.detail = str(detail)
        Exception.__init__(self, self.signature + (" -- " + self.detail if detail else ""))

    @property
    def signature(self):
        return "%s:%s:%s" % (self.prop, self.clause, self.witness)


class StepLimit(Exception):
    """Scenario exceeded its step budget (harness-level unless the scenario
    converts it into a Violation)."""


class Sim:
    def __init__(self, prop, seed=None, replay=None, keep_trace=True):
        self.prop = prop
        self.seed = seed
        self.tape = Tape(seed=seed, replay=replay)
        self.trace = []
        self.keep_trace = keep_trace
        self._h = hashlib.sha256()
        self.faults = Counter()
        self.probes = Counter()
        self.states = set()
        self.sim_time = 0.0
        self.steps = 0
        self.nontrivial = None  # scenario may set explicitly
        # exploration depth: 1 in the quick tier and in the first part of a thorough run; 2 or 3 for the later run indices of a
        # thorough run (scenarios may scale history lengths / sizes / actor counts by it).  Stored in replay files.
        self.depth = 1
        self.config = {}
        self.clock = None
        self.violation = None  # first oracle failure (survives being swallowed by a Deferred)
        # bind draws
        t = self.tape
        self.draw_int = t.draw_int
        self.draw_choice = t.draw_choice
        self.draw_bool = t.draw_bool
        self.draw_weighted = t.draw_weighted
        self.draw_bytes = t.draw_bytes
        self.draw_blob = t.draw_blob
        self.draw_perm = t.draw_perm

    # -- logging (never draws, never reads a clock)
    def event(self, *fields):
        line = " ".join(_fmt(f) for f in fields)
        self._h.update(line.encode("utf-8", "backslashreplace"))
        self._h.update(b"\n")
        if self.keep_trace and len(self.trace) < 4000:
            self.trace.append(line)

    def digest(self):
        return self._h.hexdigest()

    def fault(self, kind, n=1):
        self.faults[kind] += n

    def probe(self, name, n=1):
        self.probes[name] += n

    def state(self, s):
        if len(self.states) < 4096:
            self.states.add(s if isinstance(s, (int, str)) else repr(s))

    def step(self, cap):
        self.steps += 1
        if self.steps > cap:
            raise StepLimit("step cap %d exceeded" % cap)

    # -- oracle
    def check(self, clause, cond, witness="", detail=""):
        if not cond:
            if callable(detail):
                detail = detail()
            v = Violation(self.prop, clause, witness, detail)
            if self.violation is None:
                self.violation = v
                # only clause + witness are part of the digest: the free-text detail may legitimately depend on
                # things outside the run (e.g. where on the interpreter stack a RecursionError surfaces)
                self.event("VIOLATION", clause, witness)
                if self.keep_trace:
                    self.trace.append("  detail: " + str(detail)[:1000])
            raise v

    def guard(self, clause, witness=""):
        """Context manager: an exception escaping from the code under test inside
        the block is an oracle failure `clause` (witness + exception type)."""
        return _Guard(self, clause, witness)

    def fail(self, clause, witness="", detail=""):
        self.check(clause, False, witness, detail)

    def is_nontrivial(self):
        if self.nontrivial is not None:
            return bool(self.nontrivial)
        return bool(self.faults) or bool(self.probes)


class _Guard:
    def __init__(self, sim, clause, witness):
        self.sim, self.clause, self.witness = sim, clause, witness

    def __enter__(self):
        return self

    def __exit__(self, et, ev, tb):
        if et is None or issubclass(et, Violation) or not issubclass(et, Exception) or issubclass(et, StepLimit):
            return False
        import traceback

        where = traceback.extract_tb(tb)[-1]
        self.sim.check(self.clause, False, "%s%s" % (self.witness + ":" if self.witness else "", et.__name__),
                       "%s: %s (at %s:%s %s)" % (et.__name__, str(ev)[:200], where.filename.split("/")[-1], where.lineno, where.name))
        return False


def _fmt(f):
    if isinstance(f, str):
        return f
    if isinstance(f, bytes):
        if len(f) > 48:
            return "b<%d:%s..%s>" % (len(f), f[:12].hex(), f[-6:].hex())
        return repr(f)
    if isinstance(f, float):
        return repr(f)
    return str(f)
