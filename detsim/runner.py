"""Seeded search over runs: fork pool, budgets, watchdogs, aggregation,
minimisation, replay files, evidence, known findings.

Exit codes: 0 property held on everything explored; 1 violation (VIOLATION line
printed); 2 harness error (never a VIOLATION line).
"""
import faulthandler
import json
import os
import signal
import subprocess
import sys
import time
import traceback
from collections import Counter
from concurrent.futures import ProcessPoolExecutor, wait, FIRST_COMPLETED
import multiprocessing

from .sim import Sim, Violation, StepLimit
from .tape import derive
from . import clock as _clock

VERIF = os.path.dirname(os.path.dirname(os.path.abspath(__file__)))
REPLAYS = os.path.join(VERIF, "replays")
EVIDENCE = os.path.join(VERIF, "evidence")
KNOWN = os.path.join(VERIF, "known_findings.json")

DISTINCT_CAP = 1_500_000


class HarnessTimeout(BaseException):
    pass


class CpuTimeout(BaseException):
    pass


def _alarm(signum, frame):
    raise HarnessTimeout("run exceeded its wall-clock watchdog")


def _cpu_alarm(signum, frame):
    raise CpuTimeout("run exceeded its CPU-time watchdog")


def run_seed(run_seed):
    return derive("run", run_seed)


def depth_of(index, deep_from):
    """Exploration depth of run `index`: 1 below `deep_from` (None = never deeper), else 1, 2 or 3 by index."""
    if deep_from is None or index < deep_from:
        return 1
    return 1 + (index % 3)


def _run_scenario(mod, sim):
    """One scenario execution, or - for modules that set TWIN_P - with that probability (drawn from the tape first) two
    executions in a row inside the same run: a first instance of everything the scenario builds is driven through a whole
    history and abandoned, then a second, independent instance is driven and judged as usual on a fresh clock.  Anything the
    first instance left behind in state that instances must not share (class attributes, module-level caches and registries)
    meets the second one inside ONE replayable run.  (Run-to-run leakage between separate runs of a warm worker would only show
    up as a violation that does not replay in a fresh interpreter, i.e. as a harness error.)"""
    p = getattr(mod, "TWIN_P", 0.0)
    if p and sim.draw_bool(p, "twin_instance"):
        sim.probe("twin_first_instance_run")
        sim.event("twin", "first-instance")
        mod.run(sim)
        first = sim.config
        sim.config = {}
        sim.steps = 0
        sim.nontrivial = None
        _clock.bind(sim)
        sim.event("twin", "second-instance")
        mod.run(sim)
        if isinstance(sim.config, dict):
            sim.config = dict(sim.config, twin_first_instance=_jsonable(first))
    else:
        mod.run(sim)


def execute(mod, seed=None, replay=None, keep_trace=False, depth=1):
    """One run.  Returns (sim, violation|None).  Harness exceptions propagate."""
    sim = Sim(mod.ID, seed=seed, replay=replay, keep_trace=keep_trace)
    sim.depth = depth
    _clock.bind(sim)
    # Two watchdogs: CPU time (a loop that does not terminate burns CPU; immune to VM stalls and
    # load) decides "does not terminate"; wall time (generous) only catches blocked harnesses.
    limit = getattr(mod, "RUN_WALL_LIMIT_S", 20)
    hang_is_violation = getattr(mod, "HANG_IS_VIOLATION", False)
    old = signal.signal(signal.SIGALRM, _alarm)
    oldp = signal.signal(signal.SIGPROF, _cpu_alarm)
    signal.setitimer(signal.ITIMER_REAL, max(120, limit * 6))
    signal.setitimer(signal.ITIMER_PROF, limit)
    try:
        try:
            _run_scenario(mod, sim)
            return sim, sim.violation
        except Violation as v:
            return sim, sim.violation or v
        except CpuTimeout:
            if sim.violation is not None:
                return sim, sim.violation
            if hang_is_violation:
                v = Violation(mod.ID, "terminates", "watchdog", "run used more than %ss of CPU time" % limit)
                sim.event("VIOLATION", "terminates", "watchdog")
                return sim, v
            raise HarnessTimeout("run exceeded its CPU-time watchdog (%ss)" % limit)
        except HarnessTimeout:
            if sim.violation is not None:
                return sim, sim.violation
            raise
        except Exception:
            # an oracle failure swallowed by the code under test (e.g. inside a
            # Deferred callback) leaves the scenario inconsistent; the first
            # recorded violation is the verdict
            if sim.violation is not None:
                return sim, sim.violation
            raise
    finally:
        signal.setitimer(signal.ITIMER_REAL, 0)
        signal.setitimer(signal.ITIMER_PROF, 0)
        signal.signal(signal.SIGALRM, old)
        signal.signal(signal.SIGPROF, oldp)
        cleanup = getattr(mod, "cleanup", None)
        if cleanup is not None:
            try:
                cleanup(sim)
            except Exception:
                pass


# ---------------------------------------------------------------- pool side

_MOD = None


def _batch(args):
    """Run indices [start, start+count) for base seed; return aggregate."""
    base_seed, start, count, nsamples, deep_from = args
    mod = _MOD
    faulthandler.enable()
    agg = {
        "runs": 0, "nontrivial": 0, "digests": set(), "faults": Counter(),
        "probes": Counter(), "states": set(), "sim_time": 0.0, "steps": 0,
        "violations": [], "samples": [], "errors": [], "fallbacks": 0,
        "first": start, "known_seen": Counter(), "deep": 0,
    }
    known = load_known(mod.ID)
    for i in range(start, start + count):
        seed = derive(base_seed, mod.ID, i)
        depth = depth_of(i, deep_from)
        try:
            sim, v = execute(mod, seed=seed, keep_trace=(len(agg["samples"]) < nsamples), depth=depth)
        except (Exception, HarnessTimeout) as e:
            agg["errors"].append((i, "".join(traceback.format_exception(type(e), e, e.__traceback__))[-3000:]))
            if len(agg["errors"]) >= 3:
                break
            continue
        agg["runs"] += 1
        if depth > 1:
            agg["deep"] += 1
        agg["faults"].update(sim.faults)
        agg["probes"].update(sim.probes)
        agg["sim_time"] += sim.sim_time
        agg["steps"] += sim.steps
        if len(agg["states"]) < 20000:
            agg["states"].update(sim.states)
        if sim.is_nontrivial():
            agg["nontrivial"] += 1
            agg["digests"].add(int(sim.digest()[:15], 16))
            if len(agg["samples"]) < nsamples:
                agg["samples"].append({"run": i, "seed": seed, "config": _jsonable(sim.config),
                                       "trace": sim.trace[:60]})
        if v is not None:
            e = match_known(known, v.signature)
            if e is not None:
                # a listed known finding ends this run only; the batch goes on
                agg["known_seen"][e["signature"]] += 1
                continue
            agg["violations"].append((i, seed, v.signature, v.detail[:600], list(sim.tape.rec), depth,
                                      bool(sim.probes.get("twin_first_instance_run"))))
            if len(agg["violations"]) >= 6:
                break
    return agg


def _jsonable(x):
    try:
        json.dumps(x)
        return x
    except Exception:
        return repr(x)


# ---------------------------------------------------------------- findings

def load_known(prop):
    if not os.path.exists(KNOWN):
        return []
    with open(KNOWN) as f:
        data = json.load(f)
    return [e for e in data.get("findings", []) if e.get("property") == prop]


def match_known(known, signature):
    for e in known:
        if e.get("status") != "known":
            continue
        sig = e.get("signature", "")
        if sig and (signature == sig or (sig.endswith("*") and signature.startswith(sig[:-1]))):
            return e
    return None


# ---------------------------------------------------------------- shrinking

def shrink(mod, tape, signature, budget_s=25.0, max_runs=3000, depth=1):
    """Generic tape minimiser: delete chunks, lower values, while the same
    violation signature recurs."""
    t0 = time.time()
    runs = [0]

    def bad(cand):
        if runs[0] >= max_runs or time.time() - t0 > budget_s:
            return False
        runs[0] += 1
        try:
            sim, v = execute(mod, replay=cand, depth=depth)
        except (Exception, HarnessTimeout):
            return False
        return v is not None and v.signature == signature

    # cut the unread tail
    try:
        sim, v = execute(mod, replay=tape, depth=depth)
    except (Exception, HarnessTimeout):
        return list(tape)
    if v is None or v.signature != signature:
        return list(tape)
    cur = list(sim.tape.rec)
    improved = True
    while improved and time.time() - t0 < budget_s:
        improved = False
        # chunk deletion
        n = len(cur)
        size = max(1, n // 2)
        while size >= 1:
            i = 0
            while i < len(cur):
                cand = cur[:i] + cur[i + size:]
                if bad(cand):
                    cur = cand
                    improved = True
                else:
                    i += size
            size //= 2
        # zero chunks / lower values
        for i in range(len(cur)):
            if cur[i] == 0:
                continue
            for newv in (0, cur[i] // 2, cur[i] - 1):
                if newv < cur[i]:
                    cand = cur[:i] + [newv] + cur[i + 1:]
                    if bad(cand):
                        cur = cand
                        improved = True
                        break
        # drop trailing zeros (exhausted tape yields 0 anyway)
        while cur and cur[-1] == 0:
            cur.pop()
    return cur


# ---------------------------------------------------------------- replay files

def write_replay(mod, seed, run_index, tape, base_seed, depth=1):
    os.makedirs(REPLAYS, exist_ok=True)
    sim, v = execute(mod, replay=tape, keep_trace=True, depth=depth)
    doc = {
        "property": mod.ID,
        "base_seed": base_seed,
        "run_index": run_index,
        "run_seed": seed,
        "tape": list(tape),
        "depth": depth,
        "signature": v.signature if v else None,
        "detail": v.detail if v else None,
        "digest": sim.digest(),
        "config": _jsonable(sim.config),
        "trace": sim.trace,
    }
    name = "%s_%s_%d.json" % (mod.ID, derive(doc["signature"], tuple(tape)) % 10**8, run_index)
    path = os.path.join(REPLAYS, name)
    with open(path, "w") as f:
        json.dump(doc, f, indent=1)
    return path, doc


def replay_file(mod, path, verbose=True):
    with open(path) as f:
        doc = json.load(f)
    sim, v = execute(mod, replay=doc["tape"], keep_trace=True, depth=int(doc.get("depth", 1) or 1))
    if verbose:
        for line in sim.trace:
            print("  " + line)
    sig = v.signature if v else None
    same = (sig == doc.get("signature")) and (sim.digest() == doc.get("digest"))
    return sim, v, same, doc


def confirm_in_fresh_interpreter(mod, path):
    """Replay in a fresh process; must give the same signature and digest."""
    cmd = [sys.executable, os.path.join(VERIF, "check"), mod.ID, "--replay", path, "--quiet"]
    env = dict(os.environ)
    try:
        p = subprocess.run(cmd, env=env, capture_output=True, text=True, timeout=120)
    except subprocess.TimeoutExpired:
        return False, "timeout"
    return ("REPRODUCED-EXACTLY" in p.stdout), p.stdout[-2000:] + p.stderr[-2000:]


def _rebase_in_fresh_interpreter(mod, path):
    cmd = [sys.executable, os.path.join(VERIF, "check"), mod.ID, "--rebase", path]
    try:
        p = subprocess.run(cmd, env=dict(os.environ), capture_output=True, text=True, timeout=120)
    except subprocess.TimeoutExpired:
        return False
    return "REBASED signature=" in p.stdout


# ---------------------------------------------------------------- main search

def search(mod, tier, base_seed, workers=None, budget_s=None, max_runs=None, quiet=False):
    global _MOD
    _MOD = mod
    t0 = time.time()
    workers = workers or int(os.environ.get("VERIF_WORKERS", "0")) or min(16, os.cpu_count() or 4)
    if tier == "quick":
        floor = getattr(mod, "QUICK_RUNS", 2000)
        budget = getattr(mod, "QUICK_BUDGET_S", 25.0)
        target = floor  # quick explores a fixed set of run indices
    else:
        floor = getattr(mod, "THOROUGH_FLOOR", getattr(mod, "QUICK_RUNS", 2000) * 4)
        budget = getattr(mod, "THOROUGH_BUDGET_S", 240.0)
        target = None
    # thorough: run indices below QUICK_RUNS are exactly the quick tier's runs; beyond that the exploration depth varies (1..3)
    deep_from = getattr(mod, "QUICK_RUNS", 2000) if (tier != "quick" and getattr(mod, "USES_DEPTH", False)) else None
    if tier == "quick":
        pass
    if os.environ.get("VERIF_BUDGET_S"):
        budget = float(os.environ["VERIF_BUDGET_S"])
        if tier == "quick":
            target = None
    if budget_s is not None:
        budget = budget_s
    if max_runs is not None:
        target = max_runs
        floor = min(floor, max_runs)
    batch = getattr(mod, "BATCH", 50)
    known = load_known(mod.ID)

    tot = {
        "runs": 0, "nontrivial": 0, "faults": Counter(), "probes": Counter(),
        "sim_time": 0.0, "steps": 0, "samples": [], "errors": [], "deep": 0,
    }
    digests = set()
    states = set()
    violations = []  # (index, seed, sig, detail, tape)
    known_seen = Counter()

    # freeze the parent's heap: the first full GC in a forked worker would otherwise write to every
    # inherited object's GC header and copy-on-write-fault the whole heap (very slow under load)
    import gc
    gc.collect()
    gc.freeze()
    ctx = multiprocessing.get_context("fork")
    next_start = 0
    pending = set()
    stop = False
    first_violation_at = None
    with ProcessPoolExecutor(max_workers=workers, mp_context=ctx) as ex:
        def submit():
            nonlocal next_start
            cnt = batch
            if target is not None:
                cnt = min(batch, target - next_start)
                if cnt <= 0:
                    return False
            pending.add(ex.submit(_batch, (base_seed, next_start, cnt, 2 if len(tot["samples"]) < 4 else 0, deep_from)))
            next_start += cnt
            return True

        for _ in range(workers * 2):
            if not submit():
                break
        # a guard against hangs only, never a verdict: generous enough that a machine shared with other checks (where a quick tier
        # can take several times its idle wall time) does not turn into a harness error
        hard_deadline = t0 + max(budget * 10, budget + 600)
        while pending:
            done, _ = wait(pending, timeout=5, return_when=FIRST_COMPLETED)
            now = time.time()
            for fut in done:
                pending.discard(fut)
                if fut.cancelled():
                    continue
                try:
                    agg = fut.result()
                except Exception as e:  # worker died
                    tot["errors"].append((-1, "worker failure: %r" % (e,)))
                    stop = True
                    continue
                tot["runs"] += agg["runs"]
                tot["deep"] += agg.get("deep", 0)
                tot["nontrivial"] += agg["nontrivial"]
                tot["faults"].update(agg["faults"])
                tot["probes"].update(agg["probes"])
                tot["sim_time"] += agg["sim_time"]
                tot["steps"] += agg["steps"]
                if len(digests) < DISTINCT_CAP:
                    digests.update(agg["digests"])
                if len(states) < 200000:
                    states.update(agg["states"])
                if len(tot["samples"]) < 4:
                    tot["samples"].extend(agg["samples"])
                tot["errors"].extend(agg["errors"])
                known_seen.update(agg["known_seen"])
                for viol in agg["violations"]:
                    violations.append(viol)
            if tot["errors"]:
                stop = True
            if violations:
                # keep collecting for a moment: when state leaks from one run into the next (warm worker), the first violations
                # seen need not replay in a fresh interpreter, while a later one (e.g. a twin-instance run) does
                if first_violation_at is None:
                    first_violation_at = now
                if len(violations) >= 40 or now - first_violation_at > 6 or not getattr(mod, "TWIN_P", 0.0):
                    stop = True
            over_budget = (now - t0) > budget and next_start >= floor
            if now > hard_deadline:
                tot["errors"].append((-1, "hard deadline exceeded"))
                stop = True
            if not stop and not over_budget:
                while len(pending) < workers * 2:
                    if not submit():
                        break
            if stop and pending:
                for fut in pending:
                    fut.cancel()
                # let running ones finish (bounded by per-run watchdog)
    wall = time.time() - t0
    return {
        "tot": tot, "digests": digests, "states": states, "violations": sorted(violations),
        "known_seen": known_seen, "known": known, "wall": wall, "workers": workers,
        "explored_upto": next_start, "budget": budget,
    }


def write_evidence(mod, tier, base_seed, res, nviol, extra=None):
    if os.environ.get("VERIF_NO_EVIDENCE"):  # dev-time mutant runs must not overwrite real evidence
        return None
    os.makedirs(EVIDENCE, exist_ok=True)
    tot = res["tot"]
    wall = res["wall"]
    cov = {
        "evaluations": tot["runs"],
        "distinct_nontrivial": len(res["digests"]),
        "rule": getattr(mod, "RULE", "")
        + " | distinct = distinct sha256 digests of the canonical event trace among runs that are non-trivial by that rule (counted by the runner; capped at %d)." % DISTINCT_CAP,
        "samples": tot["samples"][:3],
        "nontrivial_runs": tot["nontrivial"],
        "runs_per_hour": int(tot["runs"] / wall * 3600) if wall > 0 else 0,
        "seed_rule": "run i uses sha256(VERIF_SEED/%s/i); indices 0..%d explored" % (mod.ID, res["explored_upto"] - 1),
        "sim_time_s": round(tot["sim_time"], 3),
        "scheduler_steps": tot["steps"],
        "faults_fired": dict(sorted(tot["faults"].items())),
        "probes": dict(sorted(tot["probes"].items())),
        "abstract_states": len(res["states"]),
        "components": getattr(mod, "COMPONENTS", {}),
        "known_findings_seen": dict(res["known_seen"]),
        "workers": res["workers"],
        "runs_at_depth_gt_1": tot.get("deep", 0),
        "technique": getattr(mod, "TECHNIQUE", "deterministic simulation, seeded schedule/fault search"),
    }
    if extra:
        cov.update(extra)
    doc = {
        "property_id": mod.ID,
        "tier": tier,
        "seed": int(base_seed),
        "level": getattr(mod, "LEVEL", "exploration"),
        "coverage": cov,
        "assumptions": getattr(mod, "ASSUMPTIONS", []),
        "wall_s": round(wall, 3),
        "violations": nviol,
    }
    path = os.path.join(EVIDENCE, "%s.json" % mod.ID)
    tmp = path + ".tmp"
    with open(tmp, "w") as f:
        json.dump(doc, f, indent=1, sort_keys=True)
    os.replace(tmp, path)
    return path


def main_check(mod, tier, base_seed, quiet=False):
    """Full check for one property.  Returns process exit code."""
    known = load_known(mod.ID)
    # 1. witness replays of listed known findings
    known_lines = []
    for e in known:
        if e.get("status") != "known":
            continue
        tape = e.get("witness_tape")
        if tape is None:
            continue
        try:
            sim, v = execute(mod, replay=tape)
        except (Exception, HarnessTimeout) as ex:
            print("HARNESS-ERROR property=%s witness replay failed: %r" % (mod.ID, ex))
            return 2
        if v is not None and match_known([e], v.signature):
            known_lines.append("KNOWN-FINDING: property=%s %s [%s]" % (mod.ID, e.get("description", ""), e["signature"]))
        else:
            print("NOTE property=%s listed finding no longer reproduces from its witness: %s" % (mod.ID, e["signature"]))
    res = search(mod, tier, base_seed, quiet=quiet)
    tot = res["tot"]
    for line in known_lines:
        print(line)
    for sig, n in sorted(res["known_seen"].items()):
        print("known-finding signature seen in search: %s x%d" % (sig, n))
    if tot["errors"]:
        write_evidence(mod, tier, base_seed, res, 0, {"harness_errors": [e[1][-800:] for e in tot["errors"][:3]]})
        for idx, err in tot["errors"][:3]:
            print("HARNESS-ERROR property=%s run=%s\n%s" % (mod.ID, idx, err))
        return 2
    nviol = 0
    rc = 0
    unconfirmed = []
    if res["violations"]:
        # report distinct signatures, lowest run index first (twin-instance runs first: they carry their own context and replay
        # in a fresh interpreter even when the violation needs state left behind by an earlier instance)
        confirmed = set()
        failed = {}
        attempts = 0
        ordered = sorted(res["violations"], key=lambda t: (not t[6], t[0]))
        for (idx, seed, sig, detail, tape, depth, twin) in ordered:
            if sig in confirmed or len(confirmed) >= 3 or attempts >= 10:
                continue
            if failed.get(sig, 0) >= (2 if twin else 1):
                continue
            attempts += 1
            small = shrink(mod, tape, sig, budget_s=getattr(mod, "SHRINK_BUDGET_S", 25.0), depth=depth)
            path, doc = write_replay(mod, seed, idx, small, base_seed, depth)
            if doc["signature"] != sig:
                # shrinking must preserve the signature; fall back to the full tape
                path, doc = write_replay(mod, seed, idx, tape, base_seed, depth)
            ok, out = confirm_in_fresh_interpreter(mod, path)
            if not ok and twin and "replay signature:" in out:
                # a twin-instance run carries its own context: replayed cold it still violates, though the first failing clause
                # may differ from the one seen in the warm worker.  Re-baseline it on the full tape in a fresh interpreter and
                # confirm that (a second fresh interpreter must reproduce it exactly).
                path, doc = write_replay(mod, seed, idx, tape, base_seed, depth)
                rb = _rebase_in_fresh_interpreter(mod, path)
                if rb:
                    ok, out = confirm_in_fresh_interpreter(mod, path)
                    if ok:
                        with open(path) as f:
                            doc = json.load(f)
                        sig, small = doc["signature"], doc["tape"]
                        if sig in confirmed:
                            continue
            if not ok:
                # never reported as a violation; a violation that does replay exactly (before or after this one) still stands
                print("HARNESS-ERROR property=%s violation %s did not replay identically in a fresh interpreter (%s)\n%s"
                      % (mod.ID, sig, path, out))
                failed[sig] = failed.get(sig, 0) + 1
                if sig not in unconfirmed:
                    unconfirmed.append(sig)
                continue
            confirmed.add(sig)
            nviol += 1
            print("violation: %s\n  detail: %s\n  run_index=%d tape_len=%d (from %d)" % (sig, doc["detail"], idx, len(small), len(tape)))
            print("VIOLATION property=%s replay=%s" % (mod.ID, path))
            rc = 1
        unconfirmed = [x for x in unconfirmed if x not in confirmed]
    if unconfirmed and rc == 0:
        write_evidence(mod, tier, base_seed, res, 0, {"harness_errors": ["non-replayable violation " + x for x in unconfirmed]})
        return 2
    write_evidence(mod, tier, base_seed, res, nviol, {"harness_errors": ["non-replayable violation " + x for x in unconfirmed]} if unconfirmed else None)
    if not quiet:
        print("%s %s: runs=%d nontrivial=%d distinct=%d states=%d wall=%.1fs (%.0f runs/s) faults=%s probes=%s"
              % (mod.ID, tier, tot["runs"], tot["nontrivial"], len(res["digests"]), len(res["states"]), res["wall"],
                 tot["runs"] / max(res["wall"], 1e-9), dict(tot["faults"]), dict(tot["probes"])))
    if rc == 0 and tot["runs"] == 0:
        print("HARNESS-ERROR property=%s no runs executed" % mod.ID)
        return 2
    return rc
