"""E3 — simulated stream network between real Protocols.

SimTransport is the simulator's own ITransport/IConsumer/IPushProducer; data
written to it is queued inside the simulator and only delivered when the
scheduler (the tape) says so — never re-entrantly inside write(), as on a real
network.  Link joins two protocols; a scripted peer can use a bare SimTransport
(its writes are collected in .out / .written).

Delivery faults/schedule dimensions: segmentation, coalescing, stalls,
receiver pause (back-pressure towards the sender), sender-side buffer
high-water mark (producer pause/resume), FIN after data, half-close, abort
(RST) discarding undelivered bytes.
"""
from zope.interface import implementer

from twisted.internet import error, interfaces
from twisted.internet.address import IPv4Address
from twisted.python.failure import Failure


# ----------------------------------------------------------------- segmentation

def cut(sim, data, style=None, boundaries=()):
    """Split bytes into deliveries at tape-chosen points.

    style: 'whole' | 'bytes' (1-byte pieces) | 'one' (a single split point) |
    'few' (1-4 cuts) | 'many' (random small pieces) | 'edges' (cuts at +-1 of the
    given message boundaries).  None = tape chooses.  An all-zero tape gives 'whole'.
    """
    n = len(data)
    if style is None:
        style = sim.draw_choice(["whole", "one", "few", "many", "edges", "bytes"], "cutstyle")
    if n <= 1 or style == "whole":
        return [data] if n else []
    pts = set()
    if style == "bytes":
        if n > 4096:
            style = "many"
        else:
            return [data[i:i + 1] for i in range(n)]
    if style == "one":
        pts.add(sim.draw_int(1, n - 1, "cut"))
    elif style == "few":
        for _ in range(sim.draw_int(1, 4, "ncuts")):
            pts.add(sim.draw_int(1, n - 1, "cut"))
    elif style == "many":
        pos = 0
        mx = sim.draw_choice([1, 2, 3, 7, 16, 64, 300], "maxpiece")
        while pos < n and len(pts) < 2000:
            pos += sim.draw_int(1, mx, "piece")
            if pos < n:
                pts.add(pos)
    elif style == "edges":
        bl = [b for b in boundaries if 0 < b < n] or [n // 2]
        for _ in range(sim.draw_int(1, 4, "ncuts")):
            b = sim.draw_choice(bl, "edge") + sim.draw_int(-2, 2, "off")
            if 0 < b < n:
                pts.add(b)
        if not pts:
            pts.add(sim.draw_int(1, n - 1, "cut"))
    out = []
    last = 0
    for p in sorted(pts):
        out.append(data[last:p])
        last = p
    out.append(data[last:])
    sim.fault("segmentation", len(out) - 1)
    return out


# ----------------------------------------------------------------- transport

@implementer(interfaces.ITCPTransport, interfaces.IConsumer, interfaces.IPushProducer)
class SimTransport:
    """One end of a simulated TCP connection."""

    disconnecting = False
    pull_on_register = False       # optional mode: a pull producer is resumed synchronously inside registerProducer()
    on_write = None                # optional hook on_write(transport, data), called from inside write() once non-empty data was accepted (SyncLink; taggers)

    def __init__(self, sim, name="T", host=("10.0.0.1", 1001), peer=("10.0.0.2", 2002), hwm=None):
        self.sim = sim
        self.name = name
        self._host = IPv4Address("TCP", *host)
        self._peer = IPv4Address("TCP", *peer)
        self.protocol = None
        self.link = None
        self.connected = True
        self.disconnecting = False
        self.disconnected = False      # connectionLost delivered to our protocol
        self.aborted = False
        self.write_closed = False      # loseWriteConnection requested
        self.fin_sent = False
        self.out = bytearray()         # written, not yet moved by the scheduler
        self.written = bytearray()     # everything ever accepted by write()
        self.writes = []               # individual write() payloads (for oracles that need grouping)
        self.reading = True            # our protocol accepts data (pauseProducing/resumeProducing)
        self.producer = None
        self.streaming = False
        self.producer_paused = False
        self.hwm = hwm                 # sender-side buffer high-water mark (None = unlimited)
        self.log = []                  # ("pause"|"resume"|"stop"|...) calls made on the producer
        self.lost_reasons = []
        self.writes_after_lost = 0
        self.tcpNoDelay = False
        self.tcpKeepAlive = False

    # ITransport
    def write(self, data):
        if not isinstance(data, (bytes, bytearray, memoryview)):
            raise TypeError("Data must be bytes, got %r" % (type(data),))
        if self.disconnected or self.aborted:
            self.writes_after_lost += 1 if data else 0
            return
        if self.write_closed:
            return
        if data:
            data = bytes(data)
            self.out += data
            self.written += data
            self.writes.append(data)
            self._maybe_pause_producer()
            if self.on_write is not None:
                self.on_write(self, data)

    def writeSequence(self, seq):
        for d in list(seq):
            self.write(d)

    def loseConnection(self, _reason=None):
        if self.disconnected or self.aborted:
            return
        self.disconnecting = True

    def abortConnection(self):
        if self.disconnected or self.aborted:
            return
        self.aborted = True
        self.disconnecting = True
        del self.out[:]

    def loseWriteConnection(self):
        self.write_closed = True

    def getPeer(self):
        return self._peer

    def getHost(self):
        return self._host

    def getTcpNoDelay(self):
        return self.tcpNoDelay

    def setTcpNoDelay(self, v):
        self.tcpNoDelay = v

    def getTcpKeepAlive(self):
        return self.tcpKeepAlive

    def setTcpKeepAlive(self, v):
        self.tcpKeepAlive = v

    # IConsumer
    def registerProducer(self, producer, streaming):
        if self.producer is not None:
            raise RuntimeError("Cannot register producer %s, because producer %s was never unregistered." % (producer, self.producer))
        if self.disconnected:
            producer.stopProducing()
            return
        self.producer = producer
        self.streaming = streaming
        self.producer_paused = False
        if not streaming:
            # pull producers are asked for data by the scheduler (Link.enabled); with pull_on_register the first chunk is
            # asked for here and now, from inside registerProducer(), as abstract.FileDescriptor and protocols.loopback do
            if self.pull_on_register:
                self.sim.probe("pull_inside_registerProducer")
                producer.resumeProducing()

    def unregisterProducer(self):
        self.producer = None
        self.producer_paused = False

    def _maybe_pause_producer(self):
        if (self.producer is not None and self.streaming and not self.producer_paused
                and self.hwm is not None and len(self.out) > self.hwm):
            self.producer_paused = True
            self.log.append("pause")
            self.sim.probe("sender_producer_paused")
            self.producer.pauseProducing()

    def _drained(self):
        """Called by the scheduler after bytes left .out."""
        if self.producer is not None and self.streaming and self.producer_paused and not self.out:
            self.producer_paused = False
            self.log.append("resume")
            self.producer.resumeProducing()

    # IPushProducer (what our protocol calls to throttle its input)
    def pauseProducing(self):
        if self.reading:
            self.sim.probe("reader_paused")
        self.reading = False

    def resumeProducing(self):
        self.reading = True

    def stopProducing(self):
        self.loseConnection()

    # helpers for scripted peers
    def take(self):
        d = bytes(self.out)
        del self.out[:]
        self._drained()
        return d

    def lose(self, reason=None):
        """Deliver connectionLost to our protocol exactly once."""
        if self.disconnected:
            return
        self.disconnected = True
        self.connected = False
        if reason is None:
            reason = Failure(error.ConnectionDone())
        self.lost_reasons.append(reason)
        p = self.producer
        if p is not None:
            self.producer = None
            self.log.append("stop")
            p.stopProducing()
        if self.protocol is not None:
            self.protocol.connectionLost(reason)


class Link:
    """Two SimTransports joined by two byte queues the scheduler moves."""

    def __init__(self, sim, a_proto, b_proto, hwm_a=None, hwm_b=None):
        self.sim = sim
        self.a = SimTransport(sim, "A", ("10.0.0.1", 1001), ("10.0.0.2", 2002), hwm_a)
        self.b = SimTransport(sim, "B", ("10.0.0.2", 2002), ("10.0.0.1", 1001), hwm_b)
        self.a.link = self.b.link = self
        self.a.peer_t, self.b.peer_t = self.b, self.a
        self.a.protocol, self.b.protocol = a_proto, b_proto
        self.flight = {"A": bytearray(), "B": bytearray()}   # bytes on the wire *towards* that side
        self.delivered = {"A": bytearray(), "B": bytearray()}
        self.fin_towards = {"A": False, "B": False}
        self.half_closed_seen = {"A": False, "B": False}

    def connect(self, a_first=True):
        order = [self.a, self.b] if a_first else [self.b, self.a]
        for t in order:
            t.protocol.makeConnection(t)

    def _side(self, name):
        return self.a if name == "A" else self.b

    # what could happen next: list of (kind, side)
    def enabled(self):
        ev = []
        for t in (self.a, self.b):
            other = t.peer_t
            if t.out and not t.disconnected:
                ev.append(("xmit", t.name))            # move written bytes onto the wire
            if self.flight[t.name] and t.reading and not t.disconnected:
                ev.append(("deliver", t.name))         # hand wire bytes to t's protocol
            if (t.disconnecting and not t.out and not t.disconnected
                    and not (t.producer is not None and not t.aborted)):
                ev.append(("close", t.name))           # local close completes
            if (self.fin_towards[t.name] and not self.flight[t.name] and not t.disconnected and t.reading):
                ev.append(("fin", t.name))             # peer's FIN arrives after its data
            if t.write_closed and not t.out and not t.fin_sent and not t.disconnected:
                ev.append(("halfclose", t.name))
            if (t.producer is not None and not t.streaming and not t.out and not t.disconnected):
                ev.append(("pull", t.name))
        return ev

    def do(self, kind, name, amount=None):
        sim = self.sim
        t = self._side(name)
        other = t.peer_t
        if kind == "xmit":
            n = len(t.out) if amount is None else max(1, min(amount, len(t.out)))
            chunk = bytes(t.out[:n])
            del t.out[:n]
            if not other.disconnected:
                self.flight[other.name] += chunk
            t._drained()
        elif kind == "deliver":
            q = self.flight[name]
            n = len(q) if amount is None else max(1, min(amount, len(q)))
            chunk = bytes(q[:n])
            del q[:n]
            self.delivered[name] += chunk
            t.protocol.dataReceived(chunk)
        elif kind == "close":
            if t.aborted:
                self.flight[other.name][:] = b""
                del self.flight[name][:]
                t.lose(Failure(error.ConnectionAborted()))
                if not other.disconnected:
                    sim.fault("rst")
                    other.lose(Failure(error.ConnectionLost()))
            else:
                self.fin_towards[other.name] = True
                del self.flight[name][:]
                t.lose(Failure(error.ConnectionDone()))
        elif kind == "fin":
            if t.fin_sent or not interfaces.IHalfCloseableProtocol.providedBy(t.protocol) or other.disconnected:
                t.lose(Failure(error.ConnectionDone()))
            else:
                # peer half-closed: tell a half-closeable protocol once
                self.fin_towards[name] = False
                self.half_closed_seen[name] = True
                t.protocol.readConnectionLost()
        elif kind == "halfclose":
            t.fin_sent = True
            self.fin_towards[other.name] = True
            if interfaces.IHalfCloseableProtocol.providedBy(t.protocol):
                t.protocol.writeConnectionLost()
        elif kind == "pull":
            t.producer.resumeProducing()
        else:
            raise ValueError(kind)

    def step(self, amounts=(1, 2, 3, 5, 8, 17, 64, 1000, None)):
        """One tape-chosen network event.  Returns False when nothing is enabled."""
        ev = self.enabled()
        if not ev:
            return False
        kind, name = self.sim.draw_choice(ev, "net")
        amount = None
        if kind in ("xmit", "deliver"):
            amount = self.sim.draw_choice(list(amounts)[::-1], "amount")  # index 0 = everything
            if amount is not None:
                self.sim.fault("segmentation")
        self.do(kind, name, amount)
        return True

    def run(self, max_steps=100000, amounts=(1, 2, 3, 5, 8, 17, 64, 1000, None)):
        n = 0
        while n < max_steps and self.step(amounts):
            n += 1
        return n

    def drop(self, name_first="A", clean=False):
        """Connection-loss fault: both sides lose the connection now; undelivered
        bytes vanish."""
        self.sim.fault("connection_lost")
        del self.flight["A"][:]
        del self.flight["B"][:]
        first, second = (self.a, self.b) if name_first == "A" else (self.b, self.a)
        r = error.ConnectionDone() if clean else error.ConnectionLost()
        first.lose(Failure(r))
        second.lose(Failure(r))


class SyncLink(Link):
    """A Link whose transports hand written bytes to the peer's protocol AT ONCE, from inside write() - the behaviour of an
    in-memory pipe, a loopback pair, an in-process relay or a test double - so that deliveries NEST: the peer's dataReceived,
    and whatever its application does in reaction (writing back included), runs while the writer is still inside its own
    callback.  (Link, the default, never delivers inside write().)

    The wire stays a FIFO per direction: bytes written towards a protocol that is in the middle of a dataReceived call are
    queued behind what is in flight and handed over when that call has returned.  The one exception (`reenter`): when the
    protocol is known to have consumed the whole piece it is working on - so handing over the next bytes now keeps the
    stream order - they are handed over immediately, re-entering dataReceived of the SAME protocol (what a pipe that simply
    calls peer.dataReceived from write() does whenever the peer reacts to the end of what it was given).  `reenter` is
    True (default: the piece is a single byte, of which nothing can be left), False (never), or a callable
    reenter(side, start, end) -> bool told the offsets of the piece in the stream towards `side` (for users who know where
    in a piece their protocol can call out).

    `pieces`: "whole" (all that is in flight in one call), "bytewise" (single bytes) or "mixed" (a tape-chosen size from `amounts` per
    piece).  While `held` is set the link is corked: writes queue up and release() hands them over in one go (so that one piece can hold
    what several writes produced).  Only the data path is synchronous; close / half-close events still go through enabled()/do().  A subclass may
    override _deliver() (e.g. to catch and log what the protocol raises, as log.callWithLogger does) and _on_write()."""

    def __init__(self, sim, a_proto, b_proto, pieces="mixed", amounts=(1, 2, 3, 5, 8, 17, 64, 1000, None), reenter=True):
        Link.__init__(self, sim, a_proto, b_proto)
        assert pieces in ("whole", "bytewise", "mixed"), pieces
        self.pieces = pieces
        self.amounts = amounts
        self.reenter = reenter
        self.active = {"A": [], "B": []}     # (start, end) offsets of the pieces that side's protocol is inside dataReceived with (innermost last)
        self.frozen = False                  # set to stop every further delivery (bytes stay in flight)
        self.held = False                    # while set, written bytes only queue up (a corked pipe); release() hands them over
        self.a.on_write = self.b.on_write = self._on_write

    def _on_write(self, t, data):
        other = t.peer_t
        chunk = bytes(t.out)
        del t.out[:]
        if not other.disconnected:
            self.flight[other.name] += chunk
        t._drained()
        if self.held:
            self.sim.probe("sync_write_held_back")
            return
        self.pump(other.name)

    def release(self):
        """Uncork: hand over, synchronously, everything that queued up while `held` was set."""
        self.held = False
        return self.run()

    def _piece(self, avail):
        if self.pieces == "whole":
            return avail
        if self.pieces == "bytewise":
            return 1
        amount = self.sim.draw_choice(list(self.amounts)[::-1], "amount")    # index 0 = everything
        if amount is None:
            return avail
        self.sim.fault("segmentation")
        return max(1, min(amount, avail))

    def _may_reenter(self, name, start, end):
        if callable(self.reenter):
            return bool(self.reenter(name, start, end))
        return bool(self.reenter) and end - start == 1

    def pump(self, name):
        """Hand what is in flight towards `name` to its protocol, piece by piece (no-op while that protocol is busy with a piece
        of which something may be unconsumed: the loop that is handing that piece over goes on afterwards)."""
        t = self._side(name)
        act = self.active[name]
        q = self.flight[name]
        if act and q:
            if not self._may_reenter(name, *act[-1]):
                self.sim.probe("sync_write_queued_behind_running_delivery")
                return
            self.sim.probe("sync_same_protocol_reentered")
        while q and not self.frozen and not self.held and t.reading and not t.disconnected:
            n = self._piece(len(q))
            chunk = bytes(q[:n])
            del q[:n]
            start = len(self.delivered[name])
            self.delivered[name] += chunk
            if self.active[t.peer_t.name]:
                self.sim.probe("sync_delivery_nested_in_peer_delivery")
            act.append((start, start + n))
            try:
                self._deliver(t, chunk)
            finally:
                act.pop()

    def _deliver(self, t, chunk):
        t.protocol.dataReceived(chunk)

    def run(self, max_steps=100000, amounts=None):
        """Hand over whatever was left in flight (after a delivery raised)."""
        n = 0
        while n < max_steps and not self.frozen and not self.held and (self.flight["A"] or self.flight["B"]):
            self.pump("A")
            self.pump("B")
            n += 1
        return n
