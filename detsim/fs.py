"""E6 — filesystem interposer: numbered crash points, torn writes, errno faults.

The workload runs against a real scratch directory (under /dev/shm when
available).  Every *mutating* call made by the code under test goes through an
FS object: os.open/remove/unlink/rename/replace/rmdir/mkdir/makedirs/symlink/
link/chmod, and open() for writing, which returns a ProxyFile whose user-space
buffer is owned by the simulator.  Reads (stat/listdir/exists/glob/open "rb")
pass through to the real filesystem, which therefore always holds exactly what
"reached the kernel".  Hard links are the real filesystem's own (os.link is an
interposed crash point like the other calls; names of one inode share content,
a truncating open or a write through one name shows through all of them,
rename over one name detaches only that name, st_nlink is the real count).

Crash semantics: the n-th interposed call does not happen (for a kernel write:
only a chosen prefix of it happens), the FS enters *dead* state and raises
SimCrash (a BaseException).  In dead state every interposed call raises SimCrash
without touching the directory and ProxyFiles discard their buffers — so
`except BaseException:` clean-up handlers in the code under test cannot run
"after death".  reboot() leaves dead state; the directory is then what a
restarted process would find.

Short writes (optional, off unless armed with `short_at`): the n-th interposed
call, if it is a kernel write of at least 2 bytes, accepts only a prefix of
1..len-1 bytes and returns that count WITHOUT raising - what POSIX write(2)
does when the disk fills up / a quota or RLIMIT_FSIZE is reached in the middle
of the buffer.  A buffered ProxyFile behaves as Python's BufferedWriter does: it
issues further kernel writes (each an interposed call of its own) for the rest
until everything is accepted or one of them raises; an unbuffered one
(buffering=0, a raw FileIO) returns the short count to its caller.  With
`short_then` set, the kernel write that follows the short one fails once with
that errno (ENOSPC, EFBIG, EDQUOT: the condition that cut the write persists);
otherwise it succeeds (space was freed in between).
"""
import builtins
import errno as _errno
import os
import shutil
import tempfile

_real_open = builtins.open


class SimCrash(BaseException):
    pass


def scratch_root():
    base = os.environ.get("VERIF_SCRATCH")
    if not base:
        base = "/dev/shm" if os.path.isdir("/dev/shm") and os.access("/dev/shm", os.W_OK) else tempfile.gettempdir()
    return base


class FS:
    def __init__(self, sim=None, bufsize=8192):
        self.sim = sim
        self.root = tempfile.mkdtemp(prefix="verif_fs_", dir=scratch_root())
        self.n = 0                # interposed mutating calls so far
        self.crash_at = None      # 1-based index of the call at which the process dies
        self.torn = 0             # bytes of the dying write that still reach the kernel
        self.errno_at = None
        self.errno = _errno.EIO
        self.errno_exc = None     # optional: callable making the exception the refused call raises instead of OSError(errno)
        self.dead = False
        self.log = []             # (n, op, relpath, size)
        self.files = []
        self.bufsize = bufsize
        self.os = OSProxy(self)
        self.crashed_op = None
        # short-write fault (off by default, see arm())
        self.short_at = None      # 1-based index of the call which, being a kernel write, accepts only a prefix
        self.short_len = 0        # bytes it accepts (clamped to 1..len-1)
        self.short_then = None    # errno with which the kernel write after the short one fails (None: it succeeds)
        self.short_fired = False
        self.short_then_fired = False
        self._short_pending = None

    # ---- lifecycle
    def destroy(self):
        for f in self.files:
            f._abandon()
        self.files = []
        shutil.rmtree(self.root, ignore_errors=True)

    def reboot(self):
        """Process restart: open files vanish with their user-space buffers."""
        for f in self.files:
            f._abandon()
        self.files = []
        self.dead = False
        self.crash_at = None
        self.errno_at = None
        self.short_at = None
        self._short_pending = None

    def arm(self, crash_at=None, torn=0, errno_at=None, err=_errno.EIO, short_at=None, short_len=1, short_then=None, exc=None):
        self.n = 0
        self.log = []
        self.crash_at = crash_at
        self.torn = torn
        self.errno_at = errno_at
        self.errno = err
        self.errno_exc = exc   # (default None: OSError(err)); e.g. KeyboardInterrupt - the call at errno_at does not happen and this is raised
        self.crashed_op = None
        self.short_at = short_at
        self.short_len = short_len
        self.short_then = short_then
        self.short_fired = False
        self.short_then_fired = False
        self._short_pending = None

    def rel(self, p):
        if isinstance(p, bytes):
            p = os.fsdecode(p)
        p = os.path.abspath(p)
        if p.startswith(self.root):
            return p[len(self.root):].lstrip("/") or "."
        return p

    # ---- the crash point
    def point(self, op, path=None, size=None):
        if self.dead:
            raise SimCrash()
        self.n += 1
        self.log.append((self.n, op, self.rel(path) if path is not None else None, size))
        if self.crash_at is not None and self.n == self.crash_at:
            self.dead = True
            self.crashed_op = op
            return "crash"
        if self.errno_at is not None and self.n == self.errno_at:
            self.crashed_op = op
            if self.errno_exc is not None:
                raise self.errno_exc()
            raise OSError(self.errno, os.strerror(self.errno), path)
        return None

    def call(self, op, path, fn, *a, **kw):
        if self.point(op, path) == "crash":
            raise SimCrash()
        return fn(*a, **kw)

    # ---- open()
    def open(self, path, mode="r", buffering=-1, *a, **kw):
        if "b" in mode and not any(c in mode for c in "wax+"):
            return _real_open(path, mode, buffering, *a, **kw)
        if "b" not in mode:
            if not any(c in mode for c in "wax+"):
                return _real_open(path, mode, buffering, *a, **kw)
            raise NotImplementedError("text-mode writable open is not interposed: %r" % (mode,))
        creates = ("w" in mode) or ("x" in mode) or ("a" in mode and not os.path.exists(path))
        if creates or "w" in mode:
            if self.point("open(%s)" % mode.replace("b", ""), path) == "crash":
                raise SimCrash()
        elif self.dead:
            raise SimCrash()
        raw = _real_open(path, mode, 0)
        pf = ProxyFile(self, raw, path, unbuffered=(buffering == 0))
        self.files.append(pf)
        return pf

    def fdopen(self, fd, mode="r", buffering=-1, *a, **kw):
        if self.dead:
            os.close(fd)
            raise SimCrash()
        if not any(c in mode for c in "wax+"):
            return os.fdopen(fd, mode, buffering, *a, **kw)
        raw = os.fdopen(fd, mode if "b" in mode else mode + "b", 0)
        pf = ProxyFile(self, raw, None, unbuffered=(buffering == 0))
        self.files.append(pf)
        return pf


class ProxyFile:
    """Writable binary file whose buffer belongs to the simulator."""

    def __init__(self, fs, raw, path, unbuffered=False):
        self.fs = fs
        self.raw = raw
        self.path = path
        self.buf = bytearray()
        self.unbuffered = unbuffered
        self.closed = False
        self.name = path
        self.mode = raw.mode

    def _abandon(self):
        self.buf = bytearray()
        if not self.closed:
            self.closed = True
            try:
                self.raw.close()
            except OSError:
                pass

    def _kernel_write_once(self, data):
        """One write(2): returns the number of bytes the kernel accepted (all of them unless a short-write fault is armed)."""
        fs = self.fs
        if not data:
            return 0
        r = fs.point("write", self.path, len(data))
        if r == "crash":
            k = max(0, min(fs.torn, len(data) - 1))
            if k:
                self.raw.write(bytes(data[:k]))
            raise SimCrash()
        if fs._short_pending is not None:
            # the write after a short one: the condition that cut it short still holds
            err, fs._short_pending = fs._short_pending, None
            fs.short_then_fired = True
            raise OSError(err, os.strerror(err), self.path)
        if fs.short_at is not None and fs.n == fs.short_at and len(data) >= 2:
            k = max(1, min(fs.short_len, len(data) - 1))
            self.raw.write(bytes(data[:k]))
            fs.short_fired = True
            fs._short_pending = fs.short_then
            return k
        self.raw.write(bytes(data))
        return len(data)

    def _kernel_write(self, data):
        # what a buffered writer does with its buffer: keep writing until the kernel has taken everything or raises
        # (without a short-write fault: exactly one kernel write)
        data = bytes(data)
        while data:
            k = self._kernel_write_once(data)
            data = data[k:]

    def write(self, data):
        if self.closed:
            raise ValueError("write to closed file")
        if self.fs.dead:
            raise SimCrash()
        data = bytes(data)
        if self.unbuffered:
            # a raw file: ONE write(2), its count is the caller's business
            return self._kernel_write_once(data)
        self.buf += data
        while len(self.buf) >= self.fs.bufsize:
            chunk = self.buf[:self.fs.bufsize]
            del self.buf[:self.fs.bufsize]
            self._kernel_write(chunk)
        return len(data)

    def writelines(self, lines):
        for l in lines:
            self.write(l)

    def flush(self):
        if self.closed:
            raise ValueError("flush of closed file")
        if self.fs.dead:
            raise SimCrash()
        if self.buf:
            chunk = bytes(self.buf)
            self.buf = bytearray()
            self._kernel_write(chunk)

    def close(self):
        if self.closed:
            return
        if self.fs.dead:
            self._abandon()
            raise SimCrash()
        try:
            self.flush()
        finally:
            if not self.closed:
                self.closed = True
                self.raw.close()
                try:
                    self.fs.files.remove(self)
                except ValueError:
                    pass

    def __enter__(self):
        return self

    def __exit__(self, *exc):
        self.close()
        return False

    def read(self, *a):
        self.flush()
        return self.raw.read(*a)

    def seek(self, *a):
        self.flush()
        return self.raw.seek(*a)

    def tell(self):
        return self.raw.tell() + len(self.buf)

    def fileno(self):
        return self.raw.fileno()

    def truncate(self, *a):
        self.flush()
        if self.fs.point("truncate", self.path) == "crash":
            raise SimCrash()
        return self.raw.truncate(*a)

    def readable(self):
        return self.raw.readable()

    def writable(self):
        return True

    def seekable(self):
        return True


class OSProxy:
    """Stands in for the `os` module inside a module under test."""

    def __init__(self, fs):
        self._fs = fs

    def __getattr__(self, name):
        return getattr(os, name)

    def remove(self, p, *a, **kw):
        return self._fs.call("remove", p, os.remove, p, *a, **kw)

    def unlink(self, p, *a, **kw):
        return self._fs.call("unlink", p, os.unlink, p, *a, **kw)

    def rename(self, a, b, *x, **kw):
        self._fs_last = (a, b)
        if self._fs.point("rename", a) == "crash":
            raise SimCrash()
        self._fs.log[-1] = self._fs.log[-1][:2] + (self._fs.rel(a) + "->" + self._fs.rel(b), None)
        return os.rename(a, b, *x, **kw)

    def replace(self, a, b, *x, **kw):
        if self._fs.point("replace", a) == "crash":
            raise SimCrash()
        return os.replace(a, b, *x, **kw)

    def rmdir(self, p, *a, **kw):
        return self._fs.call("rmdir", p, os.rmdir, p, *a, **kw)

    def mkdir(self, p, *a, **kw):
        return self._fs.call("mkdir", p, os.mkdir, p, *a, **kw)

    def makedirs(self, p, *a, **kw):
        return self._fs.call("makedirs", p, os.makedirs, p, *a, **kw)

    def symlink(self, a, b, *x, **kw):
        return self._fs.call("symlink", b, os.symlink, a, b, *x, **kw)

    def link(self, a, b, *x, **kw):
        return self._fs.call("link", b, os.link, a, b, *x, **kw)

    def chmod(self, p, *a, **kw):
        return self._fs.call("chmod", p, os.chmod, p, *a, **kw)

    def open(self, p, flags, *a, **kw):
        if flags & (os.O_CREAT | os.O_TRUNC | os.O_WRONLY | os.O_RDWR):
            if self._fs.point("os.open", p) == "crash":
                raise SimCrash()
        elif self._fs.dead:
            raise SimCrash()
        return os.open(p, flags, *a, **kw)

    def fdopen(self, fd, *a, **kw):
        return self._fs.fdopen(fd, *a, **kw)

    def fsync(self, fd):
        if self._fs.point("fsync", None) == "crash":
            raise SimCrash()
        return os.fsync(fd)


class Installed:
    """Context manager rebinding module-level names (`os`, `open`, `_open`) of the
    modules under test to the interposer, and restoring them."""

    def __init__(self, fs, bindings):
        # bindings: list of (module, name, kind) with kind in {"os", "open"}
        self.fs = fs
        self.bindings = bindings
        self.saved = []

    def __enter__(self):
        for mod, name, kind in self.bindings:
            had = name in mod.__dict__
            self.saved.append((mod, name, had, mod.__dict__.get(name)))
            setattr(mod, name, self.fs.os if kind == "os" else self.fs.open)
        return self.fs

    def __exit__(self, *exc):
        for mod, name, had, old in reversed(self.saved):
            if had:
                setattr(mod, name, old)
            else:
                try:
                    delattr(mod, name)
                except AttributeError:
                    pass
        self.saved = []
        return False


def snapshot(root):
    """Sorted {relative path: bytes} of all regular files under root."""
    out = {}
    for d, dirs, files in os.walk(root):
        dirs.sort()
        for f in sorted(files):
            p = os.path.join(d, f)
            with _real_open(p, "rb") as fh:
                out[os.path.relpath(p, root)] = fh.read()
    return out
