"""Build one of Twisted's REAL reactors (select / poll / epoll / asyncio) on top of
the fake kernel (detsim.kernel), without installing it globally, and tear it
down again.  Module-level names of the modules under test are rebound for the
duration (`with installed(kernel): ...`).
"""
import selectors

from twisted.internet import base, fdesc, tcp

from . import kernel as K

KINDS = ("select", "poll", "epoll", "asyncio")


class FakeSelector(selectors.BaseSelector):
    """selectors.BaseSelector over the fake kernel (for asyncio's event loop)."""

    def __init__(self, kern):
        self.k = kern
        self._map = {}

    def _fd(self, fileobj):
        return fileobj if isinstance(fileobj, int) else fileobj.fileno()

    def register(self, fileobj, events, data=None):
        fd = self._fd(fileobj)
        if fd in self._map:
            raise KeyError("%r is already registered" % (fileobj,))
        if fd >= K.FD_BASE and fd not in self.k.socks:
            raise ValueError("Invalid file object: %r" % (fileobj,))
        key = selectors.SelectorKey(fileobj, fd, events, data)
        self._map[fd] = key
        return key

    def unregister(self, fileobj):
        fd = self._fd(fileobj)
        if fd < 0:
            for k_fd, key in self._map.items():
                if key.fileobj is fileobj:
                    fd = k_fd
                    break
        return self._map.pop(fd)  # KeyError if absent, as the real ones

    def modify(self, fileobj, events, data=None):
        fd = self._fd(fileobj)
        key = self._map[fd]
        key = selectors.SelectorKey(key.fileobj, fd, events, data)
        self._map[fd] = key
        return key

    def get_map(self):
        return _KeyMap(self)

    def get_key(self, fileobj):
        try:
            return self._map[self._fd(fileobj)]
        except KeyError:
            raise KeyError("%r is not registered" % (fileobj,))

    def _scan(self):
        k = self.k
        out = {}
        rr, ww = [], []
        for fd, key in sorted(self._map.items()):
            if fd >= K.FD_BASE:
                s = k.socks.get(fd)
                if s is None:
                    continue
                ev = 0
                # epoll-based selectors report ERR/HUP as both readable and writable
                if (key.events & selectors.EVENT_READ) and k.readable(s):
                    ev |= selectors.EVENT_READ
                if (key.events & selectors.EVENT_WRITE) and k.writable(s):
                    ev |= selectors.EVENT_WRITE
                if ev:
                    out[fd] = ev
            else:
                if key.events & selectors.EVENT_READ:
                    rr.append(fd)
                if key.events & selectors.EVENT_WRITE:
                    ww.append(fd)
        r, w = k.real_ready(rr, ww)
        for fd in r:
            out[fd] = out.get(fd, 0) | selectors.EVENT_READ
        for fd in w:
            out[fd] = out.get(fd, 0) | selectors.EVENT_WRITE
        return out

    def select(self, timeout=None):
        out = self._scan()
        if not out and (timeout is None or timeout > 0):
            self.k.would_block(timeout, lambda: bool(self._scan()))
            out = self._scan()
        return [(self._map[fd], out[fd]) for fd in self.k.order(out) if fd in self._map]

    def close(self):
        self._map.clear()


class _KeyMap:
    def __init__(self, sel):
        self._sel = sel

    def __len__(self):
        return len(self._sel._map)

    def get(self, fileobj, default=None):
        try:
            return self[fileobj]
        except KeyError:
            return default

    def __getitem__(self, fileobj):
        fd = self._sel._fd(fileobj)
        return self._sel._map[fd]

    def __iter__(self):
        return iter(sorted(self._sel._map))

    def __contains__(self, fileobj):
        try:
            self[fileobj]
            return True
        except KeyError:
            return False

    def values(self):
        return [self._sel._map[k] for k in sorted(self._sel._map)]

    def keys(self):
        return sorted(self._sel._map)

    def items(self):
        return [(k, self._sel._map[k]) for k in sorted(self._sel._map)]


class installed:
    """Rebind socket / fdesc seams of tcp.py and base.py to the fake kernel."""

    def __init__(self, kern):
        self.k = kern
        self.saved = []

    def _set(self, mod, name, val):
        self.saved.append((mod, name, getattr(mod, name)))
        setattr(mod, name, val)

    def __enter__(self):
        proxy = K.SocketModuleProxy(self.k)
        self._set(tcp, "socket", proxy)
        self._set(base, "socket", proxy)
        real_cloexec, real_nonblock = fdesc._setCloseOnExec, fdesc.setNonBlocking

        def cloexec(fd):
            if fd >= K.FD_BASE:
                return
            return real_cloexec(fd)

        def nonblock(fd):
            if fd >= K.FD_BASE:
                return
            return real_nonblock(fd)

        self._set(fdesc, "_setCloseOnExec", cloexec)
        self._set(fdesc, "setNonBlocking", nonblock)
        return self

    def __exit__(self, *exc):
        for mod, name, val in reversed(self.saved):
            setattr(mod, name, val)
        self.saved = []
        return False


def make_reactor(kind, kern, now, fake_select_module=False):
    """A fresh, uninstalled reactor of the given kind whose poller is the fake
    one and whose seconds() is `now()`.
    fake_select_module (optional, select reactor only): also rebind the `select` module name inside selectreactor.py, which its
    descriptor-probing pass after EBADF ("preening") calls select.select through - needed by scenarios that close a fake
    descriptor behind the reactor's back (the real select rejects the fake kernel's fd numbers)."""
    if kind == "select":
        from twisted.internet import selectreactor

        old = selectreactor._select
        selectreactor._select = K.FakeSelect(kern)
        r = selectreactor.SelectReactor()
        if fake_select_module:
            old_mod = selectreactor.select
            selectreactor.select = K.SelectModuleProxy(kern)

            def restore():
                selectreactor._select = old
                selectreactor.select = old_mod

            r._verif_restore = restore
        else:
            r._verif_restore = lambda: setattr(selectreactor, "_select", old)
    elif kind == "poll":
        from twisted.internet import pollreactor

        old = pollreactor.poll
        pollreactor.poll = lambda: K.FakePoll(kern)
        r = pollreactor.PollReactor()
        r._verif_restore = lambda: setattr(pollreactor, "poll", old)
    elif kind == "epoll":
        from twisted.internet import epollreactor

        old = epollreactor.epoll
        epollreactor.epoll = lambda sizehint=-1: K.FakeEpoll(kern, sizehint)
        r = epollreactor.EPollReactor()
        r._verif_restore = lambda: setattr(epollreactor, "epoll", old)
    elif kind == "asyncio":
        import asyncio

        from twisted.internet import asyncioreactor

        loop = asyncio.SelectorEventLoop(FakeSelector(kern))
        loop.time = now
        loop.set_exception_handler(lambda loop, context: None)   # oracle failures are remembered by Sim; keep stderr quiet
        r = asyncioreactor.AsyncioSelectorReactor(loop)
        r._verif_loop = loop
        r._verif_restore = lambda: None
    else:
        raise ValueError(kind)
    r.seconds = now
    r._verif_kind = kind
    return r


def iterate(r):
    """Exactly one non-blocking pass of the reactor's main loop."""
    if r._verif_kind == "asyncio":
        loop = r._verif_loop
        loop.call_soon(loop.stop)
        loop.run_forever()
    else:
        r.runUntilCurrent()
        r.doIteration(0)


def teardown(r):
    try:
        for sel in r.removeAll():
            pass
    except Exception:
        pass
    try:
        w = getattr(r, "waker", None)
        if w is not None:
            try:
                r.removeReader(w)
            except Exception:
                pass
            w.connectionLost(None)
    except Exception:
        pass
    try:
        for dc in r.getDelayedCalls():
            dc.cancel()
    except Exception:
        pass
    if getattr(r, "_verif_kind", None) == "asyncio":
        try:
            r._verif_loop.close()
        except Exception:
            pass
    r._verif_restore()
