"""Choice tape: the only source of nondeterminism a scenario may use.

In search mode every value comes from one PRNG (random.Random seeded from the
run seed) and is appended to ``rec``.  In replay mode values are read from the
given list (reduced into range); an exhausted tape yields 0, which every
scenario defines as its simplest choice.  The recorded list *is* the replay
file.  No logging path ever draws.
"""
import hashlib
import random


def derive(*parts):
    """Stable 64-bit integer from arbitrary printable parts (never hash())."""
    h = hashlib.sha256("/".join(str(p) for p in parts).encode()).digest()
    return int.from_bytes(h[:8], "big")


class Tape:
    __slots__ = ("rng", "rec", "replay", "pos", "overrun")

    def __init__(self, seed=None, replay=None):
        self.rec = []
        self.pos = 0
        self.overrun = 0
        if replay is not None:
            self.replay = list(replay)
            self.rng = None
        else:
            self.replay = None
            self.rng = random.Random(seed)

    def _next(self, n):
        """Value in [0, n]."""
        if self.replay is not None:
            if self.pos < len(self.replay):
                v = self.replay[self.pos]
                if not (0 <= v <= n):
                    v = v % (n + 1)
            else:
                v = 0
                self.overrun += 1
            self.pos += 1
        else:
            v = self.rng.randint(0, n)
        self.rec.append(v)
        return v

    def draw_int(self, lo, hi, label=None):
        if hi <= lo:
            return lo
        return lo + self._next(hi - lo)

    def draw_choice(self, seq, label=None):
        n = len(seq)
        if n == 1:
            return seq[0]
        if n == 0:
            raise IndexError("draw_choice from empty sequence (%s)" % (label,))
        return seq[self._next(n - 1)]

    def draw_bool(self, p=0.5, label=None):
        """True with probability p in search mode; recorded as 0/1 (0 = False)."""
        if self.replay is not None:
            return bool(self._next(1))
        v = 1 if self.rng.random() < p else 0
        self.rec.append(v)
        return bool(v)

    def draw_weighted(self, pairs, label=None):
        """pairs: [(item, weight int>=0)...]; first item is the simplest."""
        total = 0
        for _, w in pairs:
            total += w
        if total <= 0:
            raise IndexError("draw_weighted: no weight (%s)" % (label,))
        if self.replay is not None:
            # replay stores the *index* so that shrinking lowers toward item 0
            idx = self._next(len(pairs) - 1) if len(pairs) > 1 else 0
            # skip zero-weight entries deterministically
            k = idx
            for _ in range(len(pairs)):
                if pairs[k][1] > 0:
                    return pairs[k][0]
                k = (k + 1) % len(pairs)
        r = self.rng.randrange(total)
        for i, (item, w) in enumerate(pairs):
            if r < w:
                if len(pairs) > 1:
                    self.rec.append(i)
                return item
            r -= w
        raise AssertionError

    def draw_bytes(self, n, alphabet=None, label=None):
        """n bytes; each byte one tape entry (use draw_blob for big data)."""
        if alphabet is None:
            return bytes(self._next(255) for _ in range(n))
        m = len(alphabet) - 1
        if m == 0:
            return bytes(alphabet) * n
        return bytes(alphabet[self._next(m)] for _ in range(n))

    def draw_blob(self, n, label=None):
        """n pseudo-random bytes expanded from a single tape entry."""
        s = self._next(0xFFFFFFFF)
        return random.Random(s).randbytes(n) if n else b""

    def draw_perm(self, seq, label=None):
        """A permutation of seq (Fisher-Yates, identity on an all-zero tape)."""
        a = list(seq)
        for i in range(len(a) - 1):
            j = i + self._next(len(a) - 1 - i)
            a[i], a[j] = a[j], a[i]
        return a
