"""E4 — an in-process model of the TCP socket layer and of select/poll/epoll,
below Twisted's *real* reactors (selectreactor, pollreactor, epollreactor,
asyncioreactor), posixbase, base, tcp and abstract.

FakeSocket implements the subset of the socket API tcp.py uses, against a
Kernel object that owns: bounded send/receive buffers (sizes are per-run knobs,
down to 1 byte, to force partial writes and EAGAIN), bytes "on the wire" that
only the scheduler moves (tape-chosen amounts), FIN ordered behind data, RST
discarding in-flight data, pending connects and accept queues.  FakeSelect /
FakePoll / FakeEpoll / FakeSelector compute readiness from that model; real
fds (the reactor waker's pipe) are tested with a zero-timeout real select.

Readiness table: DESIGN.md appendix A.4.  Modelling decisions (stated in the
evidence's assumptions): close() with unread input sends FIN, not RST; no
listen-backlog limit; no Nagle/delayed-ACK timing — delivery order within a
direction is FIFO, everything else is the scheduler's choice.
"""
import errno
import os
import select as _real_select_mod
import socket as _real_socket

FD_BASE = 100000

POLLIN, POLLPRI, POLLOUT, POLLERR, POLLHUP, POLLNVAL = 1, 2, 4, 8, 16, 32
EPOLLRDHUP = 0x2000


class Kernel:
    def __init__(self, sim, sndbuf=65536, rcvbuf=65536, now=None):
        self.sim = sim
        self.socks = {}            # fd -> FakeSocket (open ones)
        self.all = []              # every socket ever created (leak check)
        self.next_fd = FD_BASE
        self.listeners = {}        # (host, port) -> FakeSocket
        self.next_port = 40000
        self.sndbuf = sndbuf
        self.rcvbuf = rcvbuf
        self.pending_connects = [] # client sockets with a SYN outstanding
        self.short_io = True       # tape may shorten send()/recv() below what would fit
        self.permute_ready = True  # tape permutes the order readiness is reported in
        self.idle = None           # callable(timeout) invoked when a poller would block
        self.spurious_p = 0.0      # probability that an idle connected socket is reported readable (spurious wake-up fault)
        self.poll_blocked_forever = 0
        # optional fault (default off): send() on a healthy connected socket is refused, now and then, with a TRANSIENT error -
        # nothing was taken, the socket stays usable and writable, the caller is expected to try again (send(2): ENOBUFS
        # "insufficient resources were available"; EAGAIN on a socket the poller reported writable)
        self.send_refusal_p = 0.0
        self.send_refusal_errnos = (errno.ENOBUFS, errno.EAGAIN)

    # ---------------------------------------------------------------- sockets
    def socket(self, family=_real_socket.AF_INET, type=_real_socket.SOCK_STREAM, proto=0, fileno=None):
        s = FakeSocket(self, family, type)
        return s

    def _alloc(self, s):
        fd = self.next_fd
        self.next_fd += 1
        self.socks[fd] = s
        self.all.append(s)
        return fd

    # ---------------------------------------------------------------- scheduler-owned events
    def enabled(self):
        """Kernel events the scheduler may fire next: list of (kind, socket)."""
        ev = []
        for c in list(self.pending_connects):
            ev.append(("connect", c))
        for s in self.all:
            if s.peer is None:
                continue
            p = s.peer
            if s.wire and not s.rst_queued:
                if p.closed or p.rd_shut:
                    ev.append(("data-to-closed", s))
                elif len(p.rx) < p.rcvbuf:
                    ev.append(("deliver", s))
            if s.fin_queued and not s.fin_delivered and not s.wire and not s.rst_queued:
                ev.append(("fin", s))
            if s.rst_queued and not s.rst_delivered:
                ev.append(("rst", s))
        return ev

    def fire(self, kind, s, amount=None):
        sim = self.sim
        if kind == "connect":
            self.pending_connects.remove(s)
            l = self.listeners.get(s.connecting_to)
            if l is None or l.closed or not l.listening:
                s.so_error = errno.ECONNREFUSED
                s.connect_failed = True
                sim.fault("connect_refused")
                return
            srv = FakeSocket(self, s.family, s.type)
            srv.local = l.local
            srv.remote = s.local
            srv.connected = True
            srv.peer = s
            s.peer = srv
            s.remote = l.local
            s.connected = True
            s.connect_done = True
            l.accept_q.append(srv)
        elif kind == "deliver":
            p = s.peer
            room = p.rcvbuf - len(p.rx)
            n = min(len(s.wire), room)
            if amount is not None:
                n = max(1, min(n, amount))
            p.rx += s.wire[:n]
            del s.wire[:n]
        elif kind == "data-to-closed":
            # data arriving at a closed socket is answered with RST
            del s.wire[:]
            s.rst_rcvd = True
            sim.fault("rst_for_data_to_closed_socket")
        elif kind == "fin":
            s.fin_delivered = True
            s.peer.fin_rcvd = True
        elif kind == "rst":
            s.rst_delivered = True
            p = s.peer
            del s.wire[:]
            if not p.closed:
                p.rst_rcvd = True
                del p.rx[:]
                del p.wire[:]
            sim.fault("rst_delivered")
        else:
            raise ValueError(kind)

    def quiescent(self):
        return not self.enabled()

    def leaked(self):
        return [s for s in self.all if not s.closed]

    # ---------------------------------------------------------------- readiness
    def readable(self, s):
        if s.closed:
            return False
        if s.listening:
            return bool(s.accept_q)
        if s.connect_failed or s.rst_rcvd:
            return True
        if bool(s.rx) or s.fin_rcvd or s.rd_shut:
            return True
        if self.spurious_p and s.connected and self.sim.draw_bool(self.spurious_p, "spurious"):
            # select(2) BUGS: "a socket may be reported as ready for reading, while a subsequent read blocks"
            self.sim.fault("spurious_readable")
            return True
        return False

    def writable(self, s):
        if s.closed or s.listening:
            return False
        if s.connect_failed or s.rst_rcvd:
            return True
        if s.connecting and not s.connect_done:
            return False
        if not s.connected:
            return True  # unconnected stream socket: poll reports OUT|HUP; select says writable
        if s.wr_shut:
            return True
        return len(s.wire) < s.sndbuf

    def pollmask(self, s, want):
        m = 0
        if (want & POLLIN) and self.readable(s):
            m |= POLLIN
        if (want & POLLOUT) and self.writable(s):
            m |= POLLOUT
        if s.rst_rcvd or s.connect_failed:
            m |= POLLERR | POLLHUP
        elif s.fin_rcvd and (s.wr_shut or s.fin_queued):
            m |= POLLHUP
        elif not s.connected and not s.listening and not s.connecting:
            m |= POLLHUP
        return m

    def real_ready(self, rfds, wfds):
        if not rfds and not wfds:
            return set(), set()
        r, w, _ = _real_select_mod.select(list(rfds), list(wfds), [], 0)
        return set(r), set(w)

    def order(self, items):
        items = sorted(items)
        if self.permute_ready and len(items) > 1:
            items = self.sim.draw_perm(items, "ready-order")
        return items

    def would_block(self, timeout, scan=None):
        """A poller found nothing ready.  Single-threaded mode: simulated sleep.
        `scan` is a side-effect-free callable telling whether something is ready now
        (multi-threaded mode blocks the calling sim-thread on it)."""
        if self.idle is not None:
            return self.idle(timeout, scan)
        if timeout is None:
            self.poll_blocked_forever += 1
        return None


class FakeSocket:
    def __init__(self, kernel, family=_real_socket.AF_INET, type=_real_socket.SOCK_STREAM, proto=0, fileno=None):
        self.k = kernel
        self.family = family
        self.type = type
        self.proto = proto
        self.fd = kernel._alloc(self)
        self.closed = False
        self.local = None
        self.remote = None
        self.listening = False
        self.accept_q = []
        self.connecting = False
        self.connecting_to = None
        self.connect_done = False
        self.connect_failed = False
        self.connected = False
        self.peer = None
        self.so_error = 0
        self.rx = bytearray()
        self.wire = bytearray()     # bytes sent, not yet in the peer's rx (send buffer + network)
        self.sndbuf = kernel.sndbuf
        self.rcvbuf = kernel.rcvbuf
        self.wr_shut = False
        self.rd_shut = False
        self.fin_queued = False
        self.fin_delivered = False
        self.fin_rcvd = False
        self.rst_queued = False
        self.rst_delivered = False
        self.rst_rcvd = False
        self.linger_rst = False
        self.opts = {}
        self.sent_total = 0
        self.recv_total = 0
        self.blocking = True

    # -- plumbing
    def fileno(self):
        return -1 if self.closed else self.fd

    def setblocking(self, flag):
        self.blocking = bool(flag)

    def settimeout(self, t):
        self.blocking = t is None

    def _check_open(self):
        if self.closed:
            raise OSError(errno.EBADF, "Bad file descriptor")

    def setsockopt(self, level, opt, value):
        self._check_open()
        self.opts[(level, opt)] = value
        if level == _real_socket.SOL_SOCKET and opt == _real_socket.SO_LINGER:
            import struct
            on, secs = struct.unpack("ii", value) if isinstance(value, (bytes, bytearray)) else (1, 0)
            self.linger_rst = bool(on) and secs == 0

    def getsockopt(self, level, opt, buflen=None):
        self._check_open()
        if level == _real_socket.SOL_SOCKET and opt == _real_socket.SO_ERROR:
            e, self.so_error = self.so_error, 0
            return e
        v = self.opts.get((level, opt), 0)
        return v if isinstance(v, int) else 1

    def bind(self, addr):
        self._check_open()
        host, port = addr[0], addr[1]
        if port == 0:
            port = self.k.next_port
            self.k.next_port += 1
        if (host, port) in self.k.listeners and not self.k.listeners[(host, port)].closed:
            raise OSError(errno.EADDRINUSE, "Address already in use")
        self.local = (host or "0.0.0.0", port)

    def listen(self, backlog=50):
        self._check_open()
        if self.local is None:
            self.bind(("0.0.0.0", 0))
        self.listening = True
        self.k.listeners[self.local] = self

    def getsockname(self):
        self._check_open()
        return self.local or ("0.0.0.0", 0)

    def getpeername(self):
        self._check_open()
        if not self.connected or self.remote is None:
            raise OSError(errno.ENOTCONN, "Transport endpoint is not connected")
        return self.remote

    def accept(self):
        self._check_open()
        if not self.accept_q:
            raise BlockingIOError(errno.EAGAIN, "Resource temporarily unavailable")
        s = self.accept_q.pop(0)
        return s, s.remote

    def connect_ex(self, addr):
        self._check_open()
        if self.connect_failed:
            e = self.so_error or errno.ECONNREFUSED
            self.so_error = 0
            return e
        if self.connected:
            return errno.EISCONN if self.connect_reported else self._report_connected()
        if self.connecting:
            return errno.EALREADY
        if self.local is None:
            self.local = ("127.0.0.1", self.k.next_port)
            self.k.next_port += 1
        self.connecting = True
        self.connecting_to = (addr[0], addr[1])
        self.k.pending_connects.append(self)
        return errno.EINPROGRESS

    connect_reported = False

    def _report_connected(self):
        self.connect_reported = True
        return 0

    def send(self, data, flags=0):
        self._check_open()
        k = self.k
        if self.rst_rcvd:
            raise OSError(errno.EPIPE if self.wr_shut else errno.ECONNRESET, "Connection reset by peer")
        if self.wr_shut:
            raise BrokenPipeError(errno.EPIPE, "Broken pipe")
        if not self.connected:
            raise OSError(errno.ENOTCONN, "Transport endpoint is not connected")
        room = self.sndbuf - len(self.wire)
        if room <= 0:
            k.sim.probe("send_eagain")
            raise BlockingIOError(errno.EAGAIN, "Resource temporarily unavailable")
        if k.send_refusal_p and len(data) and k.sim.draw_bool(k.send_refusal_p, "send-refused"):
            e = k.send_refusal_errnos[k.sim.draw_int(0, len(k.send_refusal_errnos) - 1, "send-refusal-errno")]
            k.sim.fault("send_refused_transiently/" + errno.errorcode[e])
            if e == errno.EAGAIN:
                raise BlockingIOError(e, os.strerror(e))
            raise OSError(e, os.strerror(e))
        n = min(len(data), room)
        if n < len(data):
            k.sim.fault("partial_send")
        if k.short_io and n > 1 and k.sim.draw_bool(0.25, "short-send"):
            n = k.sim.draw_int(1, n, "send-n")
            k.sim.fault("short_send")
        self.wire += bytes(data[:n])
        self.sent_total += n
        return n

    def recv(self, bufsize, flags=0):
        self._check_open()
        k = self.k
        if self.rx:
            n = min(bufsize, len(self.rx))
            if k.short_io and n > 1 and k.sim.draw_bool(0.25, "short-recv"):
                n = k.sim.draw_int(1, n, "recv-n")
                k.sim.fault("short_recv")
            d = bytes(self.rx[:n])
            del self.rx[:n]
            self.recv_total += n
            return d
        if self.rst_rcvd:
            raise ConnectionResetError(errno.ECONNRESET, "Connection reset by peer")
        if self.fin_rcvd or self.rd_shut:
            return b""
        if not self.connected:
            raise OSError(errno.ENOTCONN, "Transport endpoint is not connected")
        k.sim.probe("recv_eagain")
        raise BlockingIOError(errno.EAGAIN, "Resource temporarily unavailable")

    def shutdown(self, how):
        self._check_open()
        if not self.connected:
            raise OSError(errno.ENOTCONN, "Transport endpoint is not connected")
        if how in (_real_socket.SHUT_WR, _real_socket.SHUT_RDWR):
            if not self.wr_shut:
                self.wr_shut = True
                self.fin_queued = True
        if how in (_real_socket.SHUT_RD, _real_socket.SHUT_RDWR):
            self.rd_shut = True

    def close(self):
        if self.closed:
            return
        fd = self.fd
        self.closed = True
        self.k.socks.pop(fd, None)
        if self.listening:
            if self.k.listeners.get(self.local) is self:
                del self.k.listeners[self.local]
            for s in self.accept_q:
                s.close()
            self.accept_q = []
            return
        if self in self.k.pending_connects:
            self.k.pending_connects.remove(self)
        if self.connected and self.peer is not None:
            if self.linger_rst:
                self.rst_queued = True
                del self.wire[:]
            elif not self.wr_shut:
                self.wr_shut = True
                self.fin_queued = True
        del self.rx[:]

    def detach(self):
        return self.fd

    def __enter__(self):
        return self

    def __exit__(self, *a):
        self.close()


class SocketModuleProxy:
    """Stands in for the `socket` module inside tcp.py / base.py."""

    def __init__(self, kernel):
        self._k = kernel

    def __getattr__(self, name):
        return getattr(_real_socket, name)

    def socket(self, *a, **kw):
        return self._k.socket(*a, **kw)


# ---------------------------------------------------------------- pollers

def _fd_of(x):
    return x if isinstance(x, int) else x.fileno()


class FakeSelect:
    """Replacement for select.select (selectreactor._select)."""

    def __init__(self, kernel):
        self.k = kernel

    def _scan(self, rlist, wlist):
        k = self.k
        r_fake, w_fake, r_real, w_real = [], [], {}, {}
        rlist = sorted(rlist, key=_fd_of)   # readiness is evaluated in fd order (the lists may come from sets)
        wlist = sorted(wlist, key=_fd_of)
        for o in rlist:
            fd = _fd_of(o)
            if fd < 0:
                raise ValueError("file descriptor cannot be a negative integer (-1)")
            if fd >= FD_BASE:
                s = k.socks.get(fd)
                if s is None:
                    raise OSError(errno.EBADF, "Bad file descriptor")
                if k.readable(s):
                    r_fake.append((fd, o))
            else:
                r_real[fd] = o
        for o in wlist:
            fd = _fd_of(o)
            if fd < 0:
                raise ValueError("file descriptor cannot be a negative integer (-1)")
            if fd >= FD_BASE:
                s = k.socks.get(fd)
                if s is None:
                    raise OSError(errno.EBADF, "Bad file descriptor")
                if k.writable(s):
                    w_fake.append((fd, o))
            else:
                w_real[fd] = o
        rr, ww = k.real_ready(r_real.keys(), w_real.keys())
        r = r_fake + [(fd, r_real[fd]) for fd in rr]
        w = w_fake + [(fd, w_real[fd]) for fd in ww]
        return r, w

    def __call__(self, rlist, wlist, xlist, timeout=None):
        rlist, wlist = list(rlist), list(wlist)
        r, w = self._scan(rlist, wlist)
        if not r and not w and (timeout is None or timeout > 0):
            self.k.would_block(timeout, lambda: any(self._scan(rlist, wlist)))
            r, w = self._scan(rlist, wlist)
        by_fd_r = dict(r)
        by_fd_w = dict(w)
        return ([by_fd_r[fd] for fd in self.k.order(by_fd_r)], [by_fd_w[fd] for fd in self.k.order(by_fd_w)], [])


class SelectModuleProxy:
    """Stands in for the `select` MODULE inside selectreactor.py (optional, see reactors.make_reactor(fake_select_module=True)):
    the reactor's descriptor-probing pass after EBADF calls `select.select([x], [x], [x], 0)` through the module, and the real
    call rejects the fake kernel's fd numbers (>= FD_SETSIZE) - every healthy fake socket would be taken for a bad descriptor."""

    def __init__(self, kernel):
        self.select = FakeSelect(kernel)

    def __getattr__(self, name):
        return getattr(_real_select_mod, name)


class FakePoll:
    """Replacement for select.poll()."""

    def __init__(self, kernel):
        self.k = kernel
        self.reg = {}

    def register(self, fd, mask=POLLIN | POLLPRI | POLLOUT):
        self.reg[_fd_of(fd)] = mask

    def modify(self, fd, mask):
        fd = _fd_of(fd)
        if fd not in self.reg:
            raise OSError(errno.ENOENT, "No such file or directory")
        self.reg[fd] = mask

    def unregister(self, fd):
        del self.reg[_fd_of(fd)]

    def _scan(self):
        k = self.k
        out = {}
        real_r, real_w = [], []
        for fd, mask in sorted(self.reg.items()):
            if fd >= FD_BASE:
                s = k.socks.get(fd)
                if s is None:
                    out[fd] = POLLNVAL
                    continue
                m = k.pollmask(s, mask)
                if m:
                    out[fd] = m
            else:
                if mask & POLLIN:
                    real_r.append(fd)
                if mask & POLLOUT:
                    real_w.append(fd)
        rr, ww = k.real_ready(real_r, real_w)
        for fd in rr:
            out[fd] = out.get(fd, 0) | POLLIN
        for fd in ww:
            out[fd] = out.get(fd, 0) | POLLOUT
        return out

    def poll(self, timeout=None, maxevents=-1):
        out = self._scan()
        if not out and (timeout is None or timeout < 0 or timeout > 0):
            t = None if (timeout is None or timeout < 0) else timeout / 1000.0
            self.k.would_block(t, lambda: bool(self._scan()))
            out = self._scan()
        return [(fd, out[fd]) for fd in self.k.order(out)]


class FakeEpoll(FakePoll):
    """Replacement for select.epoll(): level-triggered, timeout in seconds."""

    def __init__(self, kernel, sizehint=-1, flags=0):
        FakePoll.__init__(self, kernel)
        self.closed = False

    def register(self, fd, mask=POLLIN | POLLOUT):
        fd = _fd_of(fd)
        if fd in self.reg:
            raise FileExistsError(errno.EEXIST, "File exists")
        if fd >= FD_BASE and fd not in self.k.socks:
            raise OSError(errno.EBADF, "Bad file descriptor")
        self.reg[fd] = mask

    def unregister(self, fd):
        fd = _fd_of(fd)
        if fd not in self.reg:
            raise FileNotFoundError(errno.ENOENT, "No such file or directory")
        del self.reg[fd]

    def _scan(self):
        # a closed fd silently leaves every epoll set
        for fd in [fd for fd in self.reg if fd >= FD_BASE and fd not in self.k.socks]:
            del self.reg[fd]
        out = FakePoll._scan(self)
        # epoll always reports ERR/HUP (already included by pollmask) — nothing to add
        return out

    def poll(self, timeout=None, maxevents=-1):
        out = self._scan()
        if not out and (timeout is None or timeout < 0 or timeout > 0):
            t = None if (timeout is None or timeout < 0) else timeout
            self.k.would_block(t, lambda: bool(self._scan()))
            out = self._scan()
        ev = [(fd, out[fd]) for fd in self.k.order(out)]
        if maxevents is not None and maxevents > 0:
            ev = ev[:maxevents]
        return ev

    def close(self):
        self.closed = True

    def fileno(self):
        return -1
