#!/bin/bash
# tools/seed_eval.sh <seed-id> <worktree> <property> "<test files...>"
# Confirms an independently authored breaking change (tests pass with it, demo fails with / passes without),
# runs the property's check against it, and files it under /verif/seeded/<seed-id>/.
id=$1; wt=$2; prop=$3; tests=$4
cd "$wt" || exit 3
git diff -- src > /tmp/_seed_$id.diff
if ! [ -s /tmp/_seed_$id.diff ]; then echo "no change applied in $wt"; exit 3; fi
export PYTHONPATH=$wt/src${SEED_EXTRA_PYTHONPATH:+:$SEED_EXTRA_PYTHONPATH}
where=$(/venv/bin/python -c "import twisted; print(twisted.__file__)")
case "$where" in $wt/*) ;; *) echo "twisted imported from $where"; exit 3;; esac
echo "== tests with the change applied"
tres=$(timeout 1500 /venv/bin/python -m pytest -q -p no:cacheprovider $tests 2>&1 | tail -1)
echo "$tres"
echo "== demo with the change (expect FAIL)"
timeout 300 /venv/bin/python demo.py > /tmp/_seed_$id.with 2>&1; rc_with=$?
tail -3 /tmp/_seed_$id.with
git apply -R /tmp/_seed_$id.diff || { echo "cannot revert"; exit 3; }
echo "== tests without the change"
tres0=$(timeout 1500 /venv/bin/python -m pytest -q -p no:cacheprovider $tests 2>&1 | tail -1)
echo "$tres0"
echo "== demo without the change (expect PASS)"
timeout 300 /venv/bin/python demo.py > /tmp/_seed_$id.without 2>&1; rc_without=$?
tail -2 /tmp/_seed_$id.without
git apply /tmp/_seed_$id.diff
unset PYTHONPATH
cd /verif
echo "== check $prop quick against the change"
out=$(tools/mutate.py $prop quick --patch /tmp/_seed_$id.diff 2>&1); rc_q=$?
echo "$out" | grep -E "^violation|VIOLATION|HARNESS|quick:" | head -4 | cut -c1-220
caught_by="quick"
sigs=$(echo "$out" | grep "^violation:" | sed 's/^violation: //' | head -3 | tr '\n' ';')
if [ $rc_q -ne 1 ]; then
  echo "== not caught by quick; trying thorough (VERIF_BUDGET_S=${SEED_THOROUGH_S:-120})"
  out=$(VERIF_BUDGET_S=${SEED_THOROUGH_S:-120} tools/mutate.py $prop thorough --patch /tmp/_seed_$id.diff 2>&1); rc_t=$?
  echo "$out" | grep -E "^violation|VIOLATION|HARNESS|thorough:" | head -4 | cut -c1-220
  sigs=$(echo "$out" | grep "^violation:" | sed 's/^violation: //' | head -3 | tr '\n' ';')
  if [ $rc_t -eq 1 ]; then caught_by="thorough"; else caught_by="MISSED"; fi
fi
mkdir -p seeded/$id
cp /tmp/_seed_$id.diff seeded/$id/patch.diff
cp $wt/demo.py seeded/$id/demo.py 2>/dev/null
cp $wt/notes.md seeded/$id/notes.md 2>/dev/null
/venv/bin/python - "$id" "$prop" "$tests" "$tres" "$tres0" "$rc_with" "$rc_without" "$caught_by" "$sigs" <<'PY'
import json, sys
id, prop, tests, tres, tres0, rcw, rcwo, caught, sigs = sys.argv[1:]
notes = ""
try:
    notes = open("/verif/seeded/%s/notes.md" % id).read()
except Exception:
    pass
meta = {
 "id": id, "property": prop,
 "needs_to_manifest": notes[:1500],
 "confirmed": {"tests_run": tests, "tests_with_change": tres, "tests_without_change": tres0,
               "demo_exit_with_change": int(rcw), "demo_exit_without_change": int(rcwo),
               "demo_discriminates": int(rcw) != 0 and int(rcwo) == 0},
 "check_result": {"caught_by": caught, "signatures": [s for s in sigs.split(";") if s]},
 "how_run": "tools/seed_eval.sh: pytest in the author's worktree with PYTHONPATH=<worktree>/src (with and without the change), demo.py likewise, then tools/mutate.py %s quick|thorough --patch patch.diff (scratch copy of /repo/src with the patch applied; removed afterwards)" % prop,
}
json.dump(meta, open("/verif/seeded/%s/meta.json" % id, "w"), indent=1)
print("RESULT", id, prop, "caught_by=" + caught, "demo_ok=%s" % meta["confirmed"]["demo_discriminates"], sigs)
PY
