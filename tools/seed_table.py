#!/venv/bin/python
"""Regenerate the seeded-change table in DESIGN.md (between the SEEDED-TABLE markers) from seeded/*/meta.json."""
import glob, json, os, re
V = os.path.dirname(os.path.dirname(os.path.abspath(__file__)))
rows = []
for f in sorted(glob.glob(os.path.join(V, "seeded", "*", "meta.json"))):
    m = json.load(open(f))
    notes = m.get("needs_to_manifest", "")
    # first non-heading paragraph of the author's notes, shortened
    first = ""
    try:
        patch = open(os.path.join(os.path.dirname(f), "patch.diff")).read()
        files = sorted(set(re.findall(r"^\+\+\+ b/(\S+)", patch, re.M)))
    except Exception:
        files = []
    sigs = m["check_result"]["signatures"]
    rows.append((m["property"], m["id"], ", ".join(x.replace("src/twisted/", "") for x in files), m["check_result"]["caught_by"],
                 "; ".join(s.split(":", 1)[1] for s in sigs[:2]), m.get("history", "")))
out = ["", "| property | seeded change (dir under seeded/) | file(s) changed | caught by | first signatures reported | history |", "|---|---|---|---|---|---|"]
for r in rows:
    out.append("| %s | %s | %s | %s | %s | %s |" % r)
caught = sum(1 for r in rows if r[3] in ("quick", "thorough"))
neutral = sum(1 for r in rows if r[3] == "neutralised")
missed = sum(1 for r in rows if r[3] == "MISSED")
first_miss = sum(1 for r in rows if r[5])
out.append("")
out.append("%d changes kept, %d caught by the current checks (%d in the quick tier), %d left uncaught on purpose (judged outside their statements, see their history), %d neutralised by a later repair in /repo (no longer a breaking change on the repaired tree); rows with a history were MISSED by the first version of their check, or caught only in the thorough tier, and led to a stronger scenario."
           % (len(rows), caught, sum(1 for r in rows if r[3] == "quick"), missed, neutral))
out.append("")
block = "\n".join(out)
p = os.path.join(V, "DESIGN.md")
s = open(p).read()
if "SEEDED-TABLE-PLACEHOLDER" in s:
    s = s.replace("SEEDED-TABLE-PLACEHOLDER", "\n<!-- SEEDED-TABLE-BEGIN -->\n<!-- SEEDED-TABLE-END -->")
a = s.index("<!-- SEEDED-TABLE-BEGIN -->") + len("<!-- SEEDED-TABLE-BEGIN -->")
b = s.index("<!-- SEEDED-TABLE-END -->")
s = s[:a] + block + s[b:]
open(p, "w").write(s)
print("rows", len(rows), "caught", caught)
