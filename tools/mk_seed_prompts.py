#!/usr/bin/env python3
"""tools/mk_seed_prompts.py ROUND  -> /tmp/seedprompts/r<ROUND>_CNN.txt for every claimed property.

Each prompt = COMMON text + the property's text + a terse list of changes earlier adversaries already made
(so the new one differs).  Nothing else from /verif is given to the sub-agent."""
import glob, json, os, re, sys

rnd = sys.argv[1]
common = open("/verif/docs/SEED_PROMPT_COMMON_R6.txt" if rnd >= "6" else "/verif/docs/SEED_PROMPT_COMMON_R5.txt" if rnd >= "5" else "/verif/docs/SEED_PROMPT_COMMON_R4.txt" if rnd >= "4" else "/verif/docs/SEED_PROMPT_COMMON.txt").read()
props = {json.loads(l)["id"]: json.loads(l) for l in open("/verif/properties.jsonl")}
claimed = open("/verif/tools/ready.txt").read().split()
done = {}
for mf in sorted(glob.glob("/verif/seeded/*/meta.json")):
    m = json.load(open(mf))
    d = os.path.dirname(mf)
    patch = open(d + "/patch.diff").read()
    files = sorted({l[6:] for l in patch.splitlines() if l.startswith("+++ b/")})
    funcs = sorted({mm.group(1) for mm in re.finditer(r"^@@.*@@\s*(?:def|class)\s+(\w+)", patch, re.M)})
    text = re.sub(r"\s+", " ", m.get("needs_to_manifest", ""))[:420]
    done.setdefault(m["property"], []).append("- %s (files: %s; near: %s): %s ..." % (m["id"], ", ".join(files), ", ".join(funcs), text))
for pid in claimed:
    p = props[pid]
    wt = "/tmp/seed%s_%s" % (rnd, pid)
    body = [common, "", "=" * 100, "YOUR WORKTREE: %s   (a git worktree of Twisted; edit src/ there)" % wt, "",
            "PROPERTY %s - %s" % (pid, p["title"]), "", "Statement: " + p["statement"], "",
            "Intended quantification: " + p["quantifier"]["text"], "",
            "Code the property is anchored in: " + ", ".join(p["anchors"]["files"]) + " ; mechanisms: "
            + "; ".join("%s (%s)" % (m["name"], m["where"]) for m in p["anchors"].get("mechanism", [])), "",
            "ALREADY DONE (do something different):"] + done.get(pid, ["- nothing yet"])
    open("/tmp/seedprompts/r%s_%s.txt" % (rnd, pid), "w").write("\n".join(body) + "\n")
print("wrote", len(claimed), "prompts")
