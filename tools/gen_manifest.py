#!/venv/bin/python
"""Regenerate /verif/MANIFEST.json from the property modules present in props/.
A property is listed as a check only if props/cNN.py exists and sets READY = True
(default True); everything else with a reason goes to not_applicable."""
import importlib, json, os, sys

VERIF = os.path.dirname(os.path.dirname(os.path.abspath(__file__)))
sys.path.insert(0, VERIF)
sys.path.insert(1, "/repo/src")
sys.path.append(os.path.join(VERIF, "vendor"))

NA = {
 "C26": "FilePath.child/preauthChild/descendant and File.getChild containment are pure path-string computations on one argument; nothing for a simulator to schedule or fault (DESIGN.md section 7).",
 "C27": "Redirect resolution, method rewriting and header stripping are a pure function of the previous request and response; the chain is strictly sequential, no interleaving or fault to explore (DESIGN.md section 7).",
 "C32": "DNS Message encode/decode round-trip is a codec on in-memory values; truncation is a function of message and limit (independent decoder dnspython also absent) (DESIGN.md section 7).",
 "C34": "RFC 1982 serial arithmetic is integer arithmetic; the quantifier itself calls for a proof, not simulation (DESIGN.md section 7).",
 "C37": "NS/getNS/MP/getMP and Key.toString/fromString are codecs on values; key-generation randomness is not a schedule (DESIGN.md section 7).",
 "C41": "IMAP4 modified UTF-7 and SMTP xtext are string codecs: pure functions of input (DESIGN.md section 7).",
 "C42": "collapseNestedLists/parseNestedParens is a pure serialise/parse round-trip on an in-memory structure; parser is called on a complete line, no stream state (DESIGN.md section 7).",
 "C43": "IRC line splitting and CTCP/low-level quoting are pure functions of (text, limit) (DESIGN.md section 7).",
 "C45": "Unjellying under SecurityOptions is a pure traversal of one s-expression; no schedule, time, delivery or fault (DESIGN.md section 7).",
 "C46": "quoteStringArgument vs the endpoint-description tokenizer is a pure string round-trip (DESIGN.md section 7).",
 "C55": "Log text formatting is a pure function of the event dict; hostile __str__/__repr__ are inputs, not faults across a seam (DESIGN.md section 7).",
 "C56": "flatten -> JSON -> format equivalence is a pure function of the event (DESIGN.md section 7).",
}
NOT_BUILT = {}  # id -> reason, for claimed-in-design properties whose check is not (yet) sound/built


def main():
    sys.dont_write_bytecode = True
    props = [json.loads(l) for l in open(os.path.join(VERIF, "properties.jsonl"))]
    ids = [p["id"] for p in props]
    checks = []
    na = []
    nb_path = os.path.join(VERIF, "tools", "not_built.json")
    not_built = dict(NOT_BUILT)
    if os.path.exists(nb_path):
        not_built.update(json.load(open(nb_path)))
    from detsim import clock
    clock.install_global()
    ready = set(open(os.path.join(VERIF, "tools", "ready.txt")).read().split())
    for pid in ids:
        f = os.path.join(VERIF, "props", pid.lower() + ".py")
        if pid in NA:
            na.append({"property_id": pid, "reason": NA[pid]})
            continue
        mod = None
        if os.path.exists(f) and pid in ready:
            try:
                mod = importlib.import_module("props." + pid.lower())
            except Exception as e:
                print("cannot import", pid, e)
                mod = None
        if mod is None or not getattr(mod, "READY", True):
            na.append({"property_id": pid, "reason": not_built.get(pid, "Claimed in DESIGN.md section 6 but its simulation check is not built yet; not claimed until its determinism and sensitivity self-tests pass.")})
            continue
        checks.append({
            "property_id": pid,
            "quick_cmd": "./check %s quick" % pid,
            "thorough_cmd": "./check %s thorough" % pid,
            "evidence_file": "/verif/evidence/%s.json" % pid,
            "replay_cmd_template": "./check %s --replay {path}" % pid,
            "engine": getattr(mod, "ENGINE", "detsim"),
            "level_claimed": {
                "category": getattr(mod, "LEVEL", "exploration"),
                "text": getattr(mod, "LEVEL_TEXT", "Seeded search over simulated schedules and faults against an executable reference model; a clean batch is evidence over the explored runs, not proof."),
                "design_ref": "DESIGN.md section 6, %s" % pid,
            },
            "level_note": getattr(mod, "LEVEL_NOTE", "Trusted: the reference model/oracle in props/%s.py and the simulator core (detsim/); real Twisted code runs above the seams listed in the evidence file's components." % pid.lower()),
            "technique": getattr(mod, "TECHNIQUE", "deterministic simulation with fault injection (seeded schedule/fault search)"),
        })
    engines = {}
    for c in checks:
        engines.setdefault(c["engine"], []).append(c["property_id"])
    manifest = {
        "version": 1,
        "setup_cmd": "./setup.sh",
        "hooks": {
            "guard": "TWISTED_VERIF_SIM",
            "enable": "No source hooks exist: every seam is reached from /verif by constructor injection or by rebinding module-level names at run time (DESIGN.md section 2.4). The variable is reserved; ./check removes it from the environment.",
            "baseline_off_cmd": "cd /repo && env -u TWISTED_VERIF_SIM /venv/bin/python -m pytest -ra -q -p no:cacheprovider --timeout=900 --continue-on-collection-errors",
            "source_commits": [],
            "add_only": True,
        },
        "engines": [{"name": k, "path": "detsim/ + props/", "serves_properties": v,
                     "kind_free_text": "deterministic simulator: choice tape + discrete-event clock + seeded search (see DESIGN.md section 2)"} for k, v in sorted(engines.items())],
        "checks": checks,
        "notes": "All checks: ./check CNN quick|thorough, replay with ./check CNN --replay FILE. Exit 2 = harness error (never a VIOLATION). Known findings: known_findings.json.",
        "not_applicable": na,
    }
    with open(os.path.join(VERIF, "MANIFEST.json"), "w") as f:
        json.dump(manifest, f, indent=1)
    print("checks:", len(checks), "not_applicable:", len(na))
    try:
        import jsonschema
        jsonschema.validate(manifest, json.load(open("/root/.vp/MANIFEST.schema.json")))
        print("manifest validates")
    except ImportError:
        pass


main()
