#!/venv/bin/python
"""Dev-time sensitivity tool: run a check against a scratch copy of /repo/src with
a mutation applied.  The copy lives under /tmp and is removed afterwards.

  tools/mutate.py CNN [tier] --sub FILE 'old' 'new' [--nth K] [--sub ...]
  tools/mutate.py CNN [tier] --patch PATCHFILE      (paths relative to repo root)

Exit code is the check's exit code (1 = mutant caught).
"""
import os, shutil, subprocess, sys, tempfile

VERIF = os.path.dirname(os.path.dirname(os.path.abspath(__file__)))


def main(argv):
    prop = argv[1]
    rest = argv[2:]
    tier = "quick"
    if rest and rest[0] in ("quick", "thorough"):
        tier = rest.pop(0)
    tmp = tempfile.mkdtemp(prefix="mut_", dir="/tmp")
    try:
        shutil.copytree("/repo/src", os.path.join(tmp, "src"), ignore=shutil.ignore_patterns("__pycache__", "*.pyc"))
        i = 0
        while i < len(rest):
            if rest[i] == "--sub":
                f, old, new = rest[i + 1:i + 4]
                i += 4
                nth = 0
                if i < len(rest) and rest[i] == "--nth":
                    nth = int(rest[i + 1]); i += 2
                path = os.path.join(tmp, f)
                s = open(path).read()
                cnt = s.count(old)
                if cnt == 0:
                    print("MUTATE: pattern not found in %s: %r" % (f, old)); return 3
                if cnt > 1 and nth == 0:
                    print("MUTATE: pattern occurs %d times in %s; use --nth" % (cnt, f)); return 3
                k = max(nth, 1)
                idx = -1
                for _ in range(k):
                    idx = s.index(old, idx + 1)
                s = s[:idx] + new + s[idx + len(old):]
                open(path, "w").write(s)
            elif rest[i] == "--patch":
                pf = os.path.abspath(rest[i + 1]); i += 2
                r = subprocess.run(["patch", "-p1", "-s", "-i", pf], cwd=tmp)
                if r.returncode:
                    print("MUTATE: patch failed"); return 3
            else:
                print("bad arg", rest[i]); return 3
        env = dict(os.environ, VERIF_REPO_SRC=os.path.join(tmp, "src"), VERIF_NO_EVIDENCE="1")
        r = subprocess.run([os.path.join(VERIF, "check"), prop, tier], env=env)
        return r.returncode
    finally:
        shutil.rmtree(tmp, ignore_errors=True)


if __name__ == "__main__":
    sys.exit(main(sys.argv))
