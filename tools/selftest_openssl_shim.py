#!/venv/bin/python
"""Self-test of the vendored pyOpenSSL shim (vendor/OpenSSL) against the call /
exception sequence pyOpenSSL documents for memory-BIO connections.

  tools/selftest_openssl_shim.py
Exit 0 = all expectations met; 2 = the shim does not behave like pyOpenSSL.
"""
import os
import sys

VERIF = os.path.dirname(os.path.dirname(os.path.abspath(__file__)))
sys.path.append(os.path.join(VERIF, "vendor"))  # after site-packages, like ./check

import OpenSSL  # noqa: E402
from OpenSSL import SSL, crypto  # noqa: E402

FIX = os.path.join(VERIF, "fixtures")
FAILS = []


def expect(name, cond, detail=""):
    if not cond:
        FAILS.append(name)
    print("%-4s %s%s" % ("ok" if cond else "FAIL", name, (" -- " + str(detail)) if (detail and not cond) else ""))


def raises(exc, f, *a):
    try:
        r = f(*a)
    except exc as e:
        return e
    except Exception as e:  # wrong type
        return ("wrong", e)
    return ("returned", r)


def contexts(version=None):
    cert = crypto.load_certificate(crypto.FILETYPE_PEM, open(os.path.join(FIX, "tls_server_cert.pem"), "rb").read())
    key = crypto.load_privatekey(crypto.FILETYPE_PEM, open(os.path.join(FIX, "tls_server_key.pem"), "rb").read())
    sctx = SSL.Context(SSL.TLS_METHOD)
    sctx.use_certificate(cert)
    sctx.use_privatekey(key)
    sctx.check_privatekey()
    cctx = SSL.Context(SSL.TLS_METHOD)
    if version is not None:
        for c in (sctx, cctx):
            c.set_min_proto_version(version)
            c.set_max_proto_version(version)
    return cctx, sctx


def pair(version=None):
    cctx, sctx = contexts(version)
    c = SSL.Connection(cctx, None)
    c.set_connect_state()
    s = SSL.Connection(sctx, None)
    s.set_accept_state()
    return c, s


def move(a, b, chunk=None):
    """Move everything a wants to send into b; returns number of bytes moved."""
    n = 0
    while True:
        try:
            data = a.bio_read(chunk or 2 ** 15)
        except SSL.WantReadError:
            return n
        n += len(data)
        if chunk == 1:
            for i in range(len(data)):
                b.bio_write(data[i:i + 1])
        else:
            b.bio_write(data)


def handshake(c, s, bytewise=False):
    done = {id(c): False, id(s): False}
    rounds = 0
    while not all(done.values()):
        rounds += 1
        assert rounds < 50, "handshake does not converge"
        for x, y in ((c, s), (s, c)):
            if not done[id(x)]:
                try:
                    x.do_handshake()
                    done[id(x)] = True
                except SSL.WantReadError:
                    pass
            move(x, y, 1 if bytewise else None)
    return rounds


def transfer(a, b, payload):
    sent = 0
    got = b""
    while sent < len(payload):
        n = a.send(payload[sent:sent + 2 ** 14])
        assert 0 < n <= 2 ** 14
        sent += n
        move(a, b)
        while True:
            try:
                got += b.recv(2 ** 15)
            except SSL.WantReadError:
                break
    return got


def scenario(version, name):
    print("--- %s" % name)
    c, s = pair(version)
    expect("hierarchy", all(issubclass(x, SSL.Error) for x in (SSL.WantReadError, SSL.WantWriteError, SSL.ZeroReturnError, SSL.SysCallError, SSL.WantX509LookupError)))
    expect("bio_read on empty BIO raises WantReadError", isinstance(raises(SSL.WantReadError, c.bio_read, 4096), SSL.WantReadError))
    expect("send before handshake raises WantReadError", isinstance(raises(SSL.WantReadError, c.send, b"early"), SSL.WantReadError))
    expect("client do_handshake first raises WantReadError", isinstance(raises(SSL.WantReadError, c.do_handshake), SSL.WantReadError))
    expect("server do_handshake with no input raises WantReadError", isinstance(raises(SSL.WantReadError, s.do_handshake), SSL.WantReadError))
    r = raises(SSL.Error, c.shutdown)
    expect("shutdown mid-handshake raises Error (not a Want*)", isinstance(r, SSL.Error) and not isinstance(r, (SSL.WantReadError, SSL.ZeroReturnError)) and isinstance(r.args[0], list) and r.args[0] and len(r.args[0][0]) == 3, r)
    handshake(c, s, bytewise=True)
    expect("handshake completes with 1-byte deliveries", True)
    expect("negotiated version", c.get_protocol_version_name() == s.get_protocol_version_name() == name, (c.get_protocol_version_name(), s.get_protocol_version_name()))
    expect("recv with nothing pending raises WantReadError", isinstance(raises(SSL.WantReadError, c.recv, 100), SSL.WantReadError))
    # the early client write was retried by nobody: send() before handshake does not queue
    p1 = bytes(range(256)) * 5 + b"x" * 120  # 1400 bytes
    expect("client->server 1400 bytes intact", transfer(c, s, p1) == p1)
    p2 = bytes(reversed(range(256))) * 200  # 51200 bytes: several records, partial writes
    expect("server->client 51200 bytes intact", transfer(s, c, p2) == p2)
    expect("send returns at most one record with ENABLE_PARTIAL_WRITE", c.send(b"z" * 40000) == 2 ** 14)
    move(c, s)
    expect("those 16384 bytes arrive", s.recv(2 ** 15) == b"z" * 2 ** 14)
    expect("get_shutdown initially 0", c.get_shutdown() == 0 and s.get_shutdown() == 0)
    # close_notify exchange, client first
    expect("first shutdown() returns False", c.shutdown() is False)
    expect("initiator state SENT_SHUTDOWN", c.get_shutdown() == SSL.SENT_SHUTDOWN)
    expect("close_notify produced bytes", move(c, s) > 0)
    expect("peer recv raises ZeroReturnError", isinstance(raises(SSL.ZeroReturnError, s.recv, 100), SSL.ZeroReturnError))
    expect("peer state RECEIVED_SHUTDOWN", s.get_shutdown() == SSL.RECEIVED_SHUTDOWN)
    expect("peer send still works after receiving close_notify (half-close)", s.send(b"late") == 4)
    move(s, c)
    expect("initiator still receives data after its own close_notify", c.recv(100) == b"late")
    expect("peer shutdown() returns True", s.shutdown() is True)
    expect("peer state both", s.get_shutdown() == SSL.SENT_SHUTDOWN | SSL.RECEIVED_SHUTDOWN)
    move(s, c)
    expect("initiator second shutdown() returns True", c.shutdown() is True)
    expect("initiator state both", c.get_shutdown() == SSL.SENT_SHUTDOWN | SSL.RECEIVED_SHUTDOWN)
    expect("recv after complete shutdown raises ZeroReturnError", isinstance(raises(SSL.ZeroReturnError, c.recv, 10), SSL.ZeroReturnError))
    r = raises(SSL.Error, c.send, b"after")
    expect("send after own shutdown raises Error", isinstance(r, SSL.Error) and not isinstance(r, SSL.WantReadError), r)

    # unexpected EOF (no close_notify): bio_shutdown + recv -> SysCallError(-1, 'Unexpected EOF')
    c, s = pair(version)
    handshake(c, s)
    c.bio_shutdown()
    r = raises(SSL.SysCallError, c.recv, 100)
    expect("EOF without close_notify raises SysCallError(-1, 'Unexpected EOF')", isinstance(r, SSL.SysCallError) and r.args == (-1, "Unexpected EOF"), r)

    # shutdown where the second shutdown() is called before the reply arrives
    c, s = pair(version)
    handshake(c, s)
    expect("shutdown #1 False", s.shutdown() is False)
    r = raises(SSL.Error, s.shutdown)
    expect("shutdown #2 before peer's reply: WantReadError (an Error) - no reply yet", isinstance(r, SSL.WantReadError) or r == ("returned", False), r)

    # garbage input -> Error carrying [(lib, func, reason)]
    c, s = pair(version)
    raises(SSL.WantReadError, s.do_handshake)
    s.bio_write(b"GET / HTTP/1.0\r\n\r\n")
    r = raises(SSL.Error, s.do_handshake)
    expect("garbage ClientHello raises Error([(lib, func, reason), ...])",
           isinstance(r, SSL.Error) and type(r) is SSL.Error and isinstance(r.args[0], list) and r.args[0] and all(len(t) == 3 and all(isinstance(x, str) for x in t) for t in r.args[0]), r)


def main():
    print("OpenSSL package: %s  shim=%s  libssl=%s" % (OpenSSL.__file__, getattr(OpenSSL, "__shim__", False), SSL.OpenSSL_version().decode()))
    scenario(None, "TLSv1.3")
    scenario(SSL.TLS1_2_VERSION, "TLSv1.2")
    # what twisted needs at import time
    import warnings

    warnings.simplefilter("ignore")
    sys.path.insert(0, os.environ.get("VERIF_REPO_SRC", "/repo/src"))
    try:
        from twisted.protocols import tls  # noqa: F401
        from twisted.internet import _sslverify

        expect("twisted.protocols.tls imports", True)
        expect("_sslverify.defaultCiphers expanded by the real library", len(_sslverify.defaultCiphers.selectCiphers(_sslverify.defaultCiphers._ciphers)) > 3)
    except Exception as e:
        expect("twisted.protocols.tls imports", False, repr(e))
    print("shim self-test: %s (%d failed)" % ("PASS" if not FAILS else "FAIL", len(FAILS)))
    return 0 if not FAILS else 2


if __name__ == "__main__":
    sys.exit(main())
