#!/bin/bash
# tools/seed_recheck.sh <seed-id> "<history note>"
# Re-runs the property's check against an already filed seeded change (after the check was strengthened) and
# updates seeded/<id>/meta.json: check_result + history.
id=$1; note=$2
cd /verif
prop=$(/venv/bin/python -c "import json;print(json.load(open('seeded/$id/meta.json'))['property'])")
out=$(tools/mutate.py $prop quick --patch seeded/$id/patch.diff 2>&1); rc=$?
caught="quick"
if [ $rc -ne 1 ]; then
  out=$(VERIF_BUDGET_S=${SEED_THOROUGH_S:-120} tools/mutate.py $prop thorough --patch seeded/$id/patch.diff 2>&1); rc=$?
  if [ $rc -eq 1 ]; then caught="thorough"; else caught="MISSED"; fi
fi
sigs=$(echo "$out" | grep "^violation:" | sed 's/^violation: //' | head -3 | tr '\n' ';')
/venv/bin/python - "$id" "$caught" "$sigs" "$note" <<'PY'
import json, sys
id, caught, sigs, note = sys.argv[1:]
p = "/verif/seeded/%s/meta.json" % id
m = json.load(open(p))
m["check_result"] = {"caught_by": caught, "signatures": [s for s in sigs.split(";") if s]}
if note:
    m["history"] = note
json.dump(m, open(p, "w"), indent=1)
print("RECHECK", id, "caught_by=" + caught, sigs)
PY
