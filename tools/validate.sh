#!/bin/sh
# validate MANIFEST.json and every evidence file against the schemas (tooling venv has jsonschema)
python3-vt - <<'PY'
import json, glob, jsonschema, sys
ok = True
m = json.load(open('/verif/MANIFEST.json'))
jsonschema.validate(m, json.load(open('/root/.vp/MANIFEST.schema.json')))
es = json.load(open('/root/.vp/EVIDENCE.schema.json'))
claimed = {c['property_id'] for c in m['checks']}
for f in sorted(glob.glob('/verif/evidence/*.json')):
    try:
        jsonschema.validate(json.load(open(f)), es)
    except Exception as e:
        ok = False; print('INVALID', f, str(e)[:300])
have = {f.split('/')[-1][:-5] for f in glob.glob('/verif/evidence/*.json')}
print('manifest ok; checks=%d na=%d; evidence files=%d; claimed without evidence: %s' % (len(m['checks']), len(m.get('not_applicable', [])), len(have), sorted(claimed - have)))
sys.exit(0 if ok else 1)
PY
