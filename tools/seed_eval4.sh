#!/bin/bash
# tools/seed_eval4.sh <seed-id> <worktree> <property> <dir with patch.diff demo.py notes.md> "<test files...>"
# Round-4 adversaries deliver their changes as directories; apply one to the (clean) worktree and hand over to seed_eval.sh.
id=$1; wt=$2; prop=$3; src=$4; tests=$5
cd "$wt" || exit 3
git checkout -q -- src 2>/dev/null
if ! git apply "$src/patch.diff"; then echo "RESULT $id $prop patch does not apply"; exit 3; fi
cp "$src/demo.py" "$wt/demo.py"; cp "$src/notes.md" "$wt/notes.md" 2>/dev/null
/verif/tools/seed_eval.sh "$id" "$wt" "$prop" "$tests"
cd "$wt" && git checkout -q -- src; rm -f "$wt/demo.py" "$wt/notes.md"
