#!/venv/bin/python
"""Determinism self-test: the trace digest of run i must be a pure function of
(VERIF_SEED, property, i) and the code: same in a warm process in forward and
reverse order, in fresh interpreters, under PYTHONHASHSEED=0/1/random.

  tools/selftest_determinism.py CNN [count=200] [start=0]
Exit 0 = identical everywhere; 2 = divergence (harness bug, never a VIOLATION).
"""
import os, subprocess, sys
from concurrent.futures import ThreadPoolExecutor

VERIF = os.path.dirname(os.path.dirname(os.path.abspath(__file__)))


def digests(prop, start, count, hashseed, reverse=False, chunk=None):
    env = dict(os.environ, PYTHONHASHSEED=str(hashseed))
    cmd = [os.path.join(VERIF, "check"), prop, "--digests", str(start), str(count)]
    if reverse:
        cmd.append("--reverse")
    p = subprocess.run(cmd, env=env, capture_output=True, text=True, timeout=1800)
    if p.returncode != 0:
        raise RuntimeError("digest run failed: %s\n%s" % (p.stdout[-2000:], p.stderr[-2000:]))
    return [l for l in p.stdout.splitlines() if l and l[0].isdigit()]


def main(argv):
    prop = argv[1]
    count = int(argv[2]) if len(argv) > 2 else 200
    start = int(argv[3]) if len(argv) > 3 else 0
    jobs = [
        ("hash0 forward", (prop, start, count, 0, False)),
        ("hash0 reverse (warm-state independence)", (prop, start, count, 0, True)),
        ("hash1 forward", (prop, start, count, 1, False)),
        ("hash12345 reverse", (prop, start, count, 12345, True)),
    ]
    # fresh interpreter per small chunk (cold) for the first 16 indices
    for k in range(min(8, count)):
        jobs.append(("cold single %d" % (start + k), (prop, start + k, 1, 0, False)))
    with ThreadPoolExecutor(max_workers=8) as ex:
        results = list(ex.map(lambda j: digests(*j[1]), jobs))
    ref = results[0]
    ok = True
    for (name, _), res in zip(jobs[1:4], results[1:4]):
        if res != ref:
            ok = False
            diff = [(a, b) for a, b in zip(ref, res) if a != b][:5]
            print("DIVERGENCE %s vs hash0 forward: %s" % (name, diff))
    for k, res in enumerate(results[4:]):
        if res != ref[k:k + 1]:
            ok = False
            print("DIVERGENCE cold single %d: %s vs %s" % (k, res, ref[k:k + 1]))
    nv = sum(1 for l in ref if not l.endswith(" -"))
    print("determinism %s: %d runs x 4 configurations + 8 cold runs: %s (runs with violation: %d)"
          % (prop, count, "IDENTICAL" if ok else "DIVERGED", nv))
    return 0 if ok else 2


if __name__ == "__main__":
    sys.exit(main(sys.argv))
