#!/bin/sh
# run every claimed check in the given tier (default quick), sequentially; print rc and wall per property
tier=${1:-quick}
cd "$(dirname "$0")/.."
for p in $(cat tools/ready.txt); do
  s=$(date +%s.%N)
  out=$(timeout 1800 ./check $p $tier 2>&1); rc=$?
  e=$(date +%s.%N)
  printf "%s rc=%s wall=%.1fs %s\n" "$p" "$rc" "$(echo "$e - $s" | bc)" "$(echo "$out" | grep -E 'VIOLATION|HARNESS|KNOWN-FINDING' | head -2 | cut -c1-160)"
done
