#!/bin/sh
# Offline setup: nothing to build (pure Python, /venv already has Twisted in
# editable mode from /repo/src).  Verify the interpreter and imports only.
set -e
cd "$(dirname "$0")"
/venv/bin/python -c "import sys; sys.path.insert(0,'/repo/src'); import twisted, zope.interface, hashlib; print('setup ok: twisted', twisted.__version__)"
mkdir -p evidence replays
