"""Reference model of one-shot timers (DESIGN.md Appendix A.3), shared by C08
(reactor timed calls) and C09 (task.Clock).  Pure Python, no Twisted import.

The model is written from the IReactorTime / IDelayedCall documentation and the
property statements, not from the heap/sort code:

* ``callLater(d)`` schedules at ``now + d``; ``reset(d)`` reschedules to
  ``now + d``; ``delay(d)`` moves the scheduled time by ``d`` (either sign);
  ``cancel`` removes.  Any of the three on a call that already ran raises
  AlreadyCalled, on a cancelled call AlreadyCancelled.
* A *pass* is one reactor iteration (mode "reactor": the clock is moved by the
  caller beforehand and stands still during the pass) or one ``Clock.advance``
  (mode "clock": the clock moves to the target first, then calls run).

The model does not decide *which* call runs next; the scenario reports every
call the implementation runs (``ran``) and the end of each pass (``end_pass``),
and the model answers with the list of statement clauses that were broken.
Times must be dyadic rationals so that float arithmetic is exact.
"""

PENDING, RAN, CANCELLED = "pending", "ran", "cancelled"


class _Call:
    __slots__ = ("cid", "t", "state", "seq", "born", "touched", "rescheduled", "backdated")

    def __init__(self, cid, t, seq, born):
        self.cid = cid
        self.t = t
        self.state = PENDING
        self.seq = seq
        self.born = born          # pass number it was created in (0 = outside any pass)
        self.touched = 0          # pass number of the last reset/delay issued inside a pass
        self.rescheduled = False  # ever reset/delayed
        self.backdated = False    # moved, during the current pass, to before a call that already ran in it


class TimerModel:
    def __init__(self, mode, start=0.0):
        assert mode in ("reactor", "clock")
        self.mode = mode
        self.now = start
        self.calls = {}
        self.seq = 0
        self.pass_no = 0
        self.in_pass = False
        self.T = None
        self.last_t = None   # scheduled time of the previous call run in this pass
        self.ran_log = []    # (cid, time it ran at)
        self.nest = 0        # advances in progress that were issued from inside a running call (optional family, see begin_nested)

    # ------------------------------------------------------------ operations
    def create(self, cid, delay):
        assert delay >= 0
        self.seq += 1
        self.calls[cid] = _Call(cid, self.now + delay, self.seq, self.pass_no if self.in_pass else 0)
        return self.calls[cid].t

    def _dead(self, c):
        if c.state == CANCELLED:
            return "AlreadyCancelled"
        if c.state == RAN:
            return "AlreadyCalled"
        return None

    def _touch(self, c):
        c.rescheduled = True
        if self.in_pass:
            c.touched = self.pass_no
            if self.last_t is not None and c.t < self.last_t:
                c.backdated = True

    def cancel(self, cid):
        c = self.calls[cid]
        err = self._dead(c)
        if err:
            return err
        c.state = CANCELLED
        return "ok"

    def reset(self, cid, seconds_from_now):
        c = self.calls[cid]
        err = self._dead(c)
        if err:
            return err
        c.t = self.now + seconds_from_now
        self._touch(c)
        return "ok"

    def delay(self, cid, seconds_later):
        c = self.calls[cid]
        err = self._dead(c)
        if err:
            return err
        c.t = c.t + seconds_later
        self._touch(c)
        return "ok"

    # ------------------------------------------------------------ queries
    def pending_ids(self):
        return sorted(cid for cid, c in self.calls.items() if c.state == PENDING)

    def state_of(self, cid):
        return self.calls[cid].state

    def time_of(self, cid):
        return self.calls[cid].t

    def earliest(self):
        ts = [c.t for c in self.calls.values() if c.state == PENDING]
        return min(ts) if ts else None

    def sleep_bound(self):
        """Longest permitted sleep: None if nothing is pending (no constraint),
        else time until the earliest pending call, floored at 0."""
        e = self.earliest()
        if e is None:
            return None
        return max(0.0, e - self.now)

    # ------------------------------------------------------------ passes
    def move_clock(self, amount):
        """mode "reactor": the caller advances the clock between passes."""
        assert not self.in_pass and amount >= 0
        self.now += amount

    def begin_pass(self, amount=0.0):
        assert not self.in_pass
        if self.mode == "clock":
            assert amount >= 0
            self.now += amount
        self.pass_no += 1
        self.in_pass = True
        self.T = self.now
        self.nest = 0
        self.last_t = None
        for c in self.calls.values():
            c.backdated = False

    def ran(self, cid):
        """The implementation is running call `cid` now.  Returns the list of
        (clause, detail) broken; marks the call as run."""
        bad = []
        c = self.calls.get(cid)
        if c is None:
            return [("unknown-call", "call %r was never scheduled" % (cid,))]
        if not self.in_pass:
            bad.append(("runs-only-in-pass", "call %s ran outside an iteration/advance" % cid))
        if c.state == RAN:
            bad.append(("runs-once", "call %s ran a second time" % cid))
        elif c.state == CANCELLED:
            bad.append(("cancelled-never-runs", "cancelled call %s ran" % cid))
        if c.t > self.now:
            bad.append(("not-before-time", "call %s scheduled for %r ran at %r" % (cid, c.t, self.now)))
        if self.mode == "reactor" and self.in_pass and c.born == self.pass_no:
            bad.append(("not-in-birth-iteration", "call %s was scheduled during iteration %d and ran in it" % (cid, self.pass_no)))
        for o in self.calls.values():
            if o is c or o.state != PENDING:
                continue
            if self.mode == "reactor" and o.born == self.pass_no and self.in_pass:
                continue  # cannot run in this iteration, so it cannot be required to go first
            if o.t < c.t:
                bad.append(("earliest-first", "call %s (t=%r) ran while call %s (t=%r) was pending" % (cid, c.t, o.cid, o.t)))
                break
            if (self.mode == "clock" and o.t == c.t and o.seq < c.seq and not o.rescheduled and not c.rescheduled):
                bad.append(("same-time-creation-order", "call %s ran before earlier-created call %s, both at t=%r, neither rescheduled"
                            % (cid, o.cid, c.t)))
                break
        if self.mode == "clock" and self.last_t is not None and c.t < self.last_t and not c.backdated:
            bad.append(("nondecreasing-time", "call %s (t=%r) ran after a call scheduled at %r" % (cid, c.t, self.last_t)))
        c.state = RAN
        self.last_t = c.t
        self.ran_log.append((cid, self.now))
        return bad

    def end_pass(self):
        """Returns the (clause, detail) list for calls that had to run in the pass
        that just ended and did not."""
        assert self.in_pass
        bad = []
        for c in sorted(self.calls.values(), key=lambda c: c.seq):
            if c.state != PENDING or c.t > self.T:
                continue
            if self.mode == "clock":
                bad.append(("runs-in-first-advance", "advance reached %r but call %s (t=%r) did not run" % (self.T, c.cid, c.t)))
                break
            # reactor: a call created or rescheduled during this iteration may wait for the next one
            if c.born < self.pass_no and c.touched < self.pass_no:
                bad.append(("runs-in-first-iteration", "iteration %d started at %r but call %s (t=%r) did not run"
                            % (self.pass_no, self.T, c.cid, c.t)))
                break
        self.in_pass = False
        return bad

    def abort_pass(self):
        """The pass was cut short by an exception that left a running call and reached
        the caller of the pass (task.Clock has no error handler: a failing call's
        exception leaves advance()).  The statements say nothing about the calls that
        were due and had not run yet: no verdict for this pass.  They are still
        pending, so the next pass that completes has to run them."""
        assert self.in_pass
        self.in_pass = False
        self.nest = 0

    # ------------------------------------------------------------ advances from inside a running call (optional)
    # Mode "clock" only; nothing uses these unless a scenario switches the family on.  A running call may itself call
    # advance(amount) ("this callable took that long"): the clock moves on while the outer advance is still in progress.
    # Every advance, at whatever depth, that returns normally has run each call whose time the clock had reached by then
    # (end_nested); so does the outermost one (end_pass compares with the time the clock stands at, self.T follows it).
    def begin_nested(self, amount):
        assert self.mode == "clock" and self.in_pass and amount >= 0
        self.now += amount
        self.T = self.now
        self.nest += 1

    def end_nested(self):
        """The advance issued from inside a running call returned normally."""
        assert self.in_pass and self.nest > 0
        self.nest -= 1
        for c in sorted(self.calls.values(), key=lambda c: c.seq):
            if c.state == PENDING and c.t <= self.now:
                return [("runs-in-first-advance", "advance from inside a running call reached %r but call %s (t=%r) did not run"
                         % (self.now, c.cid, c.t))]
        return []

    def abort_nested(self):
        """An exception cut that advance short (see abort_pass): no verdict for it; the enclosing advance is still in
        progress and, if it returns normally, has to have run whatever was left."""
        assert self.in_pass and self.nest > 0
        self.nest -= 1

    def unfinished(self):
        return [c.cid for c in self.calls.values() if c.state == PENDING]
