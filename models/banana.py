"""Banana reference helpers (no Twisted import), from the Banana specification
(twisted docs, "Banana Protocol Specifications"): every element is a base-128
little-endian prefix (bytes < 0x80) followed by a type byte >= 0x80:
0x80 LIST (prefix = number of elements), 0x81 INT, 0x82 STRING (prefix = length,
followed by the bytes), 0x83 NEG, 0x84 FLOAT (no prefix; 8 bytes big-endian
IEEE 754), 0x85 LONGINT, 0x86 LONGNEG, 0x87 VOCAB (pb profile).
"""
import struct

LIST, INT, STRING, NEG, FLOAT, LONGINT, LONGNEG, VOCAB = (bytes([0x80 + i]) for i in range(8))
SIZE_LIMIT = 640 * 1024


def b128(n):
    assert n >= 0
    if n == 0:
        return b"\x00"
    out = bytearray()
    while n:
        out.append(n & 0x7F)
        n >>= 7
    return bytes(out)


def normalise(obj):
    """What the receiver must produce: tuples become lists."""
    if isinstance(obj, (list, tuple)):
        return [normalise(x) for x in obj]
    return obj


def same(a, b):
    """Equality with floats compared bit for bit and no int/bool/float mixing."""
    if isinstance(a, list) or isinstance(b, list):
        return isinstance(a, list) and isinstance(b, list) and len(a) == len(b) and all(same(x, y) for x, y in zip(a, b))
    if isinstance(a, float) or isinstance(b, float):
        return isinstance(a, float) and isinstance(b, float) and struct.pack("!d", a) == struct.pack("!d", b)
    if type(a) is not type(b):
        return False
    return a == b


def prefix_digits(n):
    """Number of base-128 digits of the prefix that carries the non-negative number n."""
    assert n >= 0
    return max(1, -(-n.bit_length() // 7))


def max_prefix(obj):
    """Longest prefix (in base-128 digits) of any element of the encoding of obj:
    integers carry their magnitude, strings and lists their length, vocabulary
    words (pb profile) a one-digit index - never longer than the length prefix of
    the same word sent as a string -, floats none."""
    if isinstance(obj, (list, tuple)):
        return max([prefix_digits(len(obj))] + [max_prefix(x) for x in obj])
    if isinstance(obj, float):
        return 0
    if isinstance(obj, int):
        return prefix_digits(abs(obj))
    return prefix_digits(len(obj))


class Item:
    """One top-level element of a stream as the reference decoder sees it: `need` =
    its longest prefix, `over` = it announces a list/string length above SIZE_LIMIT,
    `value` = what the receiver must produce once the item is accepted (INCOMPLETE:
    the stream ends inside it, nothing may be produced; UNSPECIFIED: within the
    limits, but neither acceptance nor refusal is prescribed - no verdict from there on)."""

    def __init__(self, kind, need, value, over=False):
        self.kind, self.need, self.value, self.over = kind, need, value, over


INCOMPLETE = Item  # sentinel (never equal to a decoded value)
UNSPECIFIED = object()  # sentinel: a well-delimited element within the limits whose acceptance the statement does not settle


def judge(items, limit, new_limit=None, after_index=None, unsure_index=None, refused_at=None):
    """Reference decoder at item level, with a prefix limit that changes once.

    The decoder starts with `limit`.  after_index=k: the limit became new_limit
    when the receiver was handed item k (every element of items 0..k was judged by
    the old limit, everything after it by the new one).  unsure_index=c: the limit
    was changed at a moment when items 0..c-1 had been handed over and item c had
    not: item c may have been partly judged by either limit - if its longest
    prefix lies between the two limits there is no verdict on it and the observed
    outcome is followed (refused_at = index of the item at which the real decoder
    raised, or None); items after c are judged by the new limit.

    Returns (expected values, refused item or None, no_verdict_used); the refused
    "item" is UNSPECIFIED when the verdict ends at an item of that kind.
    """
    cur = limit
    expected = []
    unsure = False
    for i, it in enumerate(items):
        if unsure_index is not None and i == unsure_index:
            lo, hi = min(limit, new_limit), max(limit, new_limit)
            cur = new_limit
            if it.over or it.need > hi:
                return expected, it, unsure
            if it.need > lo:
                unsure = True
                if refused_at == i:
                    return expected, it, unsure
        elif it.over or it.need > cur:
            return expected, it, unsure
        if it.value is INCOMPLETE:
            return expected, None, unsure
        if it.value is UNSPECIFIED:
            return expected, UNSPECIFIED, unsure
        expected.append(it.value)
        if after_index is not None and i == after_index:
            cur = new_limit
    return expected, None, unsure


def within_limits(obj, prefix_limit):
    """True iff every integer fits a prefix of prefix_limit base-128 digits and
    every string / list is at most SIZE_LIMIT long."""
    if isinstance(obj, (list, tuple)):
        return len(obj) <= SIZE_LIMIT and all(within_limits(x, prefix_limit) for x in obj)
    if isinstance(obj, bool):
        return False
    if isinstance(obj, int):
        return abs(obj) < 2 ** (7 * prefix_limit)
    if isinstance(obj, bytes):
        return len(obj) <= SIZE_LIMIT
    return isinstance(obj, float)


def token_ends(wire):
    """Reference tokenizer (no limits applied): the stream offsets at which a complete element ends - a prefix plus its
    type byte (list headers, integers, vocabulary indices), a string with all its bytes, a float with its 8 bytes.  It
    stops at the first element the stream does not complete; every offset that is not returned (and not 0) lies inside
    an element."""
    out = []
    pos, n = 0, len(wire)
    while pos < n:
        p = pos
        while p < n and wire[p] < 0x80:
            p += 1
        if p == n:
            break
        t = wire[p:p + 1]
        p += 1
        if t == STRING:
            p += sum(d << (7 * i) for i, d in enumerate(wire[pos:p - 1]))
        elif t == FLOAT:
            p += 8
        if p > n:
            break
        out.append(p)
        pos = p
    return out
