"""Banana reference helpers (no Twisted import), from the Banana specification
(twisted docs, "Banana Protocol Specifications"): every element is a base-128
little-endian prefix (bytes < 0x80) followed by a type byte >= 0x80:
0x80 LIST (prefix = number of elements), 0x81 INT, 0x82 STRING (prefix = length,
followed by the bytes), 0x83 NEG, 0x84 FLOAT (no prefix; 8 bytes big-endian
IEEE 754), 0x85 LONGINT, 0x86 LONGNEG, 0x87 VOCAB (pb profile).
"""
import struct

LIST, INT, STRING, NEG, FLOAT, LONGINT, LONGNEG, VOCAB = (bytes([0x80 + i]) for i in range(8))
SIZE_LIMIT = 640 * 1024


def b128(n):
    assert n >= 0
    if n == 0:
        return b"\x00"
    out = bytearray()
    while n:
        out.append(n & 0x7F)
        n >>= 7
    return bytes(out)


def normalise(obj):
    """What the receiver must produce: tuples become lists."""
    if isinstance(obj, (list, tuple)):
        return [normalise(x) for x in obj]
    return obj


def same(a, b):
    """Equality with floats compared bit for bit and no int/bool/float mixing."""
    if isinstance(a, list) or isinstance(b, list):
        return isinstance(a, list) and isinstance(b, list) and len(a) == len(b) and all(same(x, y) for x, y in zip(a, b))
    if isinstance(a, float) or isinstance(b, float):
        return isinstance(a, float) and isinstance(b, float) and struct.pack("!d", a) == struct.pack("!d", b)
    if type(a) is not type(b):
        return False
    return a == b


def within_limits(obj, prefix_limit):
    """True iff every integer fits a prefix of prefix_limit base-128 digits and
    every string / list is at most SIZE_LIMIT long."""
    if isinstance(obj, (list, tuple)):
        return len(obj) <= SIZE_LIMIT and all(within_limits(x, prefix_limit) for x in obj)
    if isinstance(obj, bool):
        return False
    if isinstance(obj, int):
        return abs(obj) < 2 ** (7 * prefix_limit)
    if isinstance(obj, bytes):
        return len(obj) <= SIZE_LIMIT
    return isinstance(obj, float)
