"""PROXY protocol (v1 text, v2 binary) header builder, written from the protocol
specification (haproxy doc/proxy-protocol.txt); no Twisted import.

A header description is a dict:
  {"v": 1, "proto": "TCP4"|"TCP6"|"UNKNOWN", "src": str, "dst": str, "sport": int, "dport": int, "junk": bytes}
  {"v": 2, "cmd": 0|1, "fam": 0..3, "tp": 0..2, "src": packed, "dst": packed, "sport": int, "dport": int,
   "tlvs": [(type, bytes)...], "pad": bytes}
`build(desc)` returns the header bytes; `addresses(desc)` returns what a receiver
must report: None (use the real connection's endpoints: UNKNOWN, LOCAL, UNSPEC)
or ("inet"|"inet6", src_packed, sport, dst_packed, dport) / ("unix", src_path, dst_path).
"""
import ipaddress
import struct

V2_SIGNATURE = b"\r\n\r\n\x00\r\nQUIT\n"
V1_MAX = 107          # longest v1 line including CRLF


def build(desc):
    if desc["v"] == 1:
        if desc["proto"] == "UNKNOWN":
            return b"PROXY UNKNOWN" + desc.get("junk", b"") + b"\r\n"
        return ("PROXY %s %s %s %d %d\r\n" % (desc["proto"], desc["src"], desc["dst"], desc["sport"], desc["dport"])).encode("ascii")
    fam, tp = desc["fam"], desc["tp"]
    if fam in (1, 2):
        block = desc["src"] + desc["dst"] + struct.pack("!HH", desc["sport"], desc["dport"])
    elif fam == 3:
        block = desc["src"].ljust(108, b"\x00") + desc["dst"].ljust(108, b"\x00")
    else:
        block = b""
    if desc.get("omit_block"):
        block = b""
    rest = block + b"".join(bytes([t]) + struct.pack("!H", len(v)) + v for t, v in desc.get("tlvs", ())) + desc.get("pad", b"")
    return V2_SIGNATURE + bytes([0x20 | desc["cmd"], (fam << 4) | tp]) + struct.pack("!H", len(rest)) + rest


def addresses(desc):
    if desc["v"] == 1:
        if desc["proto"] == "UNKNOWN":
            return None
        kind = "inet" if desc["proto"] == "TCP4" else "inet6"
        return (kind, ipaddress.ip_address(desc["src"]).packed, desc["sport"],
                ipaddress.ip_address(desc["dst"]).packed, desc["dport"])
    if desc["cmd"] == 0 or desc["fam"] == 0 or desc["tp"] == 0:
        return None
    if desc["fam"] == 3:
        return ("unix", desc["src"], desc["dst"])
    return ("inet" if desc["fam"] == 1 else "inet6", desc["src"], desc["sport"], desc["dst"], desc["dport"])


def min_first_segment(desc):
    """Not part of the protocol: the shortest first delivery that the known
    Twisted finding (version decided from the first delivery alone) tolerates."""
    return 8 if desc["v"] == 1 else 16
