"""Two independent views of a serialised markup fragment (no Twisted import).

  xml_view(data)   -- the fragment wrapped in a root element and parsed by expat (XML 1.0).
  html_view(text)  -- the fragment tokenised by the standard library html.parser.HTMLParser, with TWO
                      replacements.  First: where a comment ends is decided by the WHATWG tokenizer's comment
                      states (HTML Living Standard 13.2.5.43-52), because html.parser in this Python
                      ends a comment at the regular expression `--\\s*>` (it ends one at `-- >`, which
                      HTML5 does not, and it does not end one at `<!-->`, `<!--->` or `--!>`, which
                      HTML5 does).

                      Second: html.parser in this Python knows only `script` and `style` as
                      elements with text-only content and ends them at the regular expression
                      `</\\s*name\\s*>`.  Here the content of the RCDATA elements (title, textarea), the
                      RAWTEXT elements (style, xmp, iframe, noembed, noframes) and of script is delimited
                      by `html5_text_element_end` (WHATWG 13.2.5.2-4 and the script data / escaped /
                      double escaped states 13.2.5.15-31): no tag, comment or declaration is recognised
                      in it, character references are decoded only in RCDATA.

Both return a list of items

    ("T", text)                            character data (adjacent runs merged, empty runs dropped)
    ("C", data)                            a comment
    ("E", name, {attr: value}, children)   an element (start tag ... matching end tag, or an empty-element tag; in the
                                           HTML view `<x />` is an empty element only for HTML5 void elements)

or raise ViewError.  CDATA sections are character data in the XML view; the HTML view has no faithful
representation of them (in HTML content `<![CDATA[` starts a bogus comment that ends at the first `>`),
so callers must not use it for fragments containing CDATA sections.

`compare(expected, got, view, in_attr)` compares such a list with an *expected* list built from the
generated tree:

    ("T", text)              a text leaf
    ("D", text)              character data that is delimited in the document (one CDATA section, one character reference)
    ("C", data, exact)       exact=False: only "there is one comment node here" is demanded
    ("E", name, {attr: ("S", string) | ("M", expected-items)}, children)

("M", items) is an attribute whose value is itself markup (a tag, comment, CDATA section or character
reference serialised inside an attribute): the attribute's parsed value is parsed again as a fragment
with the same view and compared with `items`.

Element names are compared without regard to ASCII case in the HTML view (an HTML tokenizer lower-cases
tag names) and exactly in the XML view.

Text-only elements in the HTML view (HTML_TEXT_ELEMENTS): the element must come back with its own end tag
and with nothing but character data in it.  For title/textarea that data must be the expected text; for the
RAWTEXT elements and script an HTML tokenizer does not decode character references, so a serialiser cannot
both escape `<` and keep the text: the text is accepted when it equals the expected text either as it stands
or after decoding character references.  U+0000 is reported as U+FFFD in such content by an HTML tokenizer
(normalised on both sides).  When the expected content of such an element is not plain text (a tag, comment,
CDATA section or character reference was put into it) no verdict is given on its content; callers should not
use the HTML view for such trees at all (a comment inside a script element changes where the element ends).

What the views cannot represent is normalised away on BOTH sides, never demanded:
  * XML 1.0 end-of-line handling (2.11): CR LF and lone CR arrive as LF;
  * XML 1.0 attribute-value normalisation (3.3.3): TAB, LF, CR in an attribute value arrive as spaces
    (and so does everything nested inside a markup-valued attribute).
The HTML view reports the characters as they are.
"""
import re
from html import unescape as _unescape
from html.parser import HTMLParser
from xml.parsers import expat


class ViewError(Exception):
    pass


# --------------------------------------------------------------------------- characters XML 1.0 cannot carry

def xml_legal(s):
    """True iff every character of s matches the XML 1.0 `Char` production."""
    for ch in s:
        o = ord(ch)
        if o in (0x9, 0xA, 0xD) or 0x20 <= o <= 0xD7FF or 0xE000 <= o <= 0xFFFD or 0x10000 <= o <= 0x10FFFF:
            continue
        return False
    return True


def norm_xml_text(s):
    return s.replace("\r\n", "\n").replace("\r", "\n")


def norm_xml_attr(s):
    return norm_xml_text(s).replace("\n", " ").replace("\t", " ")


# --------------------------------------------------------------------------- merging

def merge(items):
    out = []
    for it in items:
        if it[0] == "T":
            if not it[1]:
                continue
            if out and out[-1][0] == "T":
                out[-1] = ("T", out[-1][1] + it[1])
                continue
        out.append(it)
    return out


# --------------------------------------------------------------------------- XML view

def xml_view(data):
    """data: bytes (UTF-8).  Returns the items inside the synthetic root."""
    p = expat.ParserCreate()
    p.buffer_text = True
    root = ("E", "r", {}, [])
    stack = [root]

    def start(name, attrs):
        el = ("E", name, dict(attrs), [])
        stack[-1][3].append(el)
        stack.append(el)

    def end(name):
        stack.pop()

    def chars(s):
        stack[-1][3].append(("T", s))

    def comment(s):
        stack[-1][3].append(("C", s))

    p.StartElementHandler = start
    p.EndElementHandler = end
    p.CharacterDataHandler = chars
    p.CommentHandler = comment
    try:
        p.Parse(b"<r>" + data + b"</r>", True)
    except expat.ExpatError as e:
        raise ViewError("not well-formed XML: %s" % (e,))
    if len(stack) != 1 or len(root[3]) != 1:
        raise ViewError("content closed the synthetic root element")
    return _merge_deep(root[3][0][3])


def _merge_deep(items):
    out = []
    for it in merge(items):
        if it[0] == "E":
            it = ("E", it[1], it[2], _merge_deep(it[3]))
        out.append(it)
    return out


# --------------------------------------------------------------------------- HTML view

def html5_comment_end(raw, i):
    """raw[i:] is what follows `<!--`.  Returns (comment data, index just after the comment) as the
    WHATWG tokenizer decides it (comment start / start dash / comment / less-than sign ... / end dash /
    end / end bang states; end of input emits the comment)."""
    n = len(raw)
    data = []
    state = "start"
    while True:
        if i >= n:
            return "".join(data), n
        c = raw[i]
        if state == "start":
            if c == "-":
                state = "start-dash"
                i += 1
            elif c == ">":
                return "".join(data), i + 1            # abrupt closing of empty comment
            else:
                state = "comment"
        elif state == "start-dash":
            if c == "-":
                state = "end"
                i += 1
            elif c == ">":
                return "".join(data), i + 1            # abrupt closing of empty comment
            else:
                data.append("-")
                state = "comment"
        elif state == "comment":
            if c == "<":
                data.append(c)
                state = "lt"
                i += 1
            elif c == "-":
                state = "end-dash"
                i += 1
            else:
                data.append(c)
                i += 1
        elif state == "lt":
            if c == "!":
                data.append(c)
                state = "lt-bang"
                i += 1
            elif c == "<":
                data.append(c)
                i += 1
            else:
                state = "comment"
        elif state == "lt-bang":
            if c == "-":
                state = "lt-bang-dash"
                i += 1
            else:
                state = "comment"
        elif state == "lt-bang-dash":
            if c == "-":
                state = "lt-bang-dash-dash"
                i += 1
            else:
                state = "end-dash"
        elif state == "lt-bang-dash-dash":
            state = "end"                              # (nested-comment parse error unless `>`)
        elif state == "end-dash":
            if c == "-":
                state = "end"
                i += 1
            else:
                data.append("-")
                state = "comment"
        elif state == "end":
            if c == ">":
                return "".join(data), i + 1
            elif c == "!":
                state = "end-bang"
                i += 1
            elif c == "-":
                data.append("-")
                i += 1
            else:
                data.append("--")
                state = "comment"
        elif state == "end-bang":
            if c == "-":
                data.append("--!")
                state = "end-dash"
                i += 1
            elif c == ">":
                return "".join(data), i + 1            # incorrectly closed comment
            else:
                data.append("--!")
                state = "comment"


HTML_RCDATA = frozenset(["title", "textarea"])
HTML_RAWTEXT = frozenset(["style", "xmp", "iframe", "noembed", "noframes"])
HTML_SCRIPT = frozenset(["script"])
HTML_TEXT_ELEMENTS = HTML_RCDATA | HTML_RAWTEXT | HTML_SCRIPT
_TAG_END = "\t\n\f\r />"


def ascii_lower(s):
    return "".join(chr(ord(c) + 32) if "A" <= c <= "Z" else c for c in s)


def _alpha_run(raw, j):
    """Index just after the run of ASCII letters starting at raw[j]."""
    n = len(raw)
    while j < n and ("a" <= raw[j] <= "z" or "A" <= raw[j] <= "Z"):
        j += 1
    return j


def _is_end_tag(raw, j, name):
    """raw[j:] begins with an 'appropriate end tag' for `name`: `</name` followed by white space, `/` or `>`."""
    k = j + 2 + len(name)
    return raw.startswith("</", j) and ascii_lower(raw[j + 2:k]) == name and k < len(raw) and raw[k] in _TAG_END


def html5_text_element_end(raw, i, name):
    """raw[i:] is what follows the start tag of the RCDATA / RAWTEXT / script element `name` (lower case).  Returns
    the index of the `</` of the end tag that ends the element as the WHATWG tokenizer decides it, or -1 when the
    element is never ended.  RCDATA and RAWTEXT: the first appropriate end tag.  script: an appropriate end tag met
    in the script data or script data escaped states; `<!--` enters the escaped states, `<script` + delimiter inside
    them the double escaped states (left again by `</script` + delimiter), `-->` returns to script data."""
    n = len(raw)
    if name not in HTML_SCRIPT:
        j = raw.find("</", i)
        while j >= 0:
            if _is_end_tag(raw, j, name):
                return j
            j = raw.find("</", j + 2)
        return -1
    state = "data"
    j = i
    while j < n:
        c = raw[j]
        if state == "data":
            if c == "<":
                if _is_end_tag(raw, j, name):
                    return j
                if raw.startswith("<!--", j):
                    state = "esc--"
                    j += 4
                    continue
            j += 1
        elif state in ("esc", "esc-", "esc--"):
            if c == "-":
                state = {"esc": "esc-", "esc-": "esc--", "esc--": "esc--"}[state]
                j += 1
            elif c == "<":
                if _is_end_tag(raw, j, name):
                    return j
                k = _alpha_run(raw, j + 1)
                if k > j + 1 and k < n and raw[k] in _TAG_END:
                    state = "dbl" if ascii_lower(raw[j + 1:k]) == "script" else "esc"
                    j = k + 1
                else:
                    state = "esc"
                    j = max(k, j + 1)
            elif c == ">" and state == "esc--":
                state = "data"
                j += 1
            else:
                state = "esc"
                j += 1
        else:
            if c == "-":
                state = {"dbl": "dbl-", "dbl-": "dbl--", "dbl--": "dbl--"}[state]
                j += 1
            elif c == "<":
                if raw.startswith("/", j + 1):
                    k = _alpha_run(raw, j + 2)
                    if k < n and raw[k] in _TAG_END:
                        state = "esc" if ascii_lower(raw[j + 2:k]) == "script" else "dbl"
                        j = k + 1
                    else:
                        state = "dbl"
                        j = k
                else:
                    state = "dbl"
                    j += 1
            elif c == ">" and state == "dbl--":
                state = "data"
                j += 1
            else:
                state = "dbl"
                j += 1
    return -1


HTML5_VOID = frozenset(["area", "base", "br", "col", "embed", "hr", "img", "input", "link", "meta", "source", "track", "wbr"])


class _Tokens(HTMLParser):
    CDATA_CONTENT_ELEMENTS = ()        # text-only elements are delimited by html5_text_element_end (parse_starttag below)

    def __init__(self):
        HTMLParser.__init__(self, convert_charrefs=True)
        self.root = ("E", "r", {}, [])
        self.stack = [self.root]
        self.problem = None
        self.opened = None

    def parse_starttag(self, i):
        self.opened = None
        k = HTMLParser.parse_starttag(self, i)
        tag, self.opened = self.opened, None
        if k < 0 or tag not in HTML_TEXT_ELEMENTS:
            return k
        # the tokenizer is switched to the RCDATA / RAWTEXT / script data state: everything up to the element's end tag
        # is character data (the whole document is in rawdata: html_view feeds it in one piece)
        raw = self.rawdata
        e = html5_text_element_end(raw, k, tag)
        if e < 0:
            e = len(raw)                # never ended: html_view reports the open element
        body = raw[k:e]
        if body:
            self.handle_data(_unescape(body) if tag in HTML_RCDATA else body)
        return e

    def _attrs(self, attrs):
        d = {}
        for k, v in attrs:
            if k in d and self.problem is None:
                self.problem = "duplicate attribute %r" % (k,)
            d[k] = v
        return d

    def handle_starttag(self, tag, attrs):
        el = ("E", tag, self._attrs(attrs), [])
        self.stack[-1][3].append(el)
        self.stack.append(el)
        self.opened = tag

    def handle_startendtag(self, tag, attrs):
        # HTML5: the trailing solidus of a start tag is honoured only on void elements; on any other element it is a
        # parse error that is ignored, i.e. `<div />` OPENS a div.
        if tag in HTML5_VOID:
            self.stack[-1][3].append(("E", tag, self._attrs(attrs), []))
        else:
            self.handle_starttag(tag, attrs)

    def handle_endtag(self, tag):
        if len(self.stack) == 1 or self.stack[-1][1] != tag:
            if self.problem is None:
                self.problem = "end tag </%s> does not match the open element %r" % (tag, self.stack[-1][1] if len(self.stack) > 1 else None)
            return
        self.stack.pop()

    def handle_data(self, data):
        self.stack[-1][3].append(("T", data))

    def handle_comment(self, data):
        self.stack[-1][3].append(("C", data))

    def handle_decl(self, decl):
        if self.problem is None:
            self.problem = "a declaration appeared: %r" % (decl[:40],)

    def handle_pi(self, data):
        if self.problem is None:
            self.problem = "a processing instruction appeared: %r" % (data[:40],)

    def unknown_decl(self, data):
        if self.problem is None:
            self.problem = "a marked section appeared: %r" % (data[:40],)

    # where a comment ends: WHATWG rules instead of _markupbase's `--\s*>`
    def parse_comment(self, i, report=1):
        rawdata = self.rawdata
        if rawdata[i:i + 4] != "<!--":
            raise AssertionError("unexpected call to parse_comment()")
        data, j = html5_comment_end(rawdata, i + 4)
        if report:
            self.handle_comment(data)
        return j


def html_view(text):
    """text: str.  Returns the items of the fragment."""
    p = _Tokens()
    try:
        p.feed(text)
        p.close()
    except AssertionError as e:
        raise ViewError("html.parser gave up: %s" % (e,))
    if p.problem is not None:
        raise ViewError(p.problem)
    if len(p.stack) != 1:
        raise ViewError("element %r is never closed" % (p.stack[-1][1],))
    return _merge_deep(p.root[3])


# --------------------------------------------------------------------------- comparison

def _parse(view, s):
    if view == "xml":
        return xml_view(s.encode("utf-8"))
    return html_view(s)


def compare(expected, got, view, in_attr=False, path="/"):
    """Returns None when `got` (parser items) is what `expected` describes, else (kind, text) where
    kind is a short stable word and text a description."""
    if view == "xml":
        norm = norm_xml_attr if in_attr else norm_xml_text
    else:
        norm = lambda s: s
    # Normalisation units: text leaves that are adjacent in the serialised document are merged first (a CR and an LF
    # coming from two adjacent leaves are ONE line end for the parser); a "D" item (content of one CDATA section, one
    # character reference) is never adjacent to its neighbours in the document and is normalised on its own.
    exp = merge([("T", norm(e[1])) if e[0] in ("T", "D") else e for e in merge(expected)])
    if len(exp) != len(got):
        return ("shape", "%s: expected %d nodes %s, parsed %d nodes %s" % (path, len(exp), _kinds(exp), len(got), _kinds(got)))
    for idx, (e, g) in enumerate(zip(exp, got)):
        here = "%s%d" % (path, idx)
        if e[0] != g[0]:
            return ("shape", "%s: expected %s, parsed %s %r" % (here, e[0], g[0], g[1][:40] if isinstance(g[1], str) else g[1]))
        if e[0] == "T":
            if e[1] != g[1]:
                return ("text", "%s: expected text %r, parsed %r" % (here, e[1][:80], g[1][:80]))
        elif e[0] == "C":
            if e[2] and norm(e[1]) != g[1]:
                return ("comment", "%s: expected comment %r, parsed %r" % (here, e[1][:80], g[1][:80]))
        else:
            ename = ascii_lower(e[1]) if view == "html" else e[1]
            if ename != g[1]:
                return ("name", "%s: expected element %r, parsed %r" % (here, e[1], g[1]))
            if sorted(e[2]) != sorted(g[2]):
                return ("attrs", "%s<%s>: expected attributes %r, parsed %r" % (here, e[1], sorted(e[2]), sorted(g[2])))
            for k in sorted(e[2]):
                kind, val = e[2][k]
                gv = g[2][k]
                if gv is None:
                    return ("attr-value", "%s<%s %s>: attribute has no value" % (here, e[1], k))
                if kind == "S":
                    want = norm_xml_attr(val) if view == "xml" else val
                    if want != gv:
                        return ("attr-value", "%s<%s %s>: expected value %r, parsed %r" % (here, e[1], k, want[:80], gv[:80]))
                else:
                    try:
                        sub = _parse(view, gv)
                    except ViewError as err:
                        return ("attr-markup", "%s<%s %s>: value %r does not parse as a fragment: %s" % (here, e[1], k, gv[:80], err))
                    r = compare(val, sub, view, True, "%s@%s/" % (here, k))
                    if r is not None:
                        return r
            if view == "html" and ename in HTML_TEXT_ELEMENTS:
                r = _compare_text_element(ename, e[3], g[3], here)
            else:
                r = compare(e[3], g[3], view, in_attr, here + "/")
            if r is not None:
                return r
    return None


def _compare_text_element(name, expected, got, here):
    """HTML view of a text-only element (see the module docstring)."""
    exp = merge(expected)
    if any(e[0] != "T" for e in exp):
        return None            # markup was put into the element: no verdict on its content
    want = (exp[0][1] if exp else "").replace("\x00", "\ufffd")
    if len(got) > 1 or (got and got[0][0] != "T"):
        return ("shape", "%s<%s>: a text-only element came back with %s" % (here, name, _kinds(got)))
    have = (got[0][1] if got else "").replace("\x00", "\ufffd")
    if have == want or (name not in HTML_RCDATA and _unescape(have) == want):
        return None
    return ("text", "%s<%s>: expected text %r, parsed %r" % (here, name, want[:80], have[:80]))


def _kinds(items):
    return "[" + " ".join(i[0] if i[0] != "E" else "<%s>" % i[1] for i in items[:12]) + "]"
