"""Path containment and FTP reply framing, written from POSIX pathname resolution
(textual, no symlinks) and RFC 959 section 4.2; no Twisted import.

The containment oracle is purely textual, as the property statement puts symbolic
links aside: a filesystem name is *inside* a root iff, after making it absolute
and collapsing '.', '..' and repeated separators, it is the root itself or
starts with the root followed by a separator.  `root-sibling` therefore is
outside `root`.
"""
import os
import posixpath


def norm(p, cwd=None):
    """bytes/str/PathLike -> absolute, normalised str (no symlink resolution)."""
    p = os.fspath(p)
    if isinstance(p, bytes):
        p = os.fsdecode(p)
    if not p.startswith("/"):
        p = posixpath.join(cwd if cwd is not None else os.getcwd(), p)
    return posixpath.normpath(p)


def inside(root, p):
    """p (normalised absolute) is root or lies below it."""
    return p == root or p.startswith(root.rstrip("/") + "/")


def resolve_segments(root, segs):
    """Where a list of path segments, applied one after the other to `root` the
    way a naive file server would (join, then let the kernel interpret '..', '/'
    and absolute names), ends up.  Returns a normalised absolute str."""
    p = root
    for s in segs:
        if isinstance(s, bytes):
            s = os.fsdecode(s)
        p = posixpath.join(p, s)         # an absolute segment replaces everything before it
    return posixpath.normpath(p)


def walk(cwd, arg):
    """Client-side view of an FTP pathname: apply `arg` (str) to the virtual
    working directory `cwd` (list of names, [] = the root).
    Returns (segments, escaped): `escaped` is True when some '..' tried to climb
    above the virtual root (segments then holds the clamped result)."""
    segs = [] if arg.startswith("/") else list(cwd)
    escaped = False
    for s in arg.split("/"):
        if s in ("", "."):
            continue
        if s == "..":
            if segs:
                segs.pop()
            else:
                escaped = True
        else:
            segs.append(s)
    return segs, escaped


def relative_to(cwd, target):
    """A relative pathname (str) leading from directory `cwd` to `target` (both lists)."""
    k = 0
    while k < len(cwd) and k < len(target) and cwd[k] == target[k]:
        k += 1
    parts = [".."] * (len(cwd) - k) + list(target[k:])
    return "/".join(parts) if parts else "."


def split_replies(buf):
    """Split a server->client byte stream into complete reply lines.
    Returns (list of (code:int|None, final:bool, line:bytes), unconsumed tail).
    `final` is True for 'ddd<SP>...' lines (RFC 959: the last line of a reply)."""
    out = []
    while True:
        i = buf.find(b"\r\n")
        if i < 0:
            break
        line, buf = buf[:i], buf[i + 2:]
        code = None
        final = False
        if len(line) >= 3 and line[:3].isdigit():
            code = int(line[:3])
            final = len(line) == 3 or line[3:4] == b" "
        out.append((code, final, line))
    return out, buf
