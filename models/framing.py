"""Reference framers for C16 (no Twisted import).

Each function parses a COMPLETE byte stream (everything that will ever be
delivered) and returns the sequence of observable events the receiver must
produce up to and including its first close request, written from the protocol
descriptions:

* lines:       text up to (not including) the next occurrence of the delimiter;
* netstrings:  decimal length without leading zeros, ':', that many bytes, ',';
* intN:        N-byte big-endian length, then that many bytes.

Events: ("line", b) / ("string", b) / ("raw", b) / ("exceeded", ...) / ("close",).

`actions` maps the index k of the k-th delivered message to what the
application does inside that callback:
    ("pause",)      ask for a pause (does not change the event sequence)
    ("raw", n)      (lines only) treat the next n bytes as raw data, then go back
                    to line mode
    ("lose",)       request a close: nothing after it is compared
    ("maxlen", n)   set the receiver's MAX_LENGTH to n: the messages that FOLLOW
                    message k in the stream are judged against n
    ("delim", d)    (lines only) set the delimiter to d: the bytes that follow
                    message k's delimiter are split on d
    ("pauseresume",) pause and resume again before the callback returns, and
    ("feed",)       receive the next bytes of the stream from inside the callback
                    (synchronous pipe): neither changes the event sequence
(the message in whose callback the change is made has been framed completely,
so every later byte of the stream belongs to a later message and is framed with
the new values - whether it had already been delivered is a detail of the
segmentation, which must not show).

`state_out`, when given, is a dict that receives where the framing stopped:
"pos" (offset of the first byte not consumed by a complete message), "k"
(messages delivered), "maxlen" and "delim" (values in force there).

The second return value says what the statement leaves open at the END of the
stream (where a real connection would simply keep waiting for more bytes):
    "none"        nothing more may happen
    "may-exceed"  the unfinished message can no longer fit the limit: an
                  over-length notification + close is allowed but not required
    "may-close"   (netstrings) the last byte made the stream invalid: a close is
                  allowed but not required (nothing follows it that would force
                  the receiver to look at it again)
"""


def overlap(residue, delimiter):
    """Longest k < len(delimiter) such that residue ends with delimiter[:k]."""
    for k in range(min(len(delimiter) - 1, len(residue)), 0, -1):
        if residue.endswith(delimiter[:k]):
            return k
    return 0


def _note(state_out, pos, k, max_length, delimiter=b""):
    if state_out is not None:
        state_out.update(pos=pos, k=k, maxlen=max_length, delim=delimiter)


def frame_lines(stream, delimiter, max_length, actions=None, state_out=None):
    actions = actions or {}
    ev = []
    pos = 0
    k = 0
    n = len(stream)
    while True:
        _note(state_out, pos, k, max_length, delimiter)
        i = stream.find(delimiter, pos)
        if i < 0:
            residue = stream[pos:]
            if len(residue) - overlap(residue, delimiter) > max_length:
                return ev, "may-exceed"
            return ev, "none"
        line = stream[pos:i]
        pos = i + len(delimiter)
        if len(line) > max_length:
            ev.append(("exceeded",))
            ev.append(("close",))
            return ev, "none"
        ev.append(("line", line))
        act = actions.get(k, ("none",))
        k += 1
        if act[0] == "lose":
            ev.append(("close",))
            return ev, "none"
        if act[0] == "maxlen":
            max_length = act[1]
        elif act[0] == "delim":
            delimiter = act[1]
        if act[0] == "raw":
            raw = stream[pos:pos + act[1]]
            pos += len(raw)
            if raw:
                ev.append(("raw", raw))
            if len(raw) < act[1] or pos >= n:
                # still in raw mode, or back in line mode with nothing left
                _note(state_out, pos, k, max_length, delimiter)
                return ev, "none"


def frame_intn(stream, prefix_len, max_length, actions=None, state_out=None, decode=None):
    """decode: header bytes (prefix_len of them) -> length; default = unsigned big-endian integer."""
    actions = actions or {}
    ev = []
    pos = 0
    k = 0
    n = len(stream)
    _note(state_out, pos, k, max_length)
    while n - pos >= prefix_len:
        header = stream[pos:pos + prefix_len]
        length = decode(header) if decode is not None else int.from_bytes(header, "big")
        if length > max_length:
            ev.append(("exceeded", length))
            ev.append(("close",))
            return ev, "none"
        if n - pos - prefix_len < length:
            break
        start = pos + prefix_len
        ev.append(("string", stream[start:start + length]))
        pos = start + length
        act = actions.get(k, ("none",))
        k += 1
        if act[0] == "lose":
            ev.append(("close",))
            return ev, "none"
        if act[0] == "maxlen":
            max_length = act[1]
        _note(state_out, pos, k, max_length)
    return ev, "none"


_DIGITS = b"0123456789"


def frame_netstrings(stream, max_length, actions=None, state_out=None):
    actions = actions or {}
    ev = []
    pos = 0
    k = 0
    n = len(stream)
    _note(state_out, pos, k, max_length)

    def invalid(at):
        # `at` = index of the byte that makes the stream invalid
        if at >= n - 1:
            return ev, "may-close"
        ev.append(("close",))
        return ev, "none"

    while pos < n:
        j = pos
        value = 0
        while j < n and stream[j] in _DIGITS:
            if j == pos + 1 and stream[pos] == 0x30:
                return invalid(j)              # leading zero
            value = value * 10 + (stream[j] - 0x30)
            if value > max_length:
                return invalid(j)              # longer than allowed
            j += 1
        if j == n:
            return ev, "none"                  # length not finished yet
        if j == pos or stream[j] != 0x3A:
            return invalid(j)                  # no length / no colon
        start = j + 1
        end = start + value
        if end >= n:
            return ev, "none"                  # payload or comma not there yet
        if stream[end] != 0x2C:
            return invalid(end)
        ev.append(("string", stream[start:end]))
        pos = end + 1
        act = actions.get(k, ("none",))
        k += 1
        if act[0] == "lose":
            ev.append(("close",))
            return ev, "none"
        if act[0] == "maxlen":
            max_length = act[1]
        _note(state_out, pos, k, max_length)
    return ev, "none"


def coalesce_raw(events):
    """Adjacent raw events are one event (their chunking is delivery detail)."""
    out = []
    for e in events:
        if e[0] == "raw" and out and out[-1][0] == "raw":
            out[-1] = ("raw", out[-1][1] + e[1])
        elif e[0] == "raw" and not e[1]:
            continue
        else:
            out.append(e)
    return out


def upto_close(events):
    """Events up to and including the first close request."""
    out = []
    for e in events:
        out.append(e)
        if e[0] == "close":
            break
    return out
