"""Reference HTTP/1.1 message framing (RFC 9110 / RFC 9112), written from the
RFC text.  No Twisted import.  Two parsers:

* parse_requests(data)            strict server-side request-stream parser
* parse_responses(data, methods)  client-side response-stream parser (lenient on
                                  the bytes allowed inside reason / field values,
                                  strict on line structure and framing)

plus small helpers shared by the HTTP scenarios (value normalisation, chunk
encoding, HTTP-date formatting).
"""

CRLF = b"\r\n"
TCHAR = frozenset(b"!#$%&'*+-.^_`|~0123456789ABCDEFGHIJKLMNOPQRSTUVWXYZabcdefghijklmnopqrstuvwxyz")
HEXDIG = frozenset(b"0123456789abcdefABCDEF")
DIGIT = frozenset(b"0123456789")
NO_BODY_STATUS = (204, 304)


def is_token(b):
    return len(b) > 0 and all(c in TCHAR for c in b)


def norm_value(v):
    """Field value as a recipient sees it: every CR / LF (and NUL, which RFC 9110
    s.5.5 groups with them) may have been replaced by SP; runs of SP are not
    significant for the comparison; surrounding OWS is not part of the value."""
    out = bytearray()
    for c in v:
        if c in (13, 10):
            c = 32
        if c == 32 and out and out[-1] == 32:
            continue
        out.append(c)
    return bytes(out).strip(b" \t")


class Bad(Exception):
    """The message is invalid (a server answers 400 / a client gives up)."""


class Incomplete(Exception):
    """Ran out of bytes inside a message."""


class Msg:
    __slots__ = ("method", "target", "version", "code", "reason", "headers", "body", "framing", "trailers",
                 "start", "end", "interim", "complete")

    def __init__(self):
        self.method = self.target = self.version = self.code = self.reason = None
        self.headers = []      # [(lowercased name, value without surrounding OWS)]
        self.body = b""
        self.framing = "none"  # none | length | chunked | close
        self.trailers = []
        self.start = self.end = 0
        self.interim = []      # 1xx responses that preceded this one
        self.complete = True

    def get(self, name):
        return [v for (n, v) in self.headers if n == name]

    def key(self):
        return (self.method, self.target, self.version, header_map(self.headers), self.body)


def header_map(headers):
    """Order-insensitive between names, order-preserving within a name."""
    d = {}
    for n, v in headers:
        d.setdefault(n.lower(), []).append(v)
    return tuple(sorted(d.items(), key=lambda kv: kv[0]))


# ------------------------------------------------------------------ line level

def _line(data, pos):
    """Next CRLF-terminated line starting at pos -> (line, newpos)."""
    i = data.find(CRLF, pos)
    if i < 0:
        raise Incomplete()
    return data[pos:i], i + 2


def _header_block(data, pos, lenient_values):
    """field-line *( CRLF ) up to the empty line.  Returns (headers, newpos).
    obs-fold is joined with a single SP (RFC 9112 s.5.2 permits replacing it)."""
    raw = []
    while True:
        line, pos = _line(data, pos)
        if line == b"":
            break
        if line[:1] in (b" ", b"\t"):
            if not raw:
                raise Bad("whitespace before first field line")
            raw[-1] = raw[-1] + b" " + line.lstrip(b" \t")
            continue
        raw.append(line)
    headers = []
    for line in raw:
        name, sep, value = line.partition(b":")
        if not sep:
            raise Bad("field line without colon")
        if not is_token(name):
            raise Bad("invalid field name %r" % (name,))
        value = value.strip(b" \t")
        if not lenient_values:
            for c in value:
                if c in (0, 10, 13):
                    raise Bad("CR/LF/NUL in field value")
        else:
            if b"\n" in value or b"\r" in value:
                raise Bad("bare CR or LF inside a field line")
        headers.append((name.lower(), value))
    return headers, pos


def _chunked_body(data, pos):
    """chunked-body per RFC 9112 s.7.1 -> (body, trailers, newpos)."""
    body = bytearray()
    while True:
        line, pos = _line(data, pos)
        size, sep, ext = line.partition(b";")
        if not size or not all(c in HEXDIG for c in size):
            raise Bad("chunk-size %r" % (size,))
        for c in ext:
            if c < 32 and c != 9 or c == 127:
                raise Bad("control character in chunk extension")
        n = int(size, 16)
        if n == 0:
            break
        if len(data) - pos < n:
            raise Incomplete()
        body += data[pos:pos + n]
        pos += n
        if len(data) - pos < 2:
            raise Incomplete()
        if data[pos:pos + 2] != CRLF:
            raise Bad("chunk data not followed by CRLF")
        pos += 2
    trailers, pos = _header_block(data, pos, True)
    return bytes(body), trailers, pos


# ------------------------------------------------------------------ requests

def parse_request_line(line):
    parts = line.split(b" ")
    if len(parts) != 3:
        raise Bad("request-line is not method SP target SP version")
    method, target, version = parts
    if not is_token(method):
        raise Bad("method is not a token")
    if not target or any(c <= 32 or c >= 127 for c in target):
        raise Bad("request-target")
    if version not in (b"HTTP/1.0", b"HTTP/1.1"):
        raise Bad("HTTP-version")
    return method, target, version


def request_framing(version, headers):
    """RFC 9112 s.6.3 for requests -> ('none'|'length'|'chunked', length)."""
    te = [v for n, v in headers if n == b"transfer-encoding"]
    cl = [v for n, v in headers if n == b"content-length"]
    if te:
        if cl:
            raise Bad("both Transfer-Encoding and Content-Length")
        if len(te) != 1 or te[0].lower() != b"chunked":
            raise Bad("transfer coding other than a single final chunked")
        if version != b"HTTP/1.1":
            raise Bad("Transfer-Encoding in an HTTP/1.0 message")
        return "chunked", None
    if cl:
        if len(cl) != 1:
            raise Bad("repeated Content-Length")
        v = cl[0]
        if not v or not all(c in DIGIT for c in v):
            raise Bad("Content-Length is not 1*DIGIT")
        return "length", int(v)
    return "none", 0


def request_persistent(version, headers):
    opts = []
    for n, v in headers:
        if n == b"connection":
            opts += [t.strip(b" \t").lower() for t in v.split(b",")]
    if version == b"HTTP/1.1":
        return b"close" not in opts
    return False


def parse_requests(data, skip_blank=1):
    """-> (list of Msg, status) with status 'ok' | 'incomplete' | ('bad', why).
    Parsing stops after the first request that is not persistent (a server
    closes there)."""
    out = []
    pos = 0
    while pos < len(data):
        m = Msg()
        m.start = pos
        try:
            line, p = _line(data, pos)
            k = 0
            while line == b"" and k < skip_blank:
                line, p = _line(data, p)
                k += 1
            m.method, m.target, m.version = parse_request_line(line)
            m.headers, p = _header_block(data, p, False)
            m.framing, n = request_framing(m.version, m.headers)
            if m.framing == "length":
                if len(data) - p < n:
                    raise Incomplete()
                m.body = data[p:p + n]
                p += n
            elif m.framing == "chunked":
                m.body, m.trailers, p = _chunked_body(data, p)
        except Incomplete:
            return out, "incomplete"
        except Bad as e:
            return out, ("bad", str(e))
        m.end = pos = p
        out.append(m)
        if not request_persistent(m.version, m.headers):
            break
    return out, "ok"


# ------------------------------------------------------------------ responses

def parse_status_line(line):
    if len(line) < 12 or line[:7] not in (b"HTTP/1.") or line[7:8] not in (b"0", b"1") or line[8:9] != b" ":
        raise Bad("status-line version %r" % (line[:12],))
    code = line[9:12]
    if not all(c in DIGIT for c in code):
        raise Bad("status code %r" % (code,))
    rest = line[12:]
    if rest and rest[:1] != b" ":
        raise Bad("no SP after status code")
    reason = rest[1:]
    if b"\r" in reason or b"\n" in reason:
        raise Bad("bare CR or LF in status line")
    return line[:8], int(code), reason


def parse_responses(data, methods, eof=True):
    """Parse a server's output for the given request methods.
    -> (list of Msg, status, pos) ; status 'ok' | 'incomplete' | ('bad', why) |
    ('extra', n) when bytes remain after the last expected response."""
    out = []
    pos = 0
    for method in methods:
        if pos >= len(data):
            break
        m = Msg()
        m.start = pos
        try:
            while True:
                line, p = _line(data, pos)
                m.version, m.code, m.reason = parse_status_line(line)
                m.headers, p = _header_block(data, p, True)
                if 100 <= m.code < 200:
                    m.interim.append((m.code, m.reason, m.headers))
                    pos = p
                    continue
                break
            te = [v.lower() for v in m.get(b"transfer-encoding")]
            cl = m.get(b"content-length")
            if method == b"HEAD" or m.code in NO_BODY_STATUS:
                m.framing = "none"
            elif te:
                if te != [b"chunked"]:
                    raise Bad("response transfer coding %r" % (te,))
                m.framing = "chunked"
                m.body, m.trailers, p = _chunked_body(data, p)
            elif cl:
                if len(set(cl)) != 1 or not cl[0] or not all(c in DIGIT for c in cl[0]):
                    raise Bad("response Content-Length %r" % (cl,))
                n = int(cl[0])
                m.framing = "length"
                if len(data) - p < n:
                    raise Incomplete()
                m.body = data[p:p + n]
                p += n
            else:
                m.framing = "close"
                m.body = data[p:]
                p = len(data)
                m.complete = bool(eof)
        except Incomplete:
            return out, "incomplete", pos
        except Bad as e:
            return out, ("bad", str(e)), pos
        m.end = pos = p
        out.append(m)
    if pos < len(data):
        return out, ("extra", len(data) - pos), pos
    return out, "ok", pos


# ------------------------------------------------------------------ helpers

def chunk_encode(pieces, sizefmt=None, exts=None, trailers=()):
    out = bytearray()
    for i, p in enumerate(pieces):
        assert p
        size = (sizefmt[i] if sizefmt else b"%x") % len(p)
        out += size + (exts[i] if exts else b"") + CRLF + p + CRLF
    out += b"0" + CRLF
    for t in trailers:
        out += t + CRLF
    out += CRLF
    return bytes(out)


_WD = [b"Thu", b"Fri", b"Sat", b"Sun", b"Mon", b"Tue", b"Wed"]   # 1970-01-01 was a Thursday
_MON = [b"Jan", b"Feb", b"Mar", b"Apr", b"May", b"Jun", b"Jul", b"Aug", b"Sep", b"Oct", b"Nov", b"Dec"]


def http_date(secs):
    """IMF-fixdate of an integer number of seconds since the epoch (own
    civil-from-days arithmetic; independent of time.gmtime)."""
    secs = int(secs)
    days, rem = divmod(secs, 86400)
    hh, rem = divmod(rem, 3600)
    mm, ss = divmod(rem, 60)
    wd = _WD[days % 7]
    z = days + 719468
    era = z // 146097
    doe = z - era * 146097
    yoe = (doe - doe // 1460 + doe // 36524 - doe // 146096) // 365
    y = yoe + era * 400
    doy = doe - (365 * yoe + yoe // 4 - yoe // 100)
    mp = (5 * doy + 2) // 153
    d = doy - (153 * mp + 2) // 5 + 1
    mth = mp + 3 if mp < 10 else mp - 9
    if mth <= 2:
        y += 1
    return b"%s, %02d %s %04d %02d:%02d:%02d GMT" % (wd, d, _MON[mth - 1], y, hh, mm, ss)
