"""Reference ledger for SSH connection-protocol channels (RFC 4254 section 5).

Pure Python, no Twisted import.  It is fed the message log of a connection
pair (every message at the moment it is SENT and again when it is DELIVERED)
plus what each application wrote / asked to close, and keeps for every channel
direction X -> R:

  * the window R advertised            (initial size + every WINDOW_ADJUST R sent)
  * the window X can know about        (initial size + every WINDOW_ADJUST delivered to X)
  * bytes X sent / bytes delivered to R (normal and extended data share one window)
  * per stream (normal data, each extended data type) what the application
    wrote, what went onto the wire and what was delivered.

Oracle clauses raised through the `fail(clause, witness, detail)` callback:

  exceeds-max-packet   a data message longer than the receiver's maximum packet
  exceeds-window       a data message longer than the window known to the sender
  stream-order         bytes on the wire are not the next bytes the application wrote
  close-before-flush   CHANNEL_CLOSE sent while written bytes are still unsent
  receiver-overrun     delivered bytes exceed what the receiver advertised (cannot
                       happen for a sender that passed the checks above)
"""
import struct

MSG_CHANNEL_OPEN = 90
MSG_CHANNEL_OPEN_CONFIRMATION = 91
MSG_CHANNEL_OPEN_FAILURE = 92
MSG_CHANNEL_WINDOW_ADJUST = 93
MSG_CHANNEL_DATA = 94
MSG_CHANNEL_EXTENDED_DATA = 95
MSG_CHANNEL_EOF = 96
MSG_CHANNEL_CLOSE = 97

NAMES = {90: "OPEN", 91: "OPEN_CONFIRMATION", 92: "OPEN_FAILURE", 93: "WINDOW_ADJUST", 94: "DATA",
         95: "EXTENDED_DATA", 96: "EOF", 97: "CLOSE", 98: "REQUEST", 99: "SUCCESS", 100: "FAILURE",
         80: "GLOBAL_REQUEST", 81: "REQUEST_SUCCESS", 82: "REQUEST_FAILURE"}


def _string(buf, off):
    (n,) = struct.unpack(">L", buf[off:off + 4])
    return buf[off + 4:off + 4 + n], off + 4 + n


def parse(mtype, payload):
    """-> dict describing one connection-protocol message (independent of Twisted's parser)."""
    if mtype == MSG_CHANNEL_OPEN:
        name, off = _string(payload, 0)
        sender, window, maxpkt = struct.unpack(">3L", payload[off:off + 12])
        return {"t": "OPEN", "name": name, "sender": sender, "window": window, "maxpkt": maxpkt, "extra": payload[off + 12:]}
    if mtype == MSG_CHANNEL_OPEN_CONFIRMATION:
        rcpt, sender, window, maxpkt = struct.unpack(">4L", payload[:16])
        return {"t": "OPEN_CONFIRMATION", "rcpt": rcpt, "sender": sender, "window": window, "maxpkt": maxpkt}
    if mtype == MSG_CHANNEL_OPEN_FAILURE:
        (rcpt,) = struct.unpack(">L", payload[:4])
        return {"t": "OPEN_FAILURE", "rcpt": rcpt}
    if mtype == MSG_CHANNEL_WINDOW_ADJUST:
        rcpt, n = struct.unpack(">2L", payload[:8])
        return {"t": "WINDOW_ADJUST", "rcpt": rcpt, "n": n}
    if mtype == MSG_CHANNEL_DATA:
        (rcpt,) = struct.unpack(">L", payload[:4])
        data, end = _string(payload, 4)
        return {"t": "DATA", "rcpt": rcpt, "stream": "data", "data": data, "wellformed": end == len(payload)}
    if mtype == MSG_CHANNEL_EXTENDED_DATA:
        rcpt, code = struct.unpack(">2L", payload[:8])
        data, end = _string(payload, 8)
        return {"t": "EXTENDED_DATA", "rcpt": rcpt, "stream": "ext%d" % code, "data": data, "wellformed": end == len(payload)}
    if mtype == MSG_CHANNEL_EOF:
        (rcpt,) = struct.unpack(">L", payload[:4])
        return {"t": "EOF", "rcpt": rcpt}
    if mtype == MSG_CHANNEL_CLOSE:
        (rcpt,) = struct.unpack(">L", payload[:4])
        return {"t": "CLOSE", "rcpt": rcpt}
    return {"t": NAMES.get(mtype, "MSG%d" % mtype)}


class Half:
    """One direction of one channel: sender X -> receiver R."""

    def __init__(self, sender, receiver):
        self.sender, self.receiver = sender, receiver
        self.known = False          # R has advertised its window (OPEN / OPEN_CONFIRMATION sent)
        self.init = 0
        self.maxpkt = 0
        self.granted_sent = 0       # advertised by R so far
        self.granted_known = 0      # of that, what has reached X
        self.bytes_sent = 0
        self.bytes_delivered = 0
        self.written = {}           # stream -> bytearray, what X's application wrote
        self.sent = {}              # stream -> bytearray, what X put on the wire
        self.delivered = {}         # stream -> bytearray, what reached R's connection
        self.close_requested = False
        self.close_sent = False
        self.close_delivered = False
        self.adjusts_sent = 0
        self.written_total = 0
        self.sent_total = 0

    def window_known(self):
        return self.granted_known - self.bytes_sent

    def window_outstanding(self):
        """What R has advertised and not yet seen used."""
        return self.granted_sent - self.bytes_delivered

    def pending(self):
        return self.written_total - self.sent_total

    def pending_kinds(self):
        kinds = []
        for s in sorted(self.written):
            if len(self.written[s]) > len(self.sent.get(s, b"")):
                k = "data" if s == "data" else "ext"
                if k not in kinds:
                    kinds.append(k)
        return kinds

    def pending_streams(self):
        return [s for s in sorted(self.written) if len(self.written[s]) > len(self.sent.get(s, b""))]


class Pair:
    def __init__(self, opener, opener_id):
        self.opener = opener
        self.key = (opener, opener_id)
        self.ids = {opener: opener_id}
        peer = "B" if opener == "A" else "A"
        self.half = {opener: Half(opener, peer), peer: Half(peer, opener)}   # keyed by SENDER side
        self.confirmed = False
        self.confirm_delivered = False


def other(side):
    return "B" if side == "A" else "A"


class Ledger:
    def __init__(self, fail):
        self.fail = fail
        self.by_local = {}     # (side, local channel id) -> Pair
        self.pairs = []
        self.log = []          # (phase, side, abstract message) for details

    # ---- application side
    def pair_of(self, side, local_id):
        return self.by_local.get((side, local_id))

    def wrote(self, side, local_id, stream, data):
        h = self.by_local[(side, local_id)].half[side]
        h.written.setdefault(stream, bytearray()).extend(data)
        h.written_total += len(data)

    def close_requested(self, side, local_id):
        self.by_local[(side, local_id)].half[side].close_requested = True

    # ---- wire side
    def sent(self, side, mtype, payload, ctx=""):
        """A message leaves `side`.  Returns the parsed message."""
        m = parse(mtype, payload)
        t = m["t"]
        peer = other(side)
        if t == "OPEN":
            p = Pair(side, m["sender"])
            self.pairs.append(p)
            self.by_local[(side, m["sender"])] = p
            h = p.half[peer]                      # direction peer -> side uses side's window
            h.known, h.init, h.maxpkt = True, m["window"], m["maxpkt"]
            h.granted_sent = h.granted_known = m["window"]
            return m
        if t == "OPEN_CONFIRMATION":
            p = self.by_local.get((peer, m["rcpt"]))
            if p is None:
                self.fail("unknown-channel", t, "confirmation for unknown channel %d" % m["rcpt"])
            p.ids[side] = m["sender"]
            self.by_local[(side, m["sender"])] = p
            p.confirmed = True
            h = p.half[peer]
            h.known, h.init, h.maxpkt = True, m["window"], m["maxpkt"]
            h.granted_sent = h.granted_known = m["window"]
            return m
        if "rcpt" not in m:
            return m
        p = self.by_local.get((peer, m["rcpt"]))
        if p is None:
            self.fail("unknown-channel", t, "%s sent %s for unknown recipient channel %d" % (side, t, m["rcpt"]))
        m["pair"] = p
        if t == "WINDOW_ADJUST":
            h = p.half[peer]                      # grants window for peer -> side
            h.granted_sent += m["n"]
            h.adjusts_sent += 1
        elif t in ("DATA", "EXTENDED_DATA"):
            h = p.half[side]
            kind = "data" if t == "DATA" else "ext"
            n = len(m["data"])
            if not m["wellformed"]:
                self.fail("malformed-message", kind, "%s payload %r" % (t, payload[:40]))
            if n > h.maxpkt:
                self.fail("exceeds-max-packet", kind, "%s sent %s of %d bytes on channel %r but the peer's maximum packet is %d (ctx %s)"
                          % (side, t, n, p.key, h.maxpkt, ctx))
            if n > h.window_known():
                self.fail("exceeds-window", kind, "%s sent %s of %d bytes on channel %r with only %d bytes of window known to it "
                          "(granted %d, already sent %d; ctx %s)" % (side, t, n, p.key, h.window_known(), h.granted_known, h.bytes_sent, ctx))
            w = h.written.get(m["stream"], b"")
            s = h.sent.setdefault(m["stream"], bytearray())
            if bytes(w[len(s):len(s) + n]) != m["data"]:
                self.fail("stream-order", kind, "%s sent %r on stream %s of channel %r; next unsent written bytes are %r (ctx %s)"
                          % (side, m["data"][:24], m["stream"], p.key, bytes(w[len(s):len(s) + 24]), ctx))
            s.extend(m["data"])
            h.bytes_sent += n
            h.sent_total += n
        elif t == "CLOSE":
            h = p.half[side]
            kinds = h.pending_kinds()
            if kinds:
                self.fail("close-before-flush", "unsent=%s,in=%s" % ("+".join(kinds), ctx),
                          "%s sent CHANNEL_CLOSE on channel %r with unsent bytes %r (known window %d)"
                          % (side, p.key, dict((s, len(h.written[s]) - len(h.sent.get(s, b""))) for s in h.pending_streams()), h.window_known()))
            h.close_sent = True
        return m

    def delivered(self, side, mtype, payload):
        """A message reaches `side` (sent by its peer)."""
        m = parse(mtype, payload)
        t = m["t"]
        peer = other(side)
        if t == "OPEN_CONFIRMATION":
            p = self.by_local.get((side, m["rcpt"]))
            if p is not None:
                p.confirm_delivered = True
            m["pair"] = p
            return m
        if "rcpt" not in m or t == "OPEN":
            return m
        p = self.by_local.get((side, m["rcpt"]))
        m["pair"] = p
        if p is None:
            return m
        if t == "WINDOW_ADJUST":
            p.half[side].granted_known += m["n"]
        elif t in ("DATA", "EXTENDED_DATA"):
            h = p.half[peer]
            h.bytes_delivered += len(m["data"])
            h.delivered.setdefault(m["stream"], bytearray()).extend(m["data"])
            if h.bytes_delivered > h.granted_sent:
                self.fail("receiver-overrun", "ledger", "%d bytes delivered to %s on %r, only %d advertised" % (h.bytes_delivered, side, p.key, h.granted_sent))
        elif t == "CLOSE":
            p.half[peer].close_delivered = True
        return m
