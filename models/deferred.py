"""Reference interpreter of the documented Deferred rules (no Twisted import).

Written from the documentation of twisted.internet.defer.Deferred (class and
method docstrings, the "Deferred reference" howto), NOT from ``_runCallbacks``:
plain records and a *recursive*, depth-first interpreter.

Rules interpreted:

* a Deferred holds at most one result; firing it (``fire``) stores the result and
  processes the callback list;
* callbacks are processed strictly in the order they were added, only while the
  Deferred has a result and its pause count is zero; each entry is a pair
  (callback, errback): the errback side is used iff the current result is a
  failure; a missing side passes the result through unchanged; the value
  returned (or the failure raised/returned) becomes the current result;
* a callback that returns a Deferred J: if J already has a result, is not paused
  and is not itself waiting, that result is taken (J keeps ``None``) and
  processing continues; otherwise the outer Deferred waits (its pause count is
  raised by one and it is registered at the end of J's callback list); when J's
  processing reaches that registration J hands its current result over (keeping
  ``None``), the outer's pause count drops by one and, if it reaches zero, the
  outer continues at once (depth-first); J then continues with its own list;
* ``pause`` raises the count, ``unpause`` lowers it and resumes processing at
  zero; adding a callback to a Deferred that has a result processes it at once
  (subject to the pause count);
* a second ``fire`` raises AlreadyCalled, except that after ``cancel`` of an
  unfired Deferred that has no canceller exactly one later ``fire`` is ignored;
* ``cancel`` of an unfired Deferred invokes its canceller once (if any) and,
  unless that fired the Deferred, fires it with the CANCELLED failure;
  ``cancel`` of a fired Deferred that is waiting on another cancels that other
  one and otherwise does nothing.

* (optional, scenarios whose callbacks operate on the pool from inside) a
  callback may first perform *actions* - ``pause`` / ``unpause`` of any Deferred
  of the pool, its own included, ``fire`` of a Deferred that has no result yet,
  ``add`` of a callback pair to any Deferred - and then behaves as above.  Such
  an action is the ordinary operation issued at that moment: an ``unpause`` that
  brings a fired Deferred to zero, a ``fire``, an ``add`` to a fired unpaused
  Deferred process that Deferred's list right there, nested inside the running
  callback.  The one exception is the documented "callbacks
  are never run recursively": while a callback of D is executing, nothing else
  of D's list is processed (a nested request to process D returns at once; D
  goes on when the callback has returned).  A value returned by a callback is
  what the callback returned, whatever happened to D's stored result meanwhile
  (``echo`` returns the callback's own argument).
  The documentation of ``pause`` ("cease calling any methods as they are added,
  and do not respond to callback, until unpause() is called") does not say what
  happens to entries that are ALREADY queued when the count of a Deferred is
  raised in the middle of one processing pass of that very Deferred and the pass
  would otherwise go on (the Deferred is not waiting and has entries left; one
  that started to wait meanwhile simply stops, as always).
  With ``midpass_undetermined=True`` the interpreter raises ``Undetermined`` at
  that point - the caller must give no verdict from there on; with the default
  it stops the pass there (callers whose callbacks never pause never get there).

* (optional) ``chain(d, target)`` = ``d.chainDeferred(target)``, documented as shorthand for
  ``d.addCallbacks(target.callback, target.errback)``: an entry of d's list that offers d's current result to the
  target (an ordinary ``fire`` of the target issued at that moment) and continues d with ``None``, or with the
  AlreadyCalled failure if the target refused it.  It creates no waiting relation: ``cancel`` never follows it.

Results are abstract: ("V", payload) | ("F", tag) | ("D", name-of-deferred).
Callback behaviours are small tuples interpreted by ``behave``:
  ("value", x) | ("raise", tag, ...) | ("failure", tag) | ("echo",) | ("deferred", name)
A callback spec is (cid, behaviour), (cid, behaviour, actions) or (cid, behaviour,
actions, extras): ``extras`` = (positional arguments, sorted keyword items) registered
together with THAT side of the pair (``addCallback(f, *a, **kw)``, ``callbackArgs`` /
``callbackKeywords`` / ``errbackArgs`` / ``errbackKeywords`` of ``addCallbacks``); the
callable is called as ``f(result, *a, **kw)`` and the log entry of the call then is
(deferred name, cid, input, extras) - without extras it stays (name, cid, input).
actions = (("pause", name) | ("unpause", name) | ("fire", name, result) |
("add", name, cbspec|None, ebspec|None), ...); an ``unpause`` action is only
carried out while the program holds a pause of its own on the target
(``MD.upaused`` counts them), a ``fire`` action only while the target has not
been fired.
"""

CANCELLED = ("F", "CancelledError")
NONE = ("V", None)


class AlreadyCalled(Exception):
    pass


class CancellerRaised(Exception):
    pass


class Undetermined(Exception):
    """The documented rules do not determine what happens next (see module text)."""


class MD:
    """One Deferred record."""

    def __init__(self, name, canceller=None):
        self.name = name
        self.called = False
        self.result = None          # abstract result once called
        self.paused = 0
        self.upaused = 0            # pauses issued by the program itself and not yet matched by its unpause
        self.running = False        # one of this Deferred's callbacks is executing right now
        self.cbs = []               # ("pair", cbspec|None, ebspec|None) | ("cont", MD)
        self.waiting_on = None      # MD this one waits for
        self.canceller = canceller  # None | "noop" | ("callback", payload) | ("errback", tag) | "raise"
        self.suppress = False
        self.canceller_calls = 0

    def pending(self):
        out = []
        for e in self.cbs:
            if e[0] == "cont":
                out.append(("cont", e[1].name))
            else:
                out.append((e[1][0] if e[1] else None, e[2][0] if e[2] else None))
        return out

    def view(self):
        if not self.called:
            res = None
        elif self.waiting_on is not None:
            res = ("D", self.waiting_on.name)
        else:
            res = self.result
        return (self.called, self.paused, res, self.pending())


class Interp:
    """spec = (cid, behaviour[, actions[, extras]]).  ``log`` receives (deferred name, cid, input[, extras])."""

    def __init__(self, midpass_undetermined=False):
        self.ds = {}
        self.log = []
        self.notes = []   # per-operation notes for probes / witness classification
        self.midpass_undetermined = midpass_undetermined

    def new(self, name, canceller=None):
        d = self.ds[name] = MD(name, canceller)
        return d

    # -- operations
    def fire(self, d, result):
        if d.called:
            if d.suppress:
                d.suppress = False
                return "ignored"
            raise AlreadyCalled(d.name)
        d.called = True
        d.result = result
        self._run(d)
        return "fired"

    def pause(self, d):
        d.paused += 1
        d.upaused += 1

    def unpause(self, d):
        d.paused -= 1
        d.upaused -= 1
        if d.paused == 0 and d.called:
            self._run(d)

    def add(self, d, cbspec, ebspec):
        d.cbs.append(("pair", cbspec, ebspec))
        if d.called:
            self._run(d)

    def chain(self, d, target):
        """(optional) ``d.chainDeferred(target)``: documented as "merely a shorthand" for
        ``d.addCallbacks(target.callback, target.errback)`` - whatever result d has when processing reaches the entry is
        offered to the target like any other result (accepted / the one ignored late result / AlreadyCalled raised inside
        d's processing, which makes that failure d's current result); when accepted or ignored d continues with None.
        The entry has no cid (``pending`` shows (None, None)) and logs nothing."""
        spec = (None, ("feed", target.name))
        self.add(d, spec, spec)

    def cancel(self, d):
        if not d.called:
            c = d.canceller
            if c is None:
                d.suppress = True
            else:
                d.canceller_calls += 1
                self.notes.append(("canceller", d.name))
                if c == "raise":
                    raise CancellerRaised(d.name)
                if c != "noop":
                    if c[0] == "callback":
                        self.fire(d, ("V", c[1]))
                    else:
                        self.fire(d, ("F", c[1]))
            if not d.called:
                self.fire(d, CANCELLED)
        elif d.waiting_on is not None:
            self.notes.append(("forward-cancel", d.name, d.waiting_on.name))
            self.cancel(d.waiting_on)

    # -- the interpreter proper
    def _run(self, d):
        if d.running:
            return  # never recursively: d goes on by itself when the executing callback has returned
        first = True
        while d.cbs:
            if d.paused:
                if not first and self.midpass_undetermined and d.waiting_on is None:
                    # count raised in the middle of this pass, entries left, not waiting
                    self.notes.append(("undetermined", d.name))
                    raise Undetermined(d.name)
                return
            first = False
            e = d.cbs.pop(0)
            if e[0] == "cont":
                o = e[1]
                o.result, d.result = d.result, NONE
                o.waiting_on = None
                o.paused -= 1
                self.notes.append(("handover", d.name, o.name, o.paused > 0))
                self._run(o)
                continue
            spec = e[2] if d.result[0] == "F" else e[1]
            if spec is None:
                continue  # pass-through side
            if spec[1][0] == "feed":
                # (optional) an entry added by ``chain``: hands the current result to the target as the ordinary
                # ``fire`` operation issued at that moment; nothing is logged (the entry is not a recorder)
                t = self.ds[spec[1][1]]
                self.notes.append(("feed", d.name, t.name, t.called, t.suppress))
                d.running = True
                try:
                    self.fire(t, d.result)
                    d.result = NONE
                except AlreadyCalled:
                    d.result = ("F", "AlreadyCalledError")
                finally:
                    d.running = False
                continue
            cid, beh = spec[0], spec[1]
            arg = d.result
            extras = spec[3] if len(spec) > 3 else None
            if extras and (extras[0] or extras[1]):
                # extra arguments registered with this side of the pair: part of the input of the call
                self.log.append((d.name, cid, arg, extras))
            else:
                self.log.append((d.name, cid, arg))
            if len(spec) > 2 and spec[2]:
                d.running = True
                try:
                    for a in spec[2]:
                        act, t = a[0], self.ds[a[1]]
                        if act == "pause":
                            self.notes.append(("inner-pause", d.name, t.name))
                            self.pause(t)
                        elif act == "unpause":
                            if t.upaused > 0:
                                self.notes.append(("inner-unpause", d.name, t.name))
                                self.unpause(t)
                        elif act == "fire":
                            if not t.called:
                                self.notes.append(("inner-fire", d.name, t.name))
                                self.fire(t, a[2])
                        elif act == "add":
                            self.notes.append(("inner-add", d.name, t.name))
                            self.add(t, a[2], a[3])
                        else:
                            raise ValueError(act)
                finally:
                    d.running = False
            kind = beh[0]
            if kind == "value":
                d.result = ("V", beh[1])
            elif kind in ("raise", "failure"):
                d.result = ("F", beh[1])
            elif kind == "echo":
                d.result = arg
            elif kind == "deferred":
                j = self.ds[beh[1]]
                if j.called and j.paused == 0 and j.waiting_on is None:
                    self.notes.append(("take", d.name, j.name))
                    d.result, j.result = j.result, NONE
                else:
                    self.notes.append(("wait", d.name, j.name))
                    d.waiting_on = j
                    d.paused += 1
                    j.cbs.append(("cont", d))
                    return
            else:
                raise ValueError(beh)
