"""Chunked transfer coding encoder written from RFC 9112 section 7.1 (no Twisted import).

    chunked-body   = *chunk last-chunk trailer-section CRLF
    chunk          = chunk-size [ chunk-ext ] CRLF chunk-data CRLF
    chunk-size     = 1*HEXDIG
    last-chunk     = 1*("0") [ chunk-ext ] CRLF
    chunk-ext      = *( BWS ";" BWS chunk-ext-name [ BWS "=" BWS chunk-ext-val ] )
    chunk-ext-val  = token / quoted-string
    trailer-section = *( field-line CRLF )

`encode` returns the wire bytes plus a layout: for every chunk the offsets of its
size line, data and trailing CRLF, the end of the last-chunk line and the end of
the message, so that a scenario can mutate or truncate at a precise place.
"""

TCHAR = b"!#$%&'*+-.^_`|~0123456789ABCDEFGHIJKLMNOPQRSTUVWXYZabcdefghijklmnopqrstuvwxyz"
# qdtext = HTAB / SP / %x21 / %x23-5B / %x5D-7E / obs-text
QDTEXT = bytes([0x09, 0x20, 0x21]) + bytes(range(0x23, 0x5C)) + bytes(range(0x5D, 0x7F)) + bytes(range(0x80, 0x100))
# bytes that may never appear in a chunk extension: CTLs other than HTAB, and DEL
EXT_FORBIDDEN = bytes([0x00, 0x01, 0x07, 0x08, 0x0A, 0x0B, 0x0C, 0x0D, 0x1B, 0x1F, 0x7F])


def size_text(n, upper=False, zeros=0):
    s = ("%X" if upper else "%x") % n
    return ("0" * zeros + s).encode("ascii")


def encode(chunks, sizes=None, exts=None, last="0", last_ext=b"", trailers=()):
    """chunks: list of non-empty bytes.  sizes[i]: textual size (default lower hex).
    exts[i]: extension text including its leading ';' (or b'').  trailers: list of
    field lines without CRLF."""
    out = bytearray()
    layout = {"chunks": []}
    for i, c in enumerate(chunks):
        assert c, "an empty chunk is the last-chunk"
        line_start = len(out)
        out += (sizes[i] if sizes else size_text(len(c))) + (exts[i] if exts else b"")
        line_end = len(out)            # position of the CRLF ending the size line
        out += b"\r\n"
        data_start = len(out)
        out += c
        data_end = len(out)
        out += b"\r\n"
        layout["chunks"].append({"line": (line_start, line_end), "data": (data_start, data_end), "crlf": (data_end, data_end + 2)})
    layout["last_line"] = (len(out), None)
    out += last.encode("ascii") + last_ext
    layout["last_line"] = (layout["last_line"][0], len(out))
    out += b"\r\n"
    layout["last_line_end"] = len(out)
    for t in trailers:
        out += t + b"\r\n"
    out += b"\r\n"
    layout["end"] = len(out)
    return bytes(out), layout
