"""AMP box wire format, written from the format description in the
twisted.protocols.amp module/BinaryBoxProtocol docstring (no Twisted import):

    box  = *( keylen(2, big-endian, 1..255) key  vallen(2, big-endian, 0..65535) value )  0x00 0x00
"""
import struct

MAX_KEY = 255
MAX_VALUE = 65535


def representable(box):
    """True iff every key is bytes of 1..255 bytes and every value bytes of 0..65535."""
    try:
        items = list(box.items())
    except Exception:
        return False
    for k, v in items:
        if type(k) is not bytes or type(v) is not bytes:
            return False
        if not (1 <= len(k) <= MAX_KEY) or len(v) > MAX_VALUE:
            return False
    return True


def serialize(pairs):
    """pairs: sequence of (key, value) in the order to put on the wire."""
    out = []
    for k, v in pairs:
        assert 1 <= len(k) <= MAX_KEY and len(v) <= MAX_VALUE
        out.append(struct.pack("!H", len(k)) + k + struct.pack("!H", len(v)) + v)
    out.append(b"\x00\x00")
    return b"".join(out)


def parse(wire):
    """-> (boxes as dicts, prefix offsets, number of bytes consumed by complete boxes).
    Raises ValueError on a key length > 255."""
    boxes = []
    offsets = []
    pos = 0
    done = 0
    cur = {}
    n = len(wire)
    while True:
        if n - pos < 2:
            break
        offsets.append(pos)
        klen = struct.unpack("!H", wire[pos:pos + 2])[0]
        if klen == 0:
            boxes.append(cur)
            cur = {}
            pos += 2
            done = pos
            continue
        if klen > MAX_KEY:
            raise ValueError("key length %d" % klen)
        if n - pos - 2 < klen + 2:
            break
        key = wire[pos + 2:pos + 2 + klen]
        vpos = pos + 2 + klen
        offsets.append(vpos)
        vlen = struct.unpack("!H", wire[vpos:vpos + 2])[0]
        if n - vpos - 2 < vlen:
            break
        cur[key] = wire[vpos + 2:vpos + 2 + vlen]
        pos = vpos + 2 + vlen
    return boxes, offsets, done
