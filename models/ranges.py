"""Reference evaluator for HTTP byte-range requests.

Written from the text of RFC 9110 (section 14 "Range Requests", 15.3.7 "206
Partial Content", 15.5.17 "416 Range Not Satisfiable", 5.6.1 list rule) and RFC
2046 section 5.1.1 (multipart syntax).  No Twisted import; nothing here was
derived from twisted/web/static.py.

    parse_range(value)            Range field value -> Parsed (classification + range-specs)
    evaluate(parsed, size)        -> Expect (allowed status codes, resolved satisfiable ranges)
    parse_content_range(value)    Content-Range field value -> ('range', a, b, total|None) | ('unsat', total) | None
    boundary_of(content_type)     multipart/byteranges boundary parameter or None
    parse_multipart(body, bnd)    -> [Part]   (raises Bad)
    check_get(exp, size, content, status, headers, body) -> None | (clause, witness, detail)
    check_head(...)

Classification of a Range field value (what a verdict may rest on):

  absent      no Range header                                  -> 200
  other-unit  range-unit is a token other than "bytes"         -> 200  (14.2: "MUST ignore ... a range unit it does not understand")
  invalid     not a byte ranges-specifier under any reading:   -> 200  (the property statement: "malformed -> whole content")
              no "=", unit not a token, an element that is neither an int-range nor a suffix-range even for a lenient
              integer parser, or an int-range whose last-pos is less than its first-pos (14.1.1: "invalid")
  empty-set   "bytes=" followed by nothing but commas/OWS: violates 1#range-spec.  14.2 lets a server "ignore or reject"
              an invalid ranges-specifier and the statement's trichotomy is ambiguous here (malformed? or no satisfiable
              range?) -> 200 or 416, nothing else
  lenient     syntactically outside the strict grammar, but a lenient integer parser (optional sign, surrounding
              whitespace, digit-group underscores), a case-insensitive or whitespace-padded unit name would read byte
              ranges out of it.  Whether that is "malformed" is not decided by the statement -> NO verdict on the status;
              only self-consistency of whatever is sent (and no internal error) is required
  valid       strict 14.1.1 grammar, unit exactly "bytes" -> evaluated against the representation length:
              satisfiable -> 206, otherwise 416; empty representation -> 200 or 416 (14.2: "MAY ignore ... when the
              selected representation has no content"); more than two overlapping ranges or >= 3 ranges not in ascending
              order -> 200 allowed as well (14.2: "MAY ignore or reject")
"""

DIGIT = frozenset(b"0123456789")
TCHAR = frozenset(b"!#$%&'*+-.^_`|~0123456789ABCDEFGHIJKLMNOPQRSTUVWXYZabcdefghijklmnopqrstuvwxyz")
OWS = b" \t"
LENIENT_WS = b" \t\n\r\x0b\x0c"


class Bad(Exception):
    pass


def _is_token(b):
    return len(b) > 0 and all(c in TCHAR for c in b)


def _digits(b):
    return len(b) > 0 and all(c in DIGIT for c in b)


def _lenient_int(b):
    """What integer parsers in common use accept beyond 1*DIGIT: surrounding whitespace, one sign, underscores
    between digits.  -> int or None."""
    s = b.strip(LENIENT_WS)
    if not s:
        return None
    neg = False
    if s[:1] in (b"+", b"-"):
        neg = s[:1] == b"-"
        s = s[1:]
    if not s or s[:1] == b"_" or s[-1:] == b"_" or b"__" in s:
        return None
    s = s.replace(b"_", b"")
    if not _digits(s):
        return None
    n = int(s)
    return -n if neg else n


def _lenient_element(e):
    """True if some split of e at a '-' gives (lenient int | empty, lenient int | empty), not both empty."""
    for i, c in enumerate(e):
        if c != 0x2D:
            continue
        left, right = e[:i], e[i + 1:]
        lv = _lenient_int(left) if left.strip(LENIENT_WS) else "empty"
        rv = _lenient_int(right) if right.strip(LENIENT_WS) else "empty"
        if lv is None or rv is None:
            continue
        if lv == "empty" and rv == "empty":
            continue
        return True
    return False


class Parsed:
    __slots__ = ("cls", "specs", "why")

    def __init__(self, cls, specs=(), why=""):
        self.cls = cls
        self.specs = list(specs)     # ("int", first, last|None) | ("suffix", n)
        self.why = why

    def __repr__(self):
        return "Parsed(%s %r %s)" % (self.cls, self.specs, self.why)


def parse_range(value):
    """value: the Range field value without surrounding OWS (bytes) or None."""
    if value is None:
        return Parsed("absent")
    if b"=" not in value:
        return Parsed("invalid", why="no-equals")
    unit, rest = value.split(b"=", 1)
    lenient = False
    if unit != b"bytes":
        if unit.strip(LENIENT_WS).lower() == b"bytes":
            lenient = True                       # "Bytes", "bytes " ...: 14.1 says unit names are case-insensitive
        elif _is_token(unit):
            return Parsed("other-unit")
        else:
            return Parsed("invalid", why="unit-not-a-token")
    elements = [e.strip(OWS) for e in rest.split(b",")]
    elements = [e for e in elements if e]        # 5.6.1.2: recipients ignore empty list elements
    if not elements:
        return Parsed("empty-set")
    specs = []
    for e in elements:
        first, sep, last = e.partition(b"-")
        if sep and _digits(first) and (last == b"" or _digits(last)):
            f = int(first)
            if last == b"":
                specs.append(("int", f, None))
            else:
                ll = int(last)
                if ll < f:
                    return Parsed("invalid", why="last-pos-less-than-first-pos")
                specs.append(("int", f, ll))
        elif sep and first == b"" and _digits(last):
            specs.append(("suffix", int(last)))
        elif _lenient_element(e):
            lenient = True
            specs.append(("lenient", e))
        else:
            return Parsed("invalid", why="element-not-a-range-spec")
    if lenient:
        return Parsed("lenient", specs)
    return Parsed("valid", specs)


def resolve(specs, size):
    """14.1.1 / 14.1.2: the satisfiable range-specs as inclusive (first, last) positions, in request order."""
    out = []
    for s in specs:
        if s[0] == "int":
            first, last = s[1], s[2]
            if first >= size:
                continue
            if last is None or last >= size:
                last = size - 1
            out.append((first, last))
        elif s[0] == "suffix":
            n = s[1]
            if n == 0 or size == 0:
                continue
            out.append((size - n if n < size else 0, size - 1))
    return out


class Expect:
    __slots__ = ("statuses", "resolved", "nspecs", "free", "why")

    def __repr__(self):
        return "Expect(%s statuses=%s resolved=%r nspecs=%d free=%s)" % (self.why, sorted(self.statuses), self.resolved, self.nspecs, self.free)


def _overlapping(resolved):
    """number of ranges that overlap at least one other requested range"""
    n = 0
    for i, (a, b) in enumerate(resolved):
        for j, (c, d) in enumerate(resolved):
            if i != j and a <= d and c <= b:
                n += 1
                break
    return n


def evaluate(parsed, size):
    e = Expect()
    e.resolved = []
    e.nspecs = len(parsed.specs)
    e.free = False
    e.why = parsed.cls
    if parsed.cls in ("absent", "other-unit", "invalid"):
        e.statuses = {200}
    elif parsed.cls == "empty-set":
        e.statuses = {200, 416}
    elif parsed.cls == "lenient":
        e.statuses = set()
        e.free = True
    else:
        e.resolved = resolve(parsed.specs, size)
        if size == 0:
            e.statuses = {200, 416}
            e.why = "valid-empty-representation"
        elif not e.resolved:
            e.statuses = {416}
            e.why = "valid-unsatisfiable"
        else:
            e.statuses = {206}
            e.why = "valid-single" if e.nspecs == 1 else "valid-multi"
            firsts = [a for a, _ in e.resolved]
            if _overlapping(e.resolved) > 2 or (len(e.resolved) >= 3 and firsts != sorted(firsts)):
                e.statuses.add(200)
                e.why += "-may-ignore"
    return e


# ------------------------------------------------------------------ Content-Range (14.4)

def parse_content_range(v):
    unit, sp, rest = v.partition(b" ")
    if not sp or unit.lower() != b"bytes":
        return None
    rng, slash, total = rest.partition(b"/")
    if not slash:
        return None
    if rng == b"*":
        if not _digits(total):
            return None
        return ("unsat", int(total))
    a, dash, b = rng.partition(b"-")
    if not dash or not _digits(a) or not _digits(b):
        return None
    if total == b"*":
        t = None
    elif _digits(total):
        t = int(total)
    else:
        return None
    a, b = int(a), int(b)
    if b < a or (t is not None and t <= b):
        return None          # 14.4: "invalid if ... last-pos less than first-pos, or complete-length <= last-pos"
    return ("range", a, b, t)


# ------------------------------------------------------------------ multipart/byteranges (14.6, RFC 2046 5.1.1)

def boundary_of(content_type):
    """-> boundary bytes if the media type is multipart/byteranges with a boundary parameter, else None."""
    mt, _, params = content_type.partition(b";")
    if mt.strip(OWS).lower() != b"multipart/byteranges":
        return None
    pos = 0
    params = params + b";"
    n = len(params)
    while pos < n:
        while pos < n and params[pos] in b" \t;":
            pos += 1
        eq = params.find(b"=", pos)
        if eq < 0:
            return None
        name = params[pos:eq].strip(OWS).lower()
        pos = eq + 1
        if params[pos:pos + 1] == b'"':
            pos += 1
            val = bytearray()
            while pos < n and params[pos] != 0x22:
                if params[pos] == 0x5C and pos + 1 < n:
                    pos += 1
                val.append(params[pos])
                pos += 1
            pos += 1
            val = bytes(val)
        else:
            end = params.find(b";", pos)
            val = params[pos:end].strip(OWS)
            pos = end
        if name == b"boundary":
            return val if 0 < len(val) <= 70 else None
    return None


class Part:
    __slots__ = ("headers", "content", "start", "end")

    def get(self, name):
        return [v for n, v in self.headers if n == name]


def parse_multipart(body, boundary):
    """multipart-body := [preamble CRLF] dash-boundary pad CRLF body-part *(CRLF dash-boundary pad CRLF body-part)
                         CRLF dash-boundary "--" pad [CRLF epilogue]
    -> (parts, epilogue).  Part.start/.end are offsets of the part content inside body."""
    dash = b"--" + boundary
    if body.startswith(dash):
        pos = 0
    else:
        i = body.find(b"\r\n" + dash)
        if i < 0:
            raise Bad("no dash-boundary")
        pos = i + 2
    parts = []
    while True:
        p = pos + len(dash)
        if body[p:p + 2] == b"--":
            if not parts:
                raise Bad("close-delimiter before any body part")
            p += 2
            while p < len(body) and body[p] in OWS:
                p += 1
            rest = body[p:]
            if rest and not rest.startswith(b"\r\n"):
                raise Bad("garbage after close-delimiter %r" % (rest[:20],))
            return parts, rest[2:]
        while p < len(body) and body[p] in OWS:
            p += 1
        if body[p:p + 2] != b"\r\n":
            raise Bad("dash-boundary not followed by CRLF at %d: %r" % (p, body[p:p + 12]))
        p += 2
        j = body.find(b"\r\n" + dash, p)
        if j < 0:
            raise Bad("body part %d not terminated by a delimiter" % len(parts))
        raw = body[p:j]
        part = Part()
        if raw.startswith(b"\r\n"):
            hdr, part.content, part.start = b"", raw[2:], p + 2
        else:
            k = raw.find(b"\r\n\r\n")
            if k < 0:
                hdr, part.content, part.start = raw, b"", j
            else:
                hdr, part.content, part.start = raw[:k], raw[k + 4:], p + k + 4
        part.end = j
        part.headers = []
        for line in hdr.split(b"\r\n") if hdr else []:
            name, colon, value = line.partition(b":")
            if not colon or not _is_token(name):
                raise Bad("body part header line %r" % (line[:40],))
            part.headers.append((name.lower(), value.strip(OWS)))
        parts.append(part)
        pos = j + 2


# ------------------------------------------------------------------ verdicts

def _hget(headers, name):
    return [v for n, v in headers if n == name]


def _part_ranges(size, content, headers, body, partial=False):
    """The (a, b) ranges a 206 response claims to carry, each verified against the representation.
    -> (list, multipart?, failure|None)"""
    ct = _hget(headers, b"content-type")
    bnd = boundary_of(ct[-1]) if ct else None
    if bnd is None:
        cr = _hget(headers, b"content-range")
        if len(cr) != 1:
            return None, False, ("content-range", "206-without-one-content-range", "Content-Range fields: %r" % (cr,))
        r = parse_content_range(cr[0])
        if r is None or r[0] != "range":
            return None, False, ("content-range", "206-invalid-content-range", "%r" % (cr[0],))
        _, a, b, total = r
        if total is not None and total != size:
            return None, False, ("content-range", "complete-length", "%r, representation has %d bytes" % (cr[0], size))
        if b >= size:
            return None, False, ("content-range", "beyond-representation", "%r, representation has %d bytes" % (cr[0], size))
        if body is not None and partial:
            if not content[a:b + 1].startswith(body):
                return None, False, ("body", "single-range-truncated-not-a-prefix", "Content-Range %r, %d bytes %r..." % (cr[0], len(body), body[:16]))
        elif body is not None and body != content[a:b + 1]:
            return None, False, ("body", "single-range-bytes", "Content-Range %r but body is %d bytes %r..., slice is %d bytes %r..."
                                 % (cr[0], len(body), body[:16], b - a + 1, content[a:a + 16]))
        return [(a, b)], False, None
    if _hget(headers, b"content-range"):
        return None, True, ("content-range", "in-header-section-of-multipart", "15.3.7.2: MUST NOT; %r" % (_hget(headers, b"content-range"),))
    if body is None or partial:
        return None, True, None
    try:
        parts, epilogue = parse_multipart(body, bnd)
    except Bad as e:
        return None, True, ("multipart", "unparseable", "%s; body %r" % (e, body[:200]))
    out = []
    for i, p in enumerate(parts):
        cr = p.get(b"content-range")
        if len(cr) != 1:
            return None, True, ("multipart", "part-without-one-content-range", "part %d headers %r" % (i, p.headers))
        r = parse_content_range(cr[0])
        if r is None or r[0] != "range":
            return None, True, ("multipart", "part-invalid-content-range", "part %d: %r" % (i, cr[0]))
        _, a, b, total = r
        if (total is not None and total != size) or b >= size:
            return None, True, ("multipart", "part-content-range-vs-length", "part %d: %r, representation has %d bytes" % (i, cr[0], size))
        if p.content != content[a:b + 1]:
            return None, True, ("body", "part-bytes", "part %d: Content-Range %r but the part carries %d bytes %r..., slice is %d bytes %r..."
                                % (i, cr[0], len(p.content), p.content[:16], b - a + 1, content[a:a + 16]))
        out.append((a, b))
    return out, True, None


def _covered(ranges):
    """union as a sorted list of disjoint inclusive intervals"""
    out = []
    for a, b in sorted(ranges):
        if out and a <= out[-1][1] + 1:
            out[-1][1] = max(out[-1][1], b)
        else:
            out.append([a, b])
    return out


def _subset(inner, outer):
    """every position of the interval list `inner` lies in the disjoint sorted interval list `outer`"""
    for a, b in inner:
        if not any(c <= a and b <= d for c, d in outer):
            return False
    return True


def check_get(exp, size, content, status, headers, body, partial=False):
    """Verdict on one GET response.  -> None or (clause, witness, detail).
    partial=True: the connection went away inside the body; `body` is what had arrived: the header section gets the full
    verdict, the body only has to be a prefix of what was announced (multipart: no verdict on the truncated body)."""
    why = exp.why
    if status >= 500:
        return ("internal-error", why, "status %d" % status)
    if exp.free:
        if status not in (200, 206, 400, 416):
            return ("status", why, "status %d" % status)
    elif status not in exp.statuses:
        return ("status", "%s:got-%d" % (why, status), "allowed %s, resolved %r" % (sorted(exp.statuses), exp.resolved))
    cl = _hget(headers, b"content-length")
    if cl and not partial and not (len(set(cl)) == 1 and _digits(cl[0]) and int(cl[0]) == len(body)):
        return ("content-length", "%d" % status, "Content-Length %r, body has %d bytes" % (cl, len(body)))
    if status == 200:
        if partial:
            if not content.startswith(body):
                return ("body", "200-truncated-not-a-prefix", "%d bytes %r..." % (len(body), body[:16]))
            if cl and not (len(set(cl)) == 1 and _digits(cl[0]) and int(cl[0]) == size):
                return ("content-length", "200", "Content-Length %r, representation has %d bytes" % (cl, size))
        elif body != content:
            return ("body", "200-not-whole-content", "%d bytes %r..., representation has %d" % (len(body), body[:16], size))
        return None
    if status == 416:
        for v in _hget(headers, b"content-range"):
            r = parse_content_range(v)
            if r is None or r[0] != "unsat" or r[1] != size:
                return ("content-range", "416", "%r, representation has %d bytes (15.5.17: bytes */complete-length)" % (v, size))
        return None
    if status != 206:
        return None
    got, multipart, failure = _part_ranges(size, content, headers, body, partial)
    if failure is not None:
        return failure
    if exp.free or got is None:
        return None
    if cl and partial and not multipart and not (len(set(cl)) == 1 and _digits(cl[0]) and int(cl[0]) == got[0][1] - got[0][0] + 1):
        return ("content-length", "206", "Content-Length %r for %r" % (cl, got))
    if exp.nspecs == 1:
        if multipart:
            return ("multipart", "for-a-single-range", "15.3.7.2: MUST NOT generate a multipart response to a request for a single range")
        if got != exp.resolved:
            return ("content-range", "single-range", "sent %r, requested range resolves to %r" % (got, exp.resolved))
        return None
    # several range-specs: parts may have been coalesced, reordered or repeated (15.3.7.2); every part must begin where
    # a requested range begins and end where one ends, and together they must carry every requested byte and nothing
    # outside the hull of the requested ranges
    firsts = set(a for a, _ in exp.resolved)
    lasts = set(b for _, b in exp.resolved)
    for a, b in got:
        if a not in firsts or b not in lasts:
            return ("content-range", "part-is-not-a-requested-range", "part %r; requested ranges resolve to %r" % ((a, b), exp.resolved))
    if not _subset(_covered(exp.resolved), _covered(got)):
        return ("body", "requested-bytes-missing", "parts %r do not cover the requested %r" % (got, exp.resolved))
    return None


def check_head(exp, size, status, headers):
    """HEAD: 14.2 defines range handling for GET only (a server "MUST ignore" Range for other methods) while 9.3.2 says
    HEAD SHOULD carry the GET header fields: both a plain 200 and the GET status are accepted."""
    why = "head:" + exp.why
    if status >= 500:
        return ("internal-error", why, "status %d" % status)
    cl = _hget(headers, b"content-length")
    if len(set(cl)) > 1 or (cl and not _digits(cl[0])):
        return ("content-length", "head", "%r" % (cl,))
    n = int(cl[0]) if cl else None
    if status == 200:
        if n is not None and n != size:
            return ("content-length", "head-200", "Content-Length %d, representation has %d bytes" % (n, size))
        return None
    if exp.free:
        if status not in (206, 400, 416):
            return ("status", why, "status %d" % status)
    elif status not in exp.statuses:
        return ("status", "%s:got-%d" % (why, status), "allowed %s or 200" % (sorted(exp.statuses),))
    if status == 206:
        got, multipart, failure = _part_ranges(size, None, headers, None)
        if failure is not None:
            return failure
        if not multipart and not exp.free:
            if exp.nspecs == 1 and got != exp.resolved:
                return ("content-range", "head-single-range", "sent %r, requested range resolves to %r" % (got, exp.resolved))
            if n is not None and n != got[0][1] - got[0][0] + 1:
                return ("content-length", "head-206", "Content-Length %d for %r" % (n, got))
    return None
