"""C06 — DeferredLock / DeferredSemaphore are safe, fair and lose no capacity.

Engine E1 (tasks): logical clients interleave acquire / release-by-holder /
cancel (of pending, granted, finished acquisitions) / run(f) (f returns, raises,
returns a Deferred fired later with success or failure, or already fired) /
resolve-f's-Deferred / cancel-of-run on one real DeferredLock or
DeferredSemaphore(1..3); a fraction of runs also issues operations re-entrantly
from inside a grant callback, from inside f, from inside the errback of an
acquisition that was cancelled while it waited (the client that gives up hands back
what it holds, asks again, ... at once) and from inside the caller's callback on a
run() / async-with result.  A few runs contain one burst: a batch of 8..LONG_QUEUE_MAX
requests handed in at once while nothing is free, most of them run() calls whose
function has its result immediately, so that a later release hands the unit on
through a long queue in one go.  The tape picks every operation.

The result object of f takes every shape the interface accepts: a plain value, a
raised exception, a returned Failure, a plain Deferred (fired, failed, pending,
called-but-waiting on another one), an instance of a Deferred SUBCLASS (an
application's own subclass; the DeferredList built by gatherResults() /
DeferredList() over 0..2 sub-operations that the tape fires one at a time) and a
coroutine.  The same critical sections are also entered through the other public
acquire/release pair of the two classes, `async with primitive:` (__aenter__ =
acquire, __aexit__ = release by the holder that leaves its block): a coroutine
client enters the block, runs the same body and leaves normally, with the body's
exception, or because its task was cancelled (while it waits to enter = cancelled
pending acquisition; while it is inside = the holder leaves with CancelledError).
Every run ends with a drain: the coroutine clients are always brought to their
end; in half of the runs every outstanding result is fired and every holder
released as well, and afterwards the primitive must be completely free.
In two thirds of the runs a second, independent lock / semaphore (own requests,
own model) is alive at the same time and is driven in between.

Oracle: an independent FIFO reference model (ordered holders, ordered waiters,
grant log).  The model is advanced immediately *before* each atomic real
operation; every real grant callback checks that the model has already granted
exactly that acquisition; after every operation (and at every re-entry point)
the real capacity attributes, the waiter count, and the grant log are compared
with the model.
"""
import sys

from twisted.internet import defer
from twisted.python.failure import Failure

from detsim.sim import StepLimit, Violation

ID = "C06"
ENGINE = "tasks"
LEVEL = "exploration"
TECHNIQUE = "deterministic simulation: seeded interleaving of client operations on a real lock/semaphore vs reference FIFO capacity model"
QUICK_RUNS = 36000
TWIN_P = 0.1   # a tenth of the runs drive two primitives one after the other (see detsim.runner._run_scenario)
USES_DEPTH = True   # thorough tier: history length bound scales with sim.depth (1..3) beyond the quick tier\'s run indices
BATCH = 400
COMPONENTS = {"real": ["twisted.internet.defer.DeferredLock", "twisted.internet.defer.DeferredSemaphore",
                       "twisted.internet.defer._ConcurrencyPrimitive.run", "twisted.internet.defer.Deferred",
                       "twisted.internet.defer.maybeDeferred"],
              "stub": ["order in which independent clients issue operations (tape)",
                       "the functions passed to run() and the moment their Deferreds fire (tape)"]}
RULE = ("run = up to 40 tape-chosen operations (acquire / release by a holder / cancel of any acquisition or run Deferred / "
        "run(f) with f in {value, raise, returned Failure, fired Deferred, failed Deferred, pending Deferred, pending Deferred with a "
        "canceller, called-but-chained Deferred, instance of an application's Deferred subclass, gatherResults()/DeferredList() over "
        "0..2 sub-operations fired one at a time, coroutine} / the same body inside `async with primitive:` of a coroutine client "
        "(share drawn per run: 0, 0.3, 0.6) / fire a pending result with success or failure / cancel of a run or of an async-with "
        "task while it waits and while it is inside / the same issued re-entrantly from a grant callback, from inside f, from the "
        "errback of an acquisition (plain, run(), async-with) cancelled while it waited, or from the caller's callback on a run() / "
        "async-with result / in LONG_QUEUE_P of the runs one burst of 8..LONG_QUEUE_MAX requests queued at once behind the holders: "
        "all, or 16 in 18 / 16 in 22, run() calls with an immediate result, the others plain acquisitions and arbitrary run() calls; in "
        "DEEP_QUEUE_P of the runs the burst is 100..DEEP_QUEUE_MAX identical run() calls with an immediate result and the drain is full) "
        "on a DeferredLock or DeferredSemaphore(1..3) - in 2/3 of the runs beside a live companion lock/semaphore(2) with its own "
        "acquire/release traffic and model - followed by a drain (coroutine clients finished; in half of the runs every outstanding "
        "result fired and every holder released, then all capacity must be back); non-trivial = some acquisition had to wait and was granted later AND "
        "(a pending acquisition was cancelled, or a run() function failed, or an async run completed, or a re-entrant op occurred)")
ASSUMPTIONS = ["release() is only called by a current holder obtained through acquire() (run() releases for itself, an async-with "
               "client releases by leaving its block and in no other way)",
               "functions passed to run() / bodies of async-with blocks do not release the primitive themselves",
               "`async with primitive:` is acquire (__aenter__) and release by the holder (__aexit__) of the same two classes reached "
               "through their other public entry point; leaving the block - normally, by an exception or by CancelledError - is the "
               "holder's release",
               "an async-with task is cancelled only while it is suspended (waiting to enter, or awaiting inside its block), never "
               "from inside its own running body (what the coroutine machinery does then is not this property's business)",
               "sub-operation failures of gatherResults()/DeferredList() are consumed (consumeErrors=True)",
               "while the errback of a cancelled pending acquisition runs, the length of the internal waiting list is not compared "
               "(the statement says what a cancelled acquisition never gets, not when the object forgets it); what is done from "
               "inside that errback must behave as the model says, and the list is compared when cancel() has returned",
               "outside the deep runs queues stay far below the length at which the hand-over from one finished synchronous run() to the "
               "next - a nested call per queued request - exhausts the interpreter stack (LONG_QUEUE_MAX = 48).  DEEP_QUEUE_P of the "
               "runs queue 100..DEEP_QUEUE_MAX identical run() calls with an immediate result and have them handed on by one release "
               "with DEEP_STACK_ROOM interpreter frames below run(); once an operation of a run has granted DEEP_HANDOVER or more "
               "acquisitions, every clause that fails in that run is reported as handover-recursion:<clause> (listed known finding, "
               "see FINDINGS); runs without such an operation cannot carry that clause"]


# ---- module-level knobs
LONG_QUEUE_P = 0.02    # share of the runs in which one client burst queues many requests at once behind the current holders
LONG_QUEUE_MAX = 48    # longest burst.  Every hand-over from a finished synchronous run() to the next queued one is a nested call
#                        (release -> grant callback -> function -> release ...), about 8 interpreter frames per queued request;
#                        beyond ~110 queued synchronous requests the unchanged tree exhausts the interpreter stack in the middle
#                        of a hand-over and loses the unit (known finding, see ASSUMPTIONS) - 200 here reaches it.
DEEP_QUEUE_P = 0.01    # share of the runs whose burst is DEEP: 100..DEEP_QUEUE_MAX identical run() calls with an immediate result queued
DEEP_QUEUE_MAX = 200   # behind the holders and handed on by one release - the precondition of the listed known finding
#                        C06:handover-recursion:* (see FINDINGS).  Everything such a run reports carries that clause.
DEEP_HANDOVER = 100    # this many grants inside one operation make a run a deep-hand-over run
DEEP_STACK_ROOM = 1000  # interpreter frames available to a deep run below run() (= the default recursion limit, measured from
#                        run() itself so that the outcome does not depend on how deep the caller of run() happens to be)
_saved = {"limit": None}


def _stack_depth():
    f, n = sys._getframe(), 0
    while f is not None:
        n += 1
        f = f.f_back
    return n


def cleanup(sim):
    if _saved["limit"] is not None:
        sys.setrecursionlimit(_saved["limit"])
        _saved["limit"] = None


class BoomError(Exception):
    pass


class AppDeferred(defer.Deferred):
    """An application's own Deferred subclass (as returned by many libraries built on Twisted)."""


class Model:
    """Reference: `limit` units of capacity, FIFO of waiting acquisition ids."""

    def __init__(self, limit):
        self.limit = limit
        self.holders = []
        self.waiters = []
        self.grants = []  # every acquisition ever granted, in grant order

    def acquire(self, a):
        if len(self.holders) < self.limit:
            self.holders.append(a)
            self.grants.append(a)
            return True
        self.waiters.append(a)
        return False

    def release(self, a):
        self.holders.remove(a)
        if self.waiters:
            w = self.waiters.pop(0)
            self.holders.append(w)
            self.grants.append(w)
            return w
        return None

    def cancel_pending(self, a):
        self.waiters.remove(a)


# "pending-chained": f returns a Deferred that has already been called back but whose callback chain is waiting on another,
# unfired Deferred (`called` is true, there is no result yet) - f's result is available only when that inner Deferred fires
# "pending-subclass": a pending instance of an application's Deferred subclass; "gather" / "dlist": the DeferredList (a Deferred
# subclass) returned by gatherResults() / DeferredList() over 0..2 sub-operations - the result is available when the last
# sub-operation has fired (gather: or the first one has failed); "coroutine": f returns a coroutine that awaits a pending Deferred;
# "failure-returned": f returns (does not raise) a Failure
SYNC_F_MODES = [("value", 4), ("raise", 2), ("fired", 2), ("failed", 1), ("failure-returned", 1)]   # the result is there when f returns
F_MODES = [("value", 4), ("raise", 3), ("pending", 6), ("fired", 2), ("failed", 2), ("pending-canceller", 2), ("pending-chained", 3),
           ("gather", 3), ("pending-subclass", 2), ("coroutine", 3), ("dlist", 2), ("failure-returned", 1)]


def _show(res):
    if isinstance(res, Failure):
        return "F:" + res.type.__name__
    if isinstance(res, (list, tuple)):
        return "[" + ",".join(_show(x) for x in res) + "]"
    if isinstance(res, (str, int, bool)) or res is None:
        return str(res)
    return "<%s>" % type(res).__name__   # never the repr of an arbitrary object (addresses)


def _matches(expect, res):
    kind, val = expect
    if kind == "value":
        return not isinstance(res, Failure) and res == val
    if kind == "fail":
        return isinstance(res, Failure) and bool(res.check(val))
    # "dlist": list of (success, value | exception type)
    if not isinstance(res, list) or len(res) != len(val):
        return False
    for (ok, v), got in zip(val, res):
        if not isinstance(got, tuple) or len(got) != 2 or bool(got[0]) != ok:
            return False
        if ok and got[1] != v:
            return False
        if not ok and not (isinstance(got[1], Failure) and got[1].check(v)):
            return False
    return True


def run(sim):
    limit = sim.draw_choice([1, 1, 2, 3], "limit")
    is_lock = limit == 1 and not sim.draw_bool(0.4, "sem1")
    nops = sim.draw_int(3, 40 * sim.depth, "nops")
    reent_p = sim.draw_choice([0.0, 0.0, 0.25, 0.5], "reentrancy")
    with_p = sim.draw_choice([0.0, 0.3, 0.6], "async_with_share")
    drain = sim.draw_choice(["tasks", "full"], "drain")
    companion = sim.draw_choice(["none", "lock", "semaphore"], "companion")
    burst = sim.draw_int(8, LONG_QUEUE_MAX, "burst") if LONG_QUEUE_P and sim.draw_bool(LONG_QUEUE_P, "long_queue") else 0
    deep = bool(DEEP_QUEUE_P) and sim.draw_bool(DEEP_QUEUE_P, "deep_queue")
    if deep:
        burst = sim.draw_int(DEEP_HANDOVER, DEEP_QUEUE_MAX, "deep_burst")
        drain = "full"     # every holder releases in the end, so the batch is handed on for certain
        if _saved["limit"] is None:
            _saved["limit"] = sys.getrecursionlimit()
        sys.setrecursionlimit(_stack_depth() + DEEP_STACK_ROOM)
    sim.config = {"primitive": "lock" if is_lock else "semaphore", "limit": limit, "nops": nops, "reentrant": reent_p,
                  "async_with": with_p, "drain": drain, "companion": companion, "burst": burst, "deep": deep}
    prim = defer.DeferredLock() if is_lock else defer.DeferredSemaphore(limit)
    m = Model(limit)

    recs = {}            # id -> record
    order = []           # ids in creation order
    real_grants = []     # ids in the order their grant was observed on the real object
    real_holders = set()  # granted on the real object and not yet released by the harness / by run
    st = {"next": 0, "depth": 0, "draining": False, "burst": burst, "in_errback": 0, "op_grants": 0, "deep_handover": False}

    # ---- verdicts.  In a run in which one operation has handed the unit on through DEEP_HANDOVER or more queued requests, whatever
    # clause fails is reported as handover-recursion:<clause> (the listed known finding); no other run can carry that clause.
    def check(clause, cond, witness="", detail=""):
        if cond:
            return
        if st["deep_handover"]:
            sim.check("handover-recursion", False, clause, detail)
        sim.check(clause, False, witness, detail)

    class guard:
        def __init__(self, clause, witness):
            self.clause, self.witness = clause, witness

        def __enter__(self):
            return self

        def __exit__(self, et, ev, tb):
            if et is None or issubclass(et, Violation) or not issubclass(et, Exception) or issubclass(et, StepLimit):
                return False
            check(self.clause, False, "%s:%s" % (self.witness, et.__name__), "%s: %s" % (et.__name__, str(ev)[:200]))
            return False

    flags = {"waited_then_granted": 0, "special": 0}

    def new(kind, fmode=None, via=None):
        a = st["next"]
        st["next"] += 1
        recs[a] = {"kind": kind, "fmode": fmode, "via": via, "d": None, "res": [], "state": "new", "fd": None,
                   "subs": None, "sub_res": None, "f_calls": 0, "expect": None, "waited": False}
        order.append(a)
        return a

    # ---- a second, independent primitive that is alive at the same time (own requests, own model, driven in between the
    # operations on the first one): what belongs to one primitive - its capacity, its waiters - is its own
    climit = {"none": 0, "lock": 1, "semaphore": 2}[companion]
    cprim = None if companion == "none" else defer.DeferredLock() if companion == "lock" else defer.DeferredSemaphore(climit)
    cm = Model(climit)
    cgrants = []
    cst = {"next": 0}

    def check_companion():
        if cprim is None:
            return
        if companion == "lock":
            check("capacity-conserved", bool(cprim.locked) == (len(cm.holders) == 1), "companion",
                      lambda: "companion locked=%r model holders=%r" % (cprim.locked, cm.holders))
        else:
            check("capacity-conserved", cprim.tokens + len(cm.holders) == climit, "companion",
                      lambda: "companion tokens=%r limit=%d model holders=%r" % (cprim.tokens, climit, cm.holders))
        check("waiters-match", len(cprim.waiting) == len(cm.waiters), "companion",
                  lambda: "companion real waiting=%d model waiters=%r" % (len(cprim.waiting), cm.waiters))
        check("grants-match", cgrants == cm.grants, "companion",
                  lambda: "companion real grant order=%r model=%r" % (cgrants, cm.grants))

    def op_companion():
        sim.probe("companion_primitive_op")
        if cm.holders and sim.draw_bool(0.4, "companion-release"):
            h = cm.holders[0]
            nxt = cm.release(h)
            sim.event("companion-release", h, "next=%s" % (nxt if nxt is not None else "-"))
            with guard("op-raised", "release"):
                cprim.release()
        else:
            k = cst["next"]
            cst["next"] += 1
            granted = cm.acquire(k)
            sim.event("companion-acquire", k, "grant" if granted else "wait")
            with guard("op-raised", "acquire"):
                d = cprim.acquire()

            def got(res, k=k):
                check("fires-with-primitive", res is cprim, "companion", lambda: "companion acquisition %d fired with %r" % (k, type(res).__name__))
                cgrants.append(k)
            d.addCallback(got)

    def check_state(where, queue=True):
        check_companion()
        holders = len(m.holders)
        if is_lock:
            check("capacity-conserved", bool(prim.locked) == (holders == 1), where,
                      lambda: "locked=%r model holders=%r" % (prim.locked, m.holders))
        else:
            check("capacity-conserved", prim.tokens + holders == limit, where,
                      lambda: "tokens=%r limit=%d model holders=%r" % (prim.tokens, limit, m.holders))
        if queue and not st["in_errback"]:
            # (not while the errback of a cancelled acquisition is running: the statement says what such an acquisition must never
            # get, not at which moment the implementation forgets it - the comparison follows when the cancel() call is over)
            check("waiters-match", len(prim.waiting) == len(m.waiters), where,
                      lambda: "real waiting=%d model waiters=%r" % (len(prim.waiting), m.waiters))
        check("grants-match", real_grants == m.grants, where,
                  lambda: "real grant order=%r model=%r" % (real_grants, m.grants))
        check("holders-within-limit", len(real_holders) <= limit, where,
                  lambda: "real holders=%r limit=%d" % (sorted(real_holders), limit))

    def observed_grant(a, where):
        r = recs[a]
        sim.event("granted", a)
        st["op_grants"] += 1
        if st["op_grants"] == DEEP_HANDOVER:
            st["deep_handover"] = True
            sim.probe("deep_handover_100_or_more_grants_in_one_operation")
        real_holders.add(a)
        check("holders-within-limit", len(real_holders) <= limit, where,
                  lambda: "real holders=%r limit=%d" % (sorted(real_holders), limit))
        check("granted-in-request-order", a in m.holders and a not in real_grants, where,
                  lambda: "acquisition %d granted by the real object; model holders=%r waiters=%r already=%r"
                  % (a, m.holders, m.waiters, real_grants))
        real_grants.append(a)
        if r["waited"]:
            flags["waited_then_granted"] += 1
        r["state"] = "holding"

    def maybe_reenter(where, probe=None, queue=True):
        if reent_p and not st["draining"] and st["depth"] < 2 and sim.draw_bool(reent_p, "reenter"):
            st["depth"] += 1
            flags["special"] += 1
            sim.probe("reentrant_op")
            if probe:
                sim.probe(probe)
            if not queue:
                st["in_errback"] += 1
            try:
                check_state(where, queue)
                do_op(choose_op())
            finally:
                st["depth"] -= 1
                if not queue:
                    st["in_errback"] -= 1

    # ---- callbacks on real Deferreds
    def on_acquire_result(res, a):
        r = recs[a]
        r["res"].append(res)
        if isinstance(res, Failure):
            sim.event("acq-failed", a, res.type.__name__)
            check("cancelled-never-granted", res.check(defer.CancelledError) and r["state"] == "cancelled", "acquire",
                      lambda: "acquisition %d (state %s) failed with %r" % (a, r["state"], res.value))
            # the client that gave up reacts at once, from its errback (asks again, hands back what it holds, starts a run ...)
            maybe_reenter("in-cancel-errback", "reentrant_op_from_errback_of_cancelled_acquisition", queue=False)
            return None
        check("cancelled-never-granted", r["state"] != "cancelled", "acquire",
                  lambda: "cancelled acquisition %d was granted" % a)
        check("fires-with-primitive", res is prim, "acquire", lambda: "acquisition %d fired with %r" % (a, type(res).__name__))
        observed_grant(a, "acquire")
        maybe_reenter("in-grant-callback")
        return None

    def finish_run(a):
        """f's result becomes available now: the model releases a's unit."""
        m.release(a)
        real_holders.discard(a)
        recs[a]["state"] = "done"

    def make_f(a):
        def f(arg):
            r = recs[a]
            r["f_calls"] += 1
            where = "run" if r["via"] == "run" else "async-with"
            check("run-fn-called-once", r["f_calls"] == 1 and arg == a, where, lambda: "f of run %d called %d times" % (a, r["f_calls"]))
            check("cancelled-never-granted", r["state"] != "cancelled", where, lambda: "cancelled run %d had its function called" % a)
            observed_grant(a, where)
            r["state"] = "in_f"
            maybe_reenter("in-run-function")
            mode = r["fmode"]
            if mode == "value":
                r["expect"] = ("value", "v%d" % a)
                finish_run(a)
                return "v%d" % a
            if mode == "raise":
                r["expect"] = ("fail", BoomError)
                flags["special"] += 1
                finish_run(a)
                raise BoomError(a)
            if mode == "failure-returned":
                r["expect"] = ("fail", BoomError)
                flags["special"] += 1
                sim.probe("run_fn_returned_failure_object")
                finish_run(a)
                return Failure(BoomError(a))
            if mode == "fired":
                r["expect"] = ("value", "s%d" % a)
                finish_run(a)
                return defer.succeed("s%d" % a)
            if mode == "failed":
                r["expect"] = ("fail", BoomError)
                flags["special"] += 1
                finish_run(a)
                return defer.fail(BoomError(a))
            if mode in ("gather", "dlist"):
                n = sim.draw_choice([1, 2, 0], "nsubs")
                subs = [defer.Deferred() for _ in range(n)]
                if mode == "gather":
                    out = defer.gatherResults(subs, consumeErrors=True)
                else:
                    out = defer.DeferredList(subs, consumeErrors=True)
                sim.probe("run_fn_returned_deferred_subclass_instance")
                if n == 0:
                    # nothing to wait for: the DeferredList has already fired with []
                    r["expect"] = ("value", [])
                    finish_run(a)
                    return out
                r["subs"] = subs
                r["sub_res"] = [None] * n
                r["state"] = "async"
                return out
            if mode == "pending-canceller":
                fd = defer.Deferred(lambda d: d.callback("c%d" % a))
            elif mode == "pending-subclass":
                sim.probe("run_fn_returned_deferred_subclass_instance")
                fd = AppDeferred()
            else:
                fd = defer.Deferred()
            r["fd"] = fd
            r["state"] = "async"
            if mode == "pending-chained":
                sim.probe("run_fn_returned_called_but_pending_deferred")
                outer = defer.succeed("pre%d" % a)
                outer.addCallback(lambda _ignored: fd)
                return outer
            if mode == "coroutine":
                sim.probe("run_fn_returned_coroutine")

                async def co():
                    return "co:" + (await fd)
                return co()
            return fd
        return f

    def start_with(a):
        """A coroutine client: the critical section is the body of `async with prim:`."""
        f = make_f(a)

        async def task():
            async with prim as got:
                check("fires-with-primitive", got is prim, "async-with", lambda: "async with of %d bound %r" % (a, type(got).__name__))
                out = f(a)
                if isinstance(out, Failure):
                    out.raiseException()
                if isinstance(out, defer.Deferred) or hasattr(out, "cr_frame"):
                    out = await out
            return out
        return defer.Deferred.fromCoroutine(task())

    def on_run_result(res, a):
        r = recs[a]
        r["res"].append(res)
        where = "run" if r["via"] == "run" else "async-with"
        sim.event("run-result", a, _show(res))
        if r["state"] == "cancelled":
            check("cancelled-never-granted", isinstance(res, Failure) and res.check(defer.CancelledError) and r["f_calls"] == 0,
                      where, lambda: "cancelled queued run %d: result %r f_calls=%d" % (a, res, r["f_calls"]))
            maybe_reenter("in-cancel-errback", "reentrant_op_from_errback_of_cancelled_acquisition", queue=False)
            return None
        check("run-result-after-release", r["state"] == "done" and r["expect"] is not None, where,
                  lambda: "run %d delivered %r in state %s" % (a, res, r["state"]))
        check("run-result-is-fn-result", _matches(r["expect"], res), where, lambda: "run %d delivered %r expected %r" % (a, res, r["expect"]))
        # by now the unit has been returned: capacity must agree with the model
        check_state("at-run-result" if r["via"] == "run" else "at-async-with-result")
        # the caller's own callback on the result goes on using the primitive
        maybe_reenter("in-run-result-callback" if r["via"] == "run" else "in-async-with-result-callback", "reentrant_op_from_run_result_callback")
        return None

    # ---- operations
    def op_acquire():
        a = new("acq")
        granted = m.acquire(a)
        recs[a]["waited"] = not granted
        recs[a]["state"] = "waiting"
        sim.event("acquire", a, "grant" if granted else "wait")
        with guard("op-raised", "acquire"):
            d = prim.acquire()
        recs[a]["d"] = d
        d.addBoth(on_acquire_result, a)
        if granted:
            check("granted-when-free", a in real_grants, "acquire", lambda: "capacity free but acquisition %d did not fire" % a)
        else:
            check("no-early-grant", not recs[a]["res"], "acquire", lambda: "no capacity but acquisition %d fired" % a)

    def op_run(modes=F_MODES, fixed=None):
        fmode = fixed or sim.draw_weighted(modes, "fmode")
        via = "run" if fixed else "with" if with_p and sim.draw_bool(with_p, "via-async-with") else "run"
        a = new("run", fmode, via)
        granted = m.acquire(a)
        recs[a]["waited"] = not granted
        recs[a]["state"] = "waiting"
        sim.event(via, a, fmode, "grant" if granted else "wait")
        if via == "run":
            with guard("op-raised", "run"):
                d = prim.run(make_f(a), a)
        else:
            sim.probe("async_with_client")
            with guard("op-raised", "async-with"):
                d = start_with(a)
        recs[a]["d"] = d
        d.addBoth(on_run_result, a)
        if granted:
            check("granted-when-free", recs[a]["f_calls"] == 1, via, lambda: "capacity free but f of run %d not called" % a)
        else:
            check("no-early-grant", recs[a]["f_calls"] == 0 and not recs[a]["res"], via, lambda: "no capacity but run %d started" % a)

    def op_burst():
        # one client hands in a whole batch while nothing is free: the requests queue up behind the holders (and behind whatever
        # waits already); most are run() calls whose function has its result at once, so that one release later hands the unit
        # on through the whole batch in one go; a few hold on (plain acquisitions, results that come later)
        n = st["burst"]
        st["burst"] = 0
        if deep:
            # the deep batch: n identical run() calls, each with its result at once
            sim.probe("deep_queue_burst")
            fmode = sim.draw_weighted(SYNC_F_MODES, "deep-fmode")
            sim.event("deep-burst", n, fmode)
            for _ in range(n):
                op_run(fixed=fmode)
            return
        sim.probe("long_queue_burst")
        others = sim.draw_choice([0, 1, 3], "burst-others")   # 0: every request of the batch is a run() with an immediate result
        sim.event("burst", n, others)
        for _ in range(n):
            kind = sim.draw_weighted([("sync-run", 16), ("run", others), ("acquire", others)], "burst-kind") if others else "sync-run"
            if kind == "acquire":
                op_acquire()
            else:
                op_run(SYNC_F_MODES if kind == "sync-run" else F_MODES)
        if len(m.waiters) >= 32:
            sim.probe("queue_of_32_or_more")

    def releasable():
        return [a for a in order if recs[a]["kind"] == "acq" and recs[a]["state"] == "holding"]

    def resolvable():
        return [a for a in order if recs[a]["state"] == "async"]

    def op_release():
        a = sim.draw_choice(releasable(), "who")
        nxt = m.release(a)
        real_holders.discard(a)
        recs[a]["state"] = "released"
        sim.event("release", a, "next=%s" % (nxt if nxt is not None else "-"))
        with guard("op-raised", "release"):
            prim.release()
        if nxt is not None:
            check("granted-when-free", nxt in real_grants, "release", lambda: "release by %d: waiter %d not granted" % (a, nxt))

    def op_resolve(a=None):
        if a is None:
            a = sim.draw_choice(resolvable(), "which")
        ok = not sim.draw_bool(0.4, "fail")
        r = recs[a]
        if r["subs"] is not None:
            # one sub-operation of a gatherResults()/DeferredList() result fires
            unfired = [i for i, x in enumerate(r["sub_res"]) if x is None]
            i = sim.draw_choice(unfired, "sub")
            target = r["subs"][i]
            value = "r%d.%d" % (a, i)
            r["sub_res"][i] = (True, value) if ok else (False, BoomError)
            last = len(unfired) == 1
            if r["fmode"] == "gather":
                available = last or not ok
                expect = ("fail", defer.FirstError) if not ok else ("value", [x[1] for x in r["sub_res"]]) if last else None
            else:
                available = last
                expect = ("dlist", list(r["sub_res"]))
            sim.event("resolve-sub", a, i, "ok" if ok else "fail", "available" if available else "partial")
        else:
            target = r["fd"]
            value = "r%d" % a
            available = True
            prefix = "co:" if r["fmode"] == "coroutine" else ""
            expect = ("value", prefix + value) if ok else ("fail", BoomError)
            sim.event("resolve", a, "ok" if ok else "fail")
        flags["special"] += 1
        if available:
            r["expect"] = expect
            sim.probe("async_run_completed")
            finish_run(a)
        else:
            sim.probe("sub_operation_fired_result_still_outstanding")
        with guard("op-raised", "resolve"):
            if ok:
                target.callback(value)
            else:
                target.errback(BoomError(a))
        if available:
            check("run-completes", len(r["res"]) == 1, "resolve", lambda: "run %d has %d results after f's Deferred fired" % (a, len(r["res"])))

    def cancellable(a):
        r = recs[a]
        if r["d"] is None:
            return False
        if r["via"] == "with":
            # a coroutine task is cancelled only while it is suspended (or after it has finished), see ASSUMPTIONS
            return r["state"] in ("waiting", "async") or bool(r["res"])
        return True

    def op_cancel(a=None):
        cands = [a for a in order if cancellable(a)]
        pend = [a for a in cands if recs[a]["state"] == "waiting"]
        if a is not None:
            pass
        elif pend and not sim.draw_bool(0.3, "cancel-nonpending"):
            a = sim.draw_choice(pend, "which")
        else:
            a = sim.draw_choice(cands, "which")
        r = recs[a]
        state = r["state"]
        sim.event("cancel", a, r["kind"], r["via"] or "-", state)
        if state == "waiting":
            m.cancel_pending(a)
            r["state"] = "cancelled"
            flags["special"] += 1
            sim.probe("cancel_pending")
            if r["via"] == "with":
                sim.fault("cancel_task_waiting_to_enter_async_with")
            with guard("op-raised", "cancel"):
                r["d"].cancel()
            res = r["res"]
            check("cancel-fires-cancelled", len(res) == 1 and isinstance(res[0], Failure) and res[0].check(defer.CancelledError),
                      "cancel", lambda: "cancelled pending %d saw %r" % (a, res))
        elif state == "async":
            # cancelling run()'s Deferred (or the async-with task) while f's Deferred is outstanding cancels
            # f's Deferred; its result (CancelledError, or whatever its canceller
            # fires) is then available, so the unit is released
            if r["fmode"] == "pending-canceller":
                r["expect"] = ("value", "c%d" % a)
            elif r["fmode"] == "gather":
                # the DeferredList cancels its unfired sub-operations; the first CancelledError fires it (fireOnOneErrback)
                r["expect"] = ("fail", defer.FirstError)
            elif r["fmode"] == "dlist":
                r["expect"] = ("dlist", [x if x is not None else (False, defer.CancelledError) for x in r["sub_res"]])
            else:
                r["expect"] = ("fail", defer.CancelledError)
            flags["special"] += 1
            sim.probe("cancel_running_run")
            if r["via"] == "with":
                sim.fault("cancel_holder_inside_async_with")
            finish_run(a)
            with guard("op-raised", "cancel"):
                r["d"].cancel()
            check("run-completes", len(r["res"]) == 1, "cancel", lambda: "run %d has %d results after cancel" % (a, len(r["res"])))
        else:
            # granted / released / finished / already cancelled: must change nothing
            sim.probe("cancel_noop")
            before = len(r["res"])
            with guard("op-raised", "cancel"):
                r["d"].cancel()
            check("cancel-granted-is-noop", len(r["res"]) == before, "cancel", lambda: "acquisition %d (state %s) fired again on cancel" % (a, state))

    def choose_op():
        ops = [("acquire", 5), ("run", 5), ("release", 6 if releasable() else 0), ("resolve", 5 if resolvable() else 0),
               ("cancel", 2 if any(cancellable(a) for a in order) else 0), ("companion", 3 if cprim is not None else 0),
               ("burst", (40 if deep else 6) if st["burst"] and st["depth"] == 0 and len(m.holders) == limit else 0)]
        return sim.draw_weighted(ops, "op")

    def do_op(op):
        sim.step(400 * sim.depth)
        {"acquire": op_acquire, "run": op_run, "release": op_release, "resolve": op_resolve, "cancel": op_cancel,
         "companion": op_companion, "burst": op_burst}[op]()

    def after_op(where):
        if sim.violation is not None:
            raise sim.violation
        check_state(where)
        for a in order:
            r = recs[a]
            check("fires-once", len(r["res"]) <= 1, "any", lambda: "Deferred of %d fired %d times" % (a, len(r["res"])))
            if r["state"] == "waiting":
                check("no-early-grant", not r["res"] and r["f_calls"] == 0, "any", lambda: "waiting %d already fired" % a)
            if r["kind"] == "run" and r["state"] == "done":
                check("run-completes", len(r["res"]) == 1, "any", lambda: "finished run %d has no result" % a)

    for _ in range(nops):
        st["op_grants"] = 0
        do_op(choose_op())
        after_op("after-op")
        sim.state((len(m.holders), min(len(m.waiters), 4), min(len(resolvable()), 3), limit, is_lock))

    # ---- drain (no new requests, no re-entrant ops).  "tasks": every coroutine client is brought to its end - the ones inside
    # their block get their outstanding result, the ones still waiting to enter are cancelled - so that no suspended coroutine
    # is left behind; plain acquisitions and run() calls stay as they are.  "full": every outstanding result fires and every
    # holder releases; every acquisition still waiting is thereby granted in turn and drained as well; afterwards nothing
    # holds the primitive.
    st["draining"] = True
    if drain == "full":
        sim.probe("full_drain")
    while True:
        inside = [a for a in order if recs[a]["via"] == "with" and recs[a]["state"] == "async"]
        entering = [a for a in order if recs[a]["via"] == "with" and recs[a]["state"] == "waiting"]
        sim.step(800 * sim.depth)
        st["op_grants"] = 0
        if inside:
            op_resolve(inside[0])
        elif drain == "full" and resolvable():
            op_resolve()
        elif drain == "full" and releasable():
            op_release()
        elif entering:
            op_cancel(entering[0])
        else:
            break
        after_op("drain")
    if drain == "full":
        check("all-capacity-back-when-idle", not m.holders and not m.waiters and not prim.waiting
                  and (not prim.locked if is_lock else prim.tokens == limit), "drained",
                  lambda: "model holders=%r waiters=%r real waiting=%d %s" % (
                      m.holders, m.waiters, len(prim.waiting), ("locked=%r" % prim.locked) if is_lock else ("tokens=%r" % prim.tokens)))
        for a in order:
            r = recs[a]
            check("granted-when-free", r["state"] in ("released", "done", "cancelled") and (r["kind"] == "acq" or len(r["res"]) == 1),
                      "drained", lambda: "acquisition %d ended in state %s with %d results" % (a, r["state"], len(r["res"])))
    sim.nontrivial = bool(flags["waited_then_granted"] and flags["special"])


MUTANTS = [
    "defer.py DeferredLock.release: waiting.pop(0) -> waiting.pop() (LIFO)  -- caught: granted-in-request-order",
    "defer.py DeferredSemaphore.release: waiting.pop(0) -> waiting.pop() (LIFO)  -- caught: granted-in-request-order",
    "defer.py DeferredLock._cancelAcquire: waiting.remove(d) -> pass  -- caught: waiters-match / run-result-is-fn-result",
    "defer.py DeferredSemaphore._cancelAcquire: waiting.remove(d) -> pass  -- caught: waiters-match",
    "defer.py _ConcurrencyPrimitive.run: .addBoth(self._releaseAndReturn) -> .addCallback(...)  -- caught: capacity-conserved (at-run-result)",
    "defer.py _releaseAndReturn: release() twice  -- caught: run-result-is-fn-result / capacity-conserved / granted-in-request-order",
    "defer.py DeferredLock.release: hand-over without locked = True  -- caught: capacity-conserved / run-result-is-fn-result",
    "defer.py DeferredSemaphore.release: hand-over without taking the token back  -- caught: capacity-conserved",
    "defer.py DeferredSemaphore.acquire: waiting.append(d) -> waiting.insert(0, d)  -- caught: granted-in-request-order",
    "defer.py run.execute: release before calling f (self.release(); return maybeDeferred(f))  -- caught: capacity-conserved / granted-in-request-order",
    "defer.py DeferredSemaphore.acquire: 'if not self.tokens' -> 'if self.tokens < 0' (never waits)  -- caught: granted-in-request-order (holders-within-limit after reordering of the checks)",
    "defer.py maybeDeferred: 'type(result) in _DEFERRED_SUBCLASSES' -> 'type(result) is Deferred' (a DeferredList / application subclass returned by the run() function counts as a plain value)  -- caught: capacity-conserved (after-op) / holders-within-limit",
    "defer.py maybeDeferred: coroutine branch disabled ('elif False:')  -- caught: run-result-after-release / holders-within-limit",
    "defer.py _ConcurrencyPrimitive.__aexit__: release() only when the block is left without an exception  -- caught: capacity-conserved / waiters-match (at-async-with-result)",
    "defer.py _ConcurrencyPrimitive.__aenter__: succeed(self) instead of acquire()  -- caught: holders-within-limit (async-with) / capacity-conserved",
    "seeded C06-r5a (run() unrolls maybeDeferred and recognises only the exact Deferred type)  -- caught: capacity-conserved (after-op) / holders-within-limit (run, acquire)",
    "seeded C06-r5b (__aexit__ skips release() when the block is left by CancelledError)  -- caught: capacity-conserved / waiters-match (at-async-with-result)",
    "seeded C06-r6b (the canceller fails the cancelled acquisition itself and only then takes it out of the queue: a release() issued from its errback grants the dead entry)  -- caught: op-raised:release:AlreadyCalledError / run-result-is-fn-result (needs the re-entrant operations from the errback of a cancelled acquisition)",
    "defer.py DeferredLock/DeferredSemaphore._cancelAcquire: remove the entry only after d.errback(CancelledError()) (own mutant of the same kind)  -- caught: op-raised:release:AlreadyCalledError",
]

FINDINGS = [
    "GENUINE, KNOWN (known_findings.json: C06:handover-recursion:*; witness tape [0, 2, 0, 0, 0, 0, 0, 0, 1, 25, 0, 0, 5] = lock, one plain "
    "acquisition, deep burst of 125 run(value) calls, full drain -> C06:handover-recursion:grants-match).  The hand-over from a finished "
    "synchronous run() to the next queued one is a nested call (release -> grant callback -> run.execute -> f -> _releaseAndReturn -> release "
    "...), about 8 interpreter frames per queued request; with about 125 queued the stack is exhausted inside a hand-over: release() has "
    "taken the unit back (locked = True / tokens -= 1) and popped the waiter, the RecursionError is swallowed into one run()'s Failure (its "
    "function never ran), nobody holds the unit, the rest of the queue is never granted.  Stand-alone: p = DeferredLock(); p.acquire(); "
    "130 x p.run(lambda: i); p.release() -> 124 functions called, one run fails with RecursionError, 5 waiters stranded, p.locked stays True "
    "(DeferredSemaphore(1) likewise, tokens == 0).  Source: defer.py _ConcurrencyPrimitive.run.execute / _releaseAndReturn, "
    "DeferredLock.release, DeferredSemaphore.release.  Not repaired: an iterative hand-over moves the moment of the nested grant behind the "
    "previous run's result callbacks (seeded change C06-r4a is a faulty version of it).  Signatures seen: handover-recursion:grants-match, "
    ":waiters-match, :run-result-is-fn-result, :run-result-after-release (which clause notices first depends on the batch).",
]


def _freeze_heap():
    # fork-pool hygiene, see props/_timers.freeze_heap: keep the first full GC in each
    # worker from copy-on-write faulting the whole inherited heap
    import gc
    gc.collect()
    gc.freeze()


_freeze_heap()
