"""C06 — DeferredLock / DeferredSemaphore are safe, fair and lose no capacity.

Engine E1 (tasks): logical clients interleave acquire / release-by-holder /
cancel (of pending, granted, finished acquisitions) / run(f) (f returns, raises,
returns a Deferred fired later with success or failure, or already fired) /
resolve-f's-Deferred / cancel-of-run on one real DeferredLock or
DeferredSemaphore(1..3); a fraction of runs also issues operations re-entrantly
from inside a grant callback or from inside f.  The tape picks every operation.

Oracle: an independent FIFO reference model (ordered holders, ordered waiters,
grant log).  The model is advanced immediately *before* each atomic real
operation; every real grant callback checks that the model has already granted
exactly that acquisition; after every operation (and at every re-entry point)
the real capacity attributes, the waiter count, and the grant log are compared
with the model.
"""
from twisted.internet import defer
from twisted.python.failure import Failure

ID = "C06"
ENGINE = "tasks"
LEVEL = "exploration"
TECHNIQUE = "deterministic simulation: seeded interleaving of client operations on a real lock/semaphore vs reference FIFO capacity model"
QUICK_RUNS = 48000
TWIN_P = 0.1   # a tenth of the runs drive two primitives one after the other (see detsim.runner._run_scenario)
USES_DEPTH = True   # thorough tier: history length bound scales with sim.depth (1..3) beyond the quick tier\'s run indices
BATCH = 400
COMPONENTS = {"real": ["twisted.internet.defer.DeferredLock", "twisted.internet.defer.DeferredSemaphore",
                       "twisted.internet.defer._ConcurrencyPrimitive.run", "twisted.internet.defer.Deferred",
                       "twisted.internet.defer.maybeDeferred"],
              "stub": ["order in which independent clients issue operations (tape)",
                       "the functions passed to run() and the moment their Deferreds fire (tape)"]}
RULE = ("run = up to 40 tape-chosen operations (acquire / release by a holder / cancel of any acquisition or run Deferred / "
        "run(f) with f in {value, raise, fired Deferred, failed Deferred, pending Deferred, pending Deferred with a canceller} / "
        "fire a pending f Deferred with success or failure / the same issued re-entrantly from a grant callback or from inside f) "
        "on a DeferredLock or DeferredSemaphore(1..3); non-trivial = some acquisition had to wait and was granted later AND "
        "(a pending acquisition was cancelled, or a run() function failed, or an async run completed, or a re-entrant op occurred)")
ASSUMPTIONS = ["release() is only called by a current holder obtained through acquire() (run() releases for itself)",
               "functions passed to run() do not release the primitive themselves"]


class BoomError(Exception):
    pass


class Model:
    """Reference: `limit` units of capacity, FIFO of waiting acquisition ids."""

    def __init__(self, limit):
        self.limit = limit
        self.holders = []
        self.waiters = []
        self.grants = []  # every acquisition ever granted, in grant order

    def acquire(self, a):
        if len(self.holders) < self.limit:
            self.holders.append(a)
            self.grants.append(a)
            return True
        self.waiters.append(a)
        return False

    def release(self, a):
        self.holders.remove(a)
        if self.waiters:
            w = self.waiters.pop(0)
            self.holders.append(w)
            self.grants.append(w)
            return w
        return None

    def cancel_pending(self, a):
        self.waiters.remove(a)


# "pending-chained": f returns a Deferred that has already been called back but whose callback chain is waiting on another,
# unfired Deferred (`called` is true, there is no result yet) - f's result is available only when that inner Deferred fires
F_MODES = [("value", 4), ("raise", 3), ("pending", 6), ("fired", 2), ("failed", 2), ("pending-canceller", 2), ("pending-chained", 3)]


def run(sim):
    limit = sim.draw_choice([1, 1, 2, 3], "limit")
    is_lock = limit == 1 and not sim.draw_bool(0.4, "sem1")
    nops = sim.draw_int(3, 40 * sim.depth, "nops")
    reent_p = sim.draw_choice([0.0, 0.0, 0.25, 0.5], "reentrancy")
    sim.config = {"primitive": "lock" if is_lock else "semaphore", "limit": limit, "nops": nops, "reentrant": reent_p}
    prim = defer.DeferredLock() if is_lock else defer.DeferredSemaphore(limit)
    m = Model(limit)

    recs = {}            # id -> record
    order = []           # ids in creation order
    real_grants = []     # ids in the order their grant was observed on the real object
    real_holders = set()  # granted on the real object and not yet released by the harness / by run
    st = {"next": 0, "depth": 0}
    flags = {"waited_then_granted": 0, "special": 0}

    def new(kind, fmode=None):
        a = st["next"]
        st["next"] += 1
        recs[a] = {"kind": kind, "fmode": fmode, "d": None, "res": [], "state": "new", "fd": None,
                   "f_calls": 0, "expect": None, "waited": False}
        order.append(a)
        return a

    def check_state(where):
        holders = len(m.holders)
        if is_lock:
            sim.check("capacity-conserved", bool(prim.locked) == (holders == 1), where,
                      lambda: "locked=%r model holders=%r" % (prim.locked, m.holders))
        else:
            sim.check("capacity-conserved", prim.tokens + holders == limit, where,
                      lambda: "tokens=%r limit=%d model holders=%r" % (prim.tokens, limit, m.holders))
        sim.check("waiters-match", len(prim.waiting) == len(m.waiters), where,
                  lambda: "real waiting=%d model waiters=%r" % (len(prim.waiting), m.waiters))
        sim.check("grants-match", real_grants == m.grants, where,
                  lambda: "real grant order=%r model=%r" % (real_grants, m.grants))
        sim.check("holders-within-limit", len(real_holders) <= limit, where,
                  lambda: "real holders=%r limit=%d" % (sorted(real_holders), limit))

    def observed_grant(a, where):
        r = recs[a]
        sim.event("granted", a)
        real_holders.add(a)
        sim.check("holders-within-limit", len(real_holders) <= limit, where,
                  lambda: "real holders=%r limit=%d" % (sorted(real_holders), limit))
        sim.check("granted-in-request-order", a in m.holders and a not in real_grants, where,
                  lambda: "acquisition %d granted by the real object; model holders=%r waiters=%r already=%r"
                  % (a, m.holders, m.waiters, real_grants))
        real_grants.append(a)
        if r["waited"]:
            flags["waited_then_granted"] += 1
        r["state"] = "holding"

    def maybe_reenter(where):
        if reent_p and st["depth"] < 2 and sim.draw_bool(reent_p, "reenter"):
            st["depth"] += 1
            flags["special"] += 1
            sim.probe("reentrant_op")
            try:
                check_state(where)
                do_op(choose_op())
            finally:
                st["depth"] -= 1

    # ---- callbacks on real Deferreds
    def on_acquire_result(res, a):
        r = recs[a]
        r["res"].append(res)
        if isinstance(res, Failure):
            sim.event("acq-failed", a, res.type.__name__)
            sim.check("cancelled-never-granted", res.check(defer.CancelledError) and r["state"] == "cancelled", "acquire",
                      lambda: "acquisition %d (state %s) failed with %r" % (a, r["state"], res.value))
            return None
        sim.check("cancelled-never-granted", r["state"] != "cancelled", "acquire",
                  lambda: "cancelled acquisition %d was granted" % a)
        sim.check("fires-with-primitive", res is prim, "acquire", lambda: "acquisition %d fired with %r" % (a, type(res).__name__))
        observed_grant(a, "acquire")
        maybe_reenter("in-grant-callback")
        return None

    def finish_run(a):
        """f's result becomes available now: the model releases a's unit."""
        m.release(a)
        real_holders.discard(a)
        recs[a]["state"] = "done"

    def make_f(a):
        def f(arg):
            r = recs[a]
            r["f_calls"] += 1
            sim.check("run-fn-called-once", r["f_calls"] == 1 and arg == a, "run", lambda: "f of run %d called %d times" % (a, r["f_calls"]))
            sim.check("cancelled-never-granted", r["state"] != "cancelled", "run", lambda: "cancelled run %d had its function called" % a)
            observed_grant(a, "run")
            r["state"] = "in_f"
            maybe_reenter("in-run-function")
            mode = r["fmode"]
            if mode == "value":
                r["expect"] = ("value", "v%d" % a)
                finish_run(a)
                return "v%d" % a
            if mode == "raise":
                r["expect"] = ("fail", BoomError)
                flags["special"] += 1
                finish_run(a)
                raise BoomError(a)
            if mode == "fired":
                r["expect"] = ("value", "s%d" % a)
                finish_run(a)
                return defer.succeed("s%d" % a)
            if mode == "failed":
                r["expect"] = ("fail", BoomError)
                flags["special"] += 1
                finish_run(a)
                return defer.fail(BoomError(a))
            if mode == "pending-canceller":
                fd = defer.Deferred(lambda d: d.callback("c%d" % a))
            else:
                fd = defer.Deferred()
            r["fd"] = fd
            r["state"] = "async"
            if mode == "pending-chained":
                sim.probe("run_fn_returned_called_but_pending_deferred")
                outer = defer.succeed("pre%d" % a)
                outer.addCallback(lambda _ignored: fd)
                return outer
            return fd
        return f

    def on_run_result(res, a):
        r = recs[a]
        r["res"].append(res)
        sim.event("run-result", a, "F:" + res.type.__name__ if isinstance(res, Failure) else res)
        if r["state"] == "cancelled":
            sim.check("cancelled-never-granted", isinstance(res, Failure) and res.check(defer.CancelledError) and r["f_calls"] == 0,
                      "run", lambda: "cancelled queued run %d: result %r f_calls=%d" % (a, res, r["f_calls"]))
            return None
        sim.check("run-result-after-release", r["state"] == "done" and r["expect"] is not None, "run",
                  lambda: "run %d delivered %r in state %s" % (a, res, r["state"]))
        kind, val = r["expect"]
        if kind == "value":
            ok = res == val
        else:
            ok = isinstance(res, Failure) and res.check(val)
        sim.check("run-result-is-fn-result", ok, "run", lambda: "run %d delivered %r expected %r" % (a, res, r["expect"]))
        # by now the unit has been returned: capacity must agree with the model
        check_state("at-run-result")
        return None

    # ---- operations
    def op_acquire():
        a = new("acq")
        granted = m.acquire(a)
        recs[a]["waited"] = not granted
        recs[a]["state"] = "waiting"
        sim.event("acquire", a, "grant" if granted else "wait")
        with sim.guard("op-raised", "acquire"):
            d = prim.acquire()
        recs[a]["d"] = d
        d.addBoth(on_acquire_result, a)
        if granted:
            sim.check("granted-when-free", a in real_grants, "acquire", lambda: "capacity free but acquisition %d did not fire" % a)
        else:
            sim.check("no-early-grant", not recs[a]["res"], "acquire", lambda: "no capacity but acquisition %d fired" % a)

    def op_run():
        fmode = sim.draw_weighted(F_MODES, "fmode")
        a = new("run", fmode)
        granted = m.acquire(a)
        recs[a]["waited"] = not granted
        recs[a]["state"] = "waiting"
        sim.event("run", a, fmode, "grant" if granted else "wait")
        with sim.guard("op-raised", "run"):
            d = prim.run(make_f(a), a)
        recs[a]["d"] = d
        d.addBoth(on_run_result, a)
        if granted:
            sim.check("granted-when-free", recs[a]["f_calls"] == 1, "run", lambda: "capacity free but f of run %d not called" % a)
        else:
            sim.check("no-early-grant", recs[a]["f_calls"] == 0 and not recs[a]["res"], "run", lambda: "no capacity but run %d started" % a)

    def releasable():
        return [a for a in order if recs[a]["kind"] == "acq" and recs[a]["state"] == "holding"]

    def resolvable():
        return [a for a in order if recs[a]["state"] == "async"]

    def op_release():
        a = sim.draw_choice(releasable(), "who")
        nxt = m.release(a)
        real_holders.discard(a)
        recs[a]["state"] = "released"
        sim.event("release", a, "next=%s" % (nxt if nxt is not None else "-"))
        with sim.guard("op-raised", "release"):
            prim.release()
        if nxt is not None:
            sim.check("granted-when-free", nxt in real_grants, "release", lambda: "release by %d: waiter %d not granted" % (a, nxt))

    def op_resolve():
        a = sim.draw_choice(resolvable(), "which")
        ok = not sim.draw_bool(0.4, "fail")
        r = recs[a]
        fd = r["fd"]
        r["expect"] = ("value", "r%d" % a) if ok else ("fail", BoomError)
        sim.event("resolve", a, "ok" if ok else "fail")
        flags["special"] += 1
        sim.probe("async_run_completed")
        finish_run(a)
        with sim.guard("op-raised", "resolve"):
            if ok:
                fd.callback("r%d" % a)
            else:
                fd.errback(BoomError(a))
        sim.check("run-completes", len(r["res"]) == 1, "resolve", lambda: "run %d has %d results after f's Deferred fired" % (a, len(r["res"])))

    def op_cancel():
        cands = [a for a in order if recs[a]["d"] is not None]
        pend = [a for a in cands if recs[a]["state"] == "waiting"]
        if pend and not sim.draw_bool(0.3, "cancel-nonpending"):
            a = sim.draw_choice(pend, "which")
        else:
            a = sim.draw_choice(cands, "which")
        r = recs[a]
        state = r["state"]
        sim.event("cancel", a, r["kind"], state)
        if state == "waiting":
            m.cancel_pending(a)
            r["state"] = "cancelled"
            flags["special"] += 1
            sim.probe("cancel_pending")
            with sim.guard("op-raised", "cancel"):
                r["d"].cancel()
            res = r["res"]
            sim.check("cancel-fires-cancelled", len(res) == 1 and isinstance(res[0], Failure) and res[0].check(defer.CancelledError),
                      "cancel", lambda: "cancelled pending %d saw %r" % (a, res))
        elif state == "async":
            # cancelling run()'s Deferred while f's Deferred is outstanding cancels
            # f's Deferred; its result (CancelledError, or whatever its canceller
            # fires) is then available, so the unit is released
            r["expect"] = ("value", "c%d" % a) if r["fmode"] == "pending-canceller" else ("fail", defer.CancelledError)
            flags["special"] += 1
            sim.probe("cancel_running_run")
            finish_run(a)
            with sim.guard("op-raised", "cancel"):
                r["d"].cancel()
            sim.check("run-completes", len(r["res"]) == 1, "cancel", lambda: "run %d has %d results after cancel" % (a, len(r["res"])))
        else:
            # granted / released / finished / already cancelled: must change nothing
            sim.probe("cancel_noop")
            before = len(r["res"])
            with sim.guard("op-raised", "cancel"):
                r["d"].cancel()
            sim.check("cancel-granted-is-noop", len(r["res"]) == before, "cancel", lambda: "acquisition %d (state %s) fired again on cancel" % (a, state))

    def choose_op():
        ops = [("acquire", 5), ("run", 5), ("release", 6 if releasable() else 0), ("resolve", 5 if resolvable() else 0),
               ("cancel", 2 if any(recs[a]["d"] is not None for a in order) else 0)]
        return sim.draw_weighted(ops, "op")

    def do_op(op):
        sim.step(400 * sim.depth)
        {"acquire": op_acquire, "run": op_run, "release": op_release, "resolve": op_resolve, "cancel": op_cancel}[op]()

    for _ in range(nops):
        do_op(choose_op())
        if sim.violation is not None:
            raise sim.violation
        check_state("after-op")
        for a in order:
            r = recs[a]
            sim.check("fires-once", len(r["res"]) <= 1, "any", lambda: "Deferred of %d fired %d times" % (a, len(r["res"])))
            if r["state"] == "waiting":
                sim.check("no-early-grant", not r["res"] and r["f_calls"] == 0, "any", lambda: "waiting %d already fired" % a)
            if r["kind"] == "run" and r["state"] == "done":
                sim.check("run-completes", len(r["res"]) == 1, "any", lambda: "finished run %d has no result" % a)
        sim.state((len(m.holders), min(len(m.waiters), 4), min(len(resolvable()), 3), limit, is_lock))
    sim.nontrivial = bool(flags["waited_then_granted"] and flags["special"])


MUTANTS = [
    "defer.py DeferredLock.release: waiting.pop(0) -> waiting.pop() (LIFO)  -- caught: granted-in-request-order",
    "defer.py DeferredSemaphore.release: waiting.pop(0) -> waiting.pop() (LIFO)  -- caught: granted-in-request-order",
    "defer.py DeferredLock._cancelAcquire: waiting.remove(d) -> pass  -- caught: waiters-match / run-result-is-fn-result",
    "defer.py DeferredSemaphore._cancelAcquire: waiting.remove(d) -> pass  -- caught: waiters-match",
    "defer.py _ConcurrencyPrimitive.run: .addBoth(self._releaseAndReturn) -> .addCallback(...)  -- caught: capacity-conserved (at-run-result)",
    "defer.py _releaseAndReturn: release() twice  -- caught: run-result-is-fn-result / capacity-conserved / granted-in-request-order",
    "defer.py DeferredLock.release: hand-over without locked = True  -- caught: capacity-conserved / run-result-is-fn-result",
    "defer.py DeferredSemaphore.release: hand-over without taking the token back  -- caught: capacity-conserved",
    "defer.py DeferredSemaphore.acquire: waiting.append(d) -> waiting.insert(0, d)  -- caught: granted-in-request-order",
    "defer.py run.execute: release before calling f (self.release(); return maybeDeferred(f))  -- caught: capacity-conserved / granted-in-request-order",
    "defer.py DeferredSemaphore.acquire: 'if not self.tokens' -> 'if self.tokens < 0' (never waits)  -- caught: granted-in-request-order (holders-within-limit after reordering of the checks)",
]


def _freeze_heap():
    # fork-pool hygiene, see props/_timers.freeze_heap: keep the first full GC in each
    # worker from copy-on-write faulting the whole inherited heap
    import gc
    gc.collect()
    gc.freeze()


_freeze_heap()
