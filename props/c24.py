"""C24 — HTTP client requests serialise to exactly the intended message.

Engine E3 (net): a real twisted.web._newclient.Request is written with
Request.writeTo onto a detsim.net.SimTransport whose send buffer has a small,
tape-chosen high-water mark (so the transport pauses/resumes the body producer).
The body comes from a scripted IBodyProducer (known or unknown length) that
writes tape-chosen pieces synchronously inside startProducing and/or later at
tape-chosen steps (small pieces of 0..300 bytes; in a share BIG_P of the runs one
of the pieces is large: a size at, one below, one above, a little above or 1.5x a
power of two between 1 KiB and 256 KiB, i.e. up to 384 KiB handed over in ONE
consumer.write(), its content different in every KiB), honours pause/resume,
and ends by finishing, failing, writing too few / too many bytes, or being
cancelled (stopWriting / Deferred.cancel) at any step.  Methods, targets and header sets are drawn from grammars that include
invalid bytes in method/target.  In a share HISTORY_P of the runs the request under test is not the first traffic of the process:
one to four small earlier requests (own Request objects and transports) take their method, target and a header value from ONE
shared pool of byte strings, so that the same bytes are a target in one request and a method in another (or were refused in
one role before being used, validly, in the other), each of them judged by itself; the request under test then re-uses, in
60% of these runs, values of the earlier ones as its method and/or target, whatever role they played there.

Oracle (independent parser = h11 in server role, plus raw-byte assertions):
  * invalid method/target -> ValueError (from the constructor, from writeTo, or
    as the writeTo failure) and nothing was written, producer never started;
  * otherwise, when production ends normally, the bytes written parse as exactly
    one request with that method, target, header set and body, framed with
    Content-Length (known length) or chunked (unknown length), nothing trailing;
    the writeTo Deferred fired exactly once with None;
  * producer failure -> Deferred fails with that error; an unknown-length body
    is then NOT terminated (h11 sees no end of message);
  * wrong-length producers -> WrongBodyLength; never more than `length` body
    bytes on the wire, and they are a prefix of what the producer wrote;
  * after a cancel the Deferred fires at most once and the wire is still a
    well-formed prefix of the intended request;
  * the Deferred never fires twice; once it fired the transport has no producer
    registered.

Finding with its own signature (`empty-write-ends-chunked-body:unknown-length`),
genuine defect of the tree as first examined, REPAIRED in /repo b6df22e:
ChunkedEncoder.write(b"") emitted "0\r\n\r\n", i.e. an empty write() by a producer
of unknown length terminated the request body early and the rest of the body (or
at least a second terminator) followed the request as garbage.  In 15% of the
unknown-length runs the generator still avoids empty pieces (knob
avoid_empty_writes, kept for dev-time comparison); the others let them in.
"""
import h11
from zope.interface import implementer

from twisted.internet import defer
from twisted.python.failure import Failure
from twisted.web import _newclient
from twisted.web.http_headers import Headers
from twisted.web.iweb import IBodyProducer, UNKNOWN_LENGTH
from detsim import net

ID = "C24"
ENGINE = "net"
LEVEL = "exploration"
TECHNIQUE = ("deterministic simulation: real Request.writeTo with a scripted asynchronous IBodyProducer under simulated transport "
             "back-pressure/cancel; bytes parsed by h11 (server role) against the intended request")
QUICK_RUNS = 250000
BIG_P = 0.01    # share of the body-carrying runs in which one piece of the body is large (1 KiB .. 384 KiB)
HISTORY_P = 0.12   # share of the runs in which a few earlier requests of the same process precede the request under test
TWIN_P = 0.08   # this share of the runs drives two independent instances of the scenario one after the other (detsim.runner._run_scenario)
BATCH = 1000
RUN_WALL_LIMIT_S = 120   # runs take milliseconds; generous so that an overloaded host is not mistaken for a hang
COMPONENTS = {"real": ["twisted.web._newclient.Request (writeTo, _writeHeaders, _writeToBodyProducer*, stopWriting)",
                       "twisted.web._newclient.ChunkedEncoder", "twisted.web._newclient.LengthEnforcingConsumer",
                       "twisted.web._newclient._ensureValidMethod/_ensureValidURI", "twisted.web.http_headers.Headers"],
              "stub": ["TCP transport with send-buffer high-water mark (detsim.net.SimTransport)", "scripted IBodyProducer", "h11 as the independent parser"]}
RULE = ("run = one request: drawn method/target (valid or with one invalid byte), header set, body kind (none/known/unknown length), producer script "
        "(sync/async pieces of 0..300 bytes, in 1% of the runs plus ONE large piece of 2^k-1 / 2^k / 2^k+1 / 2^k+few / 1.5*2^k bytes, k=10..18, "
        "written in a single consumer.write() synchronously or later, for known and unknown length; end = finish/fail/short/excess/cancel), "
        "transport hwm and drain schedule; in 12% of the runs preceded by 1..4 small earlier requests of the same process whose method, target and a header "
        "value come from one shared pool of byte strings (same bytes in different roles, valid in one and invalid in the other), the request under test "
        "then re-using their values as its method/target in 60% of these; module-level containers of the modules under test are put back to their import-time "
        "contents when a run starts, so that a run depends on its tape only; non-trivial = a body producer ran and "
        "(it was paused by the transport, or produced asynchronously, or ended abnormally) or the method/target was invalid")
ASSUMPTIONS = ["header names are tokens and values contain no CR/LF/NUL (the statement quantifies over valid header sets); exactly one Host header",
               "the producer honours pauseProducing (does not write while paused)",
               "how a producer splits its body into write() calls is its own business: any single write of up to a few hundred KiB is a valid delivery "
               "(the statement quantifies over bodies, not over deliveries), and the wire may split or coalesce it into chunks as it likes as long as "
               "the independent parser reads the same body back",
               "whether a method or target is refused depends on that byte string and the role it plays in that request only, not on what other "
               "requests of the process used before (the statement quantifies over methods and targets, not over process histories)"]

TOKEN = b"!#$%&'*+-.^_`|~0123456789ABCDEFGHIJKLMNOPQRSTUVWXYZabcdefghijklmnopqrstuvwxyz"
BAD_METHOD_BYTES = [b" ", b"\r", b"\n", b"\x00", b"\x7f", b"\x80", b"\xff", b"(", b")", b",", b"/", b":", b";", b"<", b"=", b">", b"?", b"@",
                    b"[", b"\\", b"]", b"{", b"}", b'"', b"\t"]
BAD_TARGET_BYTES = [b" ", b"\r", b"\n", b"\x00", b"\x7f", b"\x80", b"\xff", b"\t", b"\x1f"]


def method_valid(m):
    return len(m) > 0 and all(c in TOKEN for c in m)


def target_valid(u):
    return len(u) > 0 and all(0x21 <= c <= 0x7E for c in u)


class BoomError(Exception):
    pass


@implementer(IBodyProducer)
class Producer:
    def __init__(self, sim, length):
        self.sim = sim
        self.length = length
        self.consumer = None
        self.d = None
        self.started = 0
        self.paused = False
        self.stopped = 0
        self.cancelled = 0
        self.written = []          # pieces whose write() returned normally
        self.big = None            # the one large piece of this run, if any
        self.in_start = False
        self.write_raised = []
        self.log = []

    def startProducing(self, consumer):
        self.started += 1
        self.consumer = consumer
        d = self.d = defer.Deferred(self._cancel)
        left = []
        self.in_start = True
        for piece in self.sync_pieces:
            if self.paused or self.stopped or left:
                left.append(piece)      # the transport paused us mid-way: the rest is produced later
                continue
            self.write(piece)
        self.in_start = False
        self.deferred_pieces[:0] = left
        if self.sync_end is not None and not self.deferred_pieces:
            self.end(self.sync_end)
        return d

    def write(self, piece):
        self.sim.event("produce", len(piece))
        if piece is self.big:
            n = len(piece)
            self.sim.probe("large_piece_%s_length_%s" % ("unknown" if self.length is UNKNOWN_LENGTH else "known", "sync" if self.in_start else "later"))
            self.sim.probe("large_piece_" + ("upto_4KiB" if n <= 4096 else "upto_64KiB" if n <= 65536 else "above_64KiB"))
        try:
            self.consumer.write(piece)
        except _newclient.ExcessWrite:
            self.write_raised.append("ExcessWrite")
            return
        self.written.append(piece)

    def _cancel(self, d):
        self.cancelled += 1
        self.d = None
        self.log.append("cancelled")

    def end(self, how):
        d, self.d = self.d, None
        self.sim.event("producer-end", how)
        if how == "finish":
            d.callback(None)
        else:
            d.errback(Failure(BoomError("producer failed")))

    def pauseProducing(self):
        self.paused = True
        self.log.append("pause")

    def resumeProducing(self):
        self.paused = False
        self.log.append("resume")

    def stopProducing(self):
        self.stopped += 1
        self.log.append("stop")


def gen_headers(sim):
    hs = []
    n = sim.draw_int(0, 4, "nhdr")
    for _ in range(n):
        name = sim.draw_choice([b"X-A", b"x-b", b"Accept", b"User-Agent", b"X_Under!Score", b"Cookie", b"X-A"], "hname")
        value = sim.draw_choice([b"1", b"two words", b"", b"a\tb", b"v" * 80, b"caf\xe9", b"k=v; q=0.5", b"  padded  ", b"a,b"], "hval")
        hs.append((name, value))
    return hs


def gen_method(sim):
    m = sim.draw_choice([b"GET", b"POST", b"PUT", b"HEAD", b"DELETE", b"M-SEARCH", b"get", b"X!#$%&'*+.^_`|~9"], "method")
    if sim.draw_bool(0.12, "bad_method"):
        bad = sim.draw_choice(BAD_METHOD_BYTES, "badbyte")
        i = sim.draw_int(0, len(m), "badpos")
        m = m[:i] + bad + m[i:]
    return m


def gen_target(sim):
    u = sim.draw_choice([b"/", b"/a/b?c=d&e=%20", b"*", b"http://h.example:80/p", b"/~user/!$&'()*+,;=:@", b"/" + b"x" * 120], "target")
    if sim.draw_bool(0.12, "bad_target"):
        bad = sim.draw_choice(BAD_TARGET_BYTES, "badbyte")
        i = sim.draw_int(0, len(u), "badpos")
        u = u[:i] + bad + u[i:]
    return u


_allocator_tuned = []


def tune_allocator():
    """Performance only (no effect on what a run does): with glibc's default settings every buffer above 128 KiB is mmap()ed and
    unmapped again and the heap top is trimmed after each run, which costs ~10 ms of page faults per large piece on the
    verification host; raise the thresholds once per process so that large buffers are recycled from the heap."""
    if _allocator_tuned:
        return
    _allocator_tuned.append(True)
    try:
        import ctypes
        libc = ctypes.CDLL(None)
        libc.mallopt(-3, 32 << 20)    # M_MMAP_THRESHOLD
        libc.mallopt(-1, 256 << 20)   # M_TRIM_THRESHOLD
        libc.mallopt(-2, 8 << 20)     # M_TOP_PAD
    except Exception:
        pass


def big_piece(sim, ln):
    """ln bytes that are cheap to draw yet differ from one KiB to the next (every KiB starts with its own offset in hex), so that
    a slice taken at the wrong offset, repeated or left out changes the body; the filler contains CR LF and digits, so that a
    parser which lost the framing finds things that look like chunk headers."""
    tune_allocator()
    unit = sim.draw_bytes(5, b"ab\r\n0")
    buf = bytearray((unit * (ln // 5 + 1))[:ln])
    for off in range(0, ln - 8, 1024):
        buf[off:off + 8] = b"%08x" % off
    return bytes(buf)


def brief(b):
    """repr of a byte string for a violation detail (large bodies abbreviated)."""
    return repr(b) if len(b) <= 200 else "%r...%r (%d bytes)" % (b[:80], b[-40:], len(b))


def differ(a, b):
    n = min(len(a), len(b))
    i = next((i for i in range(n) if a[i] != b[i]), n)
    return "first difference at offset %d" % i


def h11_parse(wire):
    """Feed the wire to an h11 server; return (request|None, body, complete, error, trailing)."""
    conn = h11.Connection(h11.SERVER, max_incomplete_event_size=1 << 20)
    conn.receive_data(wire)
    req, body, complete, err = None, b"", False, None
    try:
        while True:
            ev = conn.next_event()
            if ev is h11.NEED_DATA or ev is h11.PAUSED:
                break
            if isinstance(ev, h11.Request):
                req = ev
            elif isinstance(ev, h11.Data):
                body += bytes(ev.data)
            elif isinstance(ev, h11.EndOfMessage):
                complete = True
                break
            else:
                break
    except h11.RemoteProtocolError as e:
        err = str(e)
    trailing = bytes(conn.trailing_data[0]) if complete else b""
    return req, body, complete, err, trailing


def strip_ows(v):
    return v.strip(b" \t")


# Byte strings that a process meets in more than one role: each of them is a method in one request, a target in another and a
# header value in a third.  Whether a request is refused depends on the value and the role it plays in THAT request only.
SHARED_POOL = [b"GET", b"/", b"*", b"OPTIONS", b"/index.html", b"http://h.example:80/p", b"k=v", b"a,b", b"x:y", b"(x)", b"/a?b=c",
               b"two words", b"caf\xe9", b"sim.example", b"X-A", b""]


def history(sim):
    """Earlier traffic of the same process: a few small requests (own Request objects, own transports) whose method, target and
    one header value are drawn from one shared pool, so that the same byte string is met as a target here and as a method there
    (and the other way round, and after having been refused in one role).  Every one of them is held to the statement by
    itself; returns the byte strings used, in order of first use."""
    sim.probe("earlier_requests_in_process")
    seen = []
    for i in range(sim.draw_int(1, 4, "nhist")):
        m = sim.draw_choice(SHARED_POOL, "hist-method")
        u = sim.draw_choice(SHARED_POOL[1:] + SHARED_POOL[:1], "hist-target")
        v = sim.draw_choice(SHARED_POOL[11:] + SHARED_POOL[:11], "hist-hval")
        late = sim.draw_bool(0.3, "hist-late")
        mv, uv = method_valid(m), target_valid(u)
        for role, x in (("method", m), ("target", u), ("hval", v)):
            if any(x == y and role != r for r, y in seen):
                sim.probe("value_met_again_in_another_role")
        if not mv and any(m == y and r == "target" and target_valid(y) for r, y in seen):
            sim.probe("invalid_method_equal_to_earlier_valid_target")
        if (mv and any(m == y and r == "target" and not target_valid(y) for r, y in seen)) or \
                (uv and any(u == y and r == "method" and not method_valid(y) for r, y in seen)):
            sim.probe("valid_value_equal_to_one_refused_earlier_in_the_other_role")
        hdrs = Headers()
        hdrs.addRawHeader(b"Host", b"sim.example")
        if v:
            hdrs.addRawHeader(b"X-Earlier", v)
        t = net.SimTransport(sim, "h%d" % i)
        refused, res, r = False, [], None
        if late:
            with sim.guard("valid-request-refused", "history-constructor"):
                r = _newclient.Request(b"GET", b"/", hdrs, None)
            r.method, r.uri = m, u
        try:
            if not late:
                r = _newclient.Request(m, u, hdrs, None)
            r.writeTo(t).addBoth(res.append)
            if res and isinstance(res[0], Failure):
                refused = res[0].check(ValueError) is not None
        except ValueError:
            refused = True
        except Exception as e:
            sim.fail("writeTo-raised", "history:" + type(e).__name__, "earlier request method=%r target=%r: %s" % (m, u, str(e)[:120]))
        sim.event("earlier", m, u, v, "late" if late else "ctor", "refused" if refused else "written")
        if mv and uv:
            sim.check("valid-request-accepted", not refused, "history", lambda: "refused valid method=%r target=%r; earlier in this process: %r" % (m, u, seen))
            ev, body, complete, err, trailing = h11_parse(bytes(t.written))
            sim.check("parses", ev is not None and err is None and complete and not trailing, "history", lambda: "h11: %r wire %r" % (err, bytes(t.written)[:80]))
            sim.check("request-line", bytes(ev.method) == m and bytes(ev.target) == u, "history",
                      lambda: "wire carries %r %r, intended %r %r" % (bytes(ev.method), bytes(ev.target), m, u))
            want = sorted([(b"host", b"sim.example")] + ([(b"x-earlier", strip_ows(v))] if v else []))
            got = sorted((bytes(n), bytes(x)) for n, x in ev.headers if bytes(n) != b"connection")
            sim.check("headers-equal", got == want, "history", lambda: "parsed %r intended %r" % (got, want))
        else:
            sim.check("invalid-refused", refused and not t.written, "history-" + ("method" if not mv else "target"),
                      lambda: "method=%r target=%r was not refused; wire %r; earlier in this process: %r" % (m, u, bytes(t.written)[:80], seen))
        seen += [("method", m), ("target", u), ("hval", v)]
    out = []
    for _, x in seen:
        if x not in out:
            out.append(x)
    return out


# Module-level containers and memoised functions of the modules under test, with their contents at import time.  A run must be a
# function of its tape: whatever earlier runs of a warm worker left in them is removed when a run starts (once per run, so the
# two instances of a twin run and the earlier requests of history() still share a process the way real requests do), and a
# violation that needs such state carries the traffic that built it in its own tape and replays in a fresh interpreter.
_PRISTINE = []
_MEMOISED = []
for _m in (_newclient, __import__("twisted.web.http_headers", fromlist=["x"])):
    for _k, _v in sorted(vars(_m).items()):
        if _k.startswith("__"):
            continue
        if type(_v) in (dict, set, list):
            _PRISTINE.append((_v, type(_v)(_v)))
        elif callable(getattr(_v, "cache_clear", None)) and getattr(_v, "__module__", None) == _m.__name__:
            _MEMOISED.append(_v)


def reset_process_state(sim):
    if getattr(sim, "c24_process_state_reset", False):
        return
    sim.c24_process_state_reset = True
    for live, copy in _PRISTINE:
        if type(live) is list:
            live[:] = copy
        else:
            live.clear()
            live.update(copy)
    for f in _MEMOISED:
        f.cache_clear()


def run(sim):
    # process-global mutable state (header-name cache) must not leak between runs in a warm worker
    reset_process_state(sim)
    try:
        from twisted.web import http_headers as _hh
        _hh._nameEncoder._canonicalHeaderCache.clear()
    except AttributeError:
        pass
    earlier = history(sim) if sim.draw_bool(HISTORY_P, "history") else []
    method = gen_method(sim)
    target = gen_target(sim)
    headers = gen_headers(sim)
    if earlier and sim.draw_bool(0.6, "cross_role"):
        # the request under test re-uses byte strings that earlier requests of this process used, in whatever role
        which = sim.draw_choice(["method", "target", "both"], "cross_which")
        if which != "target":
            method = sim.draw_choice(earlier, "cross-method")
        if which != "method":
            target = sim.draw_choice(earlier, "cross-target")
        sim.probe("request_reuses_earlier_values")
    persistent = sim.draw_bool(0.5, "persistent")
    kind = sim.draw_weighted([("known", 4), ("unknown", 4), ("none", 2)], "body")
    mvalid, tvalid = method_valid(method), target_valid(target)
    late_corrupt = sim.draw_bool(0.5, "late_corrupt")   # invalid value assigned after construction
    hwm = sim.draw_choice([None, 0, 8, 40, 200], "hwm")

    # ---- producer script
    prod = None
    body_pieces = []
    end = "finish"
    if kind != "none":
        npieces = sim.draw_int(0, 6, "npieces")
        for _ in range(npieces):
            ln = sim.draw_weighted([(1, 2), (3, 3), (10, 3), (50, 2), (300, 1), (0, 1)], "plen")
            body_pieces.append(sim.draw_bytes(ln, b"ab\r\n0;\x00\xff") if ln <= 10 else (sim.draw_bytes(5, b"ab\r\n0") * (ln // 5 + 1))[:ln])
        # at most one large piece per run (so that runs stay short): a size at, just below, just above or well above a power of two,
        # from 1 KiB up to a few hundred KiB - the sizes at which buffers, slices and size fields of the code under test change regime
        big = None
        if sim.draw_bool(BIG_P, "big_piece"):
            base = 1 << sim.draw_int(10, 18, "big_pow")
            delta = sim.draw_choice(["exact", "plus1", "minus1", "plus_few", "plus_half"], "big_delta")
            ln = base + {"exact": 0, "plus1": 1, "minus1": -1, "plus_few": 0, "plus_half": base >> 1}[delta]
            if delta == "plus_few":
                ln += sim.draw_int(2, 300, "big_few")
            big = big_piece(sim, ln)
            body_pieces.insert(sim.draw_int(0, len(body_pieces), "big_pos"), big)
        total = sum(len(p) for p in body_pieces)
        if kind == "known":
            end = sim.draw_weighted([("finish", 6), ("fail", 2), ("short", 1), ("excess", 1), ("cancel", 2)], "end")
            length = total
            if end == "short":
                length = total + sim.draw_int(1, 5, "short_by")
            elif end == "excess":
                if total == 0:
                    body_pieces.append(b"x")
                    total = 1
                length = total - sim.draw_int(1, min(total, 5), "excess_by")
        else:
            end = sim.draw_weighted([("finish", 6), ("fail", 2), ("cancel", 2)], "end")
            length = UNKNOWN_LENGTH
        avoid_empty = kind == "unknown" and sim.draw_bool(0.15, "avoid_empty_writes")
        if avoid_empty:
            body_pieces = [p for p in body_pieces if p]
        prod = Producer(sim, length)
        prod.big = big
        nsync = sim.draw_int(0, len(body_pieces), "nsync")
        prod.sync_pieces = body_pieces[:nsync]
        prod.deferred_pieces = list(body_pieces[nsync:])
        prod.sync_end = None
        if nsync == len(body_pieces) and end in ("finish", "fail", "short", "excess") and sim.draw_bool(0.5, "sync_end"):
            prod.sync_end = "fail" if end == "fail" else "finish"
    # The application's own header set may name a framing header.  Only the combination the statement decides is generated:
    # a body of unknown length (must be sent with chunked coding, whatever Content-Length the application mentions;
    # Transfer-Encoding overrides Content-Length for every RFC 9112 recipient).  A Content-Length that contradicts a
    # known-length producer, or one on a request without a body, is the caller's own inconsistency: not generated.
    app_cl = None
    if kind == "unknown" and sim.draw_bool(0.15, "app_content_length"):
        app_cl = b"%d" % sim.draw_choice([0, 1, 5, 1000], "app_cl")
        headers.insert(sim.draw_int(0, len(headers), "app_cl_pos"), (sim.draw_choice([b"Content-Length", b"content-length"], "app_cl_name"), app_cl))
        sim.probe("application_supplied_content_length")
    sim.config = {"method_valid": mvalid, "target_valid": tvalid, "body": kind, "end": end, "hwm": hwm, "persistent": persistent,
                  "npieces": len(body_pieces), "empty_pieces": sum(1 for p in body_pieces if not p),
                  "large_piece": len(prod.big) if prod is not None and prod.big is not None else 0}
    sim.event("request", method, target, kind, end, "hwm=%s" % hwm, "late" if late_corrupt else "ctor")
    for n, v in headers:
        sim.event("header", n, v)

    t = net.SimTransport(sim, "client", hwm=hwm)
    hdrs = Headers()
    hdrs.addRawHeader(b"Host", b"sim.example")
    for n, v in headers:
        hdrs.addRawHeader(n, v)

    # ---- construct (invalid values either given to the constructor or assigned afterwards)
    results = []
    refused = None
    req = None
    if mvalid and tvalid:
        with sim.guard("valid-request-refused", "constructor"):
            req = _newclient.Request(method, target, hdrs, prod, persistent=persistent)
    elif late_corrupt:
        with sim.guard("valid-request-refused", "constructor"):
            req = _newclient.Request(b"GET", b"/", hdrs, prod, persistent=persistent)
        req.method, req.uri = method, target
    else:
        try:
            req = _newclient.Request(method, target, hdrs, prod, persistent=persistent)
        except ValueError:
            refused = "constructor"
        except Exception as e:
            sim.fail("invalid-refused-with-ValueError", "constructor:" + type(e).__name__, "method=%r target=%r: %s" % (method, target, e))
    d = None
    if req is not None:
        try:
            d = req.writeTo(t)
        except ValueError:
            refused = "writeTo"
        except Exception as e:
            sim.fail("writeTo-raised", type(e).__name__, "method=%r target=%r: %s" % (method, target, str(e)[:200]))
        if d is not None:
            d.addBoth(lambda r: results.append(r))

    if not (mvalid and tvalid):
        sim.probe("invalid_method" if not mvalid else "invalid_target")
        if d is not None and results and isinstance(results[0], Failure) and results[0].check(ValueError):
            refused = "deferred"
        sim.check("invalid-refused", refused is not None, "method" if not mvalid else "target",
                  "method=%r target=%r was not refused (results=%d)" % (method, target, len(results)))
        sim.check("nothing-written-when-refused", not t.written, "wire", "wrote %r for method=%r target=%r" % (bytes(t.written), method, target))
        sim.check("producer-not-started-when-refused", prod is None or prod.started == 0, "producer", "startProducing called for refused request")
        sim.nontrivial = True
        return
    sim.check("valid-request-accepted", d is not None, "writeTo", "writeTo refused valid method=%r target=%r" % (method, target))

    # ---- reference: the intended head
    def check_head(req_ev):
        sim.check("method-equal", req_ev.method == method, "head", "parsed %r intended %r" % (req_ev.method, method))
        sim.check("target-equal", req_ev.target == target, "head", "parsed %r intended %r" % (req_ev.target, target))
        sim.check("version-1.1", req_ev.http_version == b"1.1", "head", "version %r" % (req_ev.http_version,))
        got = [(bytes(n), bytes(v)) for n, v in req_ev.headers]
        framing = [(n, v) for n, v in got if n in (b"content-length", b"transfer-encoding")]
        conn = [(n, v) for n, v in got if n == b"connection"]
        rest = sorted((n, v) for n, v in got if n not in (b"content-length", b"transfer-encoding", b"connection"))
        want = sorted([(b"host", b"sim.example")] + [(n.lower(), strip_ows(v)) for n, v in headers if n.lower() != b"content-length"])
        sim.check("headers-equal", rest == want, "head", lambda: "parsed %r intended %r" % (rest, want))
        if kind == "known":
            sim.check("framing", framing == [(b"content-length", b"%d" % prod.length)], "known-length", "framing headers %r length %r" % (framing, prod.length))
        elif kind == "unknown":
            # the application's own Content-Length, if any, may be passed on or dropped (no verdict); chunked coding must be announced
            others = [f for f in framing if f != (b"transfer-encoding", b"chunked")]
            sim.check("framing", (b"transfer-encoding", b"chunked") in framing and all(f == (b"content-length", app_cl) for f in others),
                      "unknown-length", "framing headers %r" % (framing,))
        else:
            okf = framing == [] or (framing == [(b"content-length", b"0")])
            sim.check("framing", okf, "no-body", "framing headers %r" % (framing,))
        sim.check("connection-header", conn == ([] if persistent else [(b"connection", b"close")]), "head", "connection headers %r persistent=%r" % (conn, persistent))

    def fired_once():
        sim.check("fires-at-most-once", len(results) <= 1, "deferred", "writeTo Deferred results x%d" % len(results))

    if kind == "none":
        sim.check("bodyless-fires-now", len(results) == 1 and results[0] is None, "deferred", "results x%d" % len(results))
        req_ev, body, complete, err, trailing = h11_parse(bytes(t.written))
        sim.check("parses", err is None and req_ev is not None and complete, "no-body", lambda: "h11: err=%r complete=%r wire=%r" % (err, complete, bytes(t.written)[:300]))
        check_head(req_ev)
        sim.check("body-equal", body == b"" and trailing == b"", "no-body", "body %r trailing %r" % (body, trailing))
        sim.nontrivial = False
        return

    # ---- asynchronous phase
    sim.check("producer-started-once", prod.started == 1, "producer", "startProducing x%d" % prod.started)
    cancelled = [None]
    flags = {"async": 0}

    for _ in range(200):
        sim.step(400)
        fired_once()
        can_write = bool(prod.deferred_pieces) and not prod.paused and not prod.stopped and prod.d is not None
        can_end = not prod.deferred_pieces and prod.d is not None and not prod.stopped
        can_drain = bool(t.out)
        can_cancel = end == "cancel" and cancelled[0] is None and not results and prod.d is not None
        ops = [("write", 6 if can_write else 0), ("end", 6 if can_end and end != "cancel" else 0),
               ("drain", 5 if can_drain else 0), ("cancel", (2 if prod.deferred_pieces else 8) if can_cancel else 0)]
        if not any(w for _, w in ops):
            break
        op = sim.draw_weighted(ops, "op")
        if op == "write":
            flags["async"] += 1
            prod.write(prod.deferred_pieces.pop(0))
        elif op == "end":
            flags["async"] += 1
            prod.end("fail" if end == "fail" else "finish")
        elif op == "drain":
            n = sim.draw_choice([None, 1, 5, 30], "drain_n")
            sim.event("drain", n if n else "all")
            if n is None or n >= len(t.out):
                t.take()
            else:
                del t.out[:n]
                t._drained()
        else:
            how = sim.draw_choice(["stopWriting", "cancel"], "cancel_how")
            cancelled[0] = how
            sim.fault("cancel_" + how)
            sim.event("cancel", how)
            with sim.guard("cancel-raised", how):
                if how == "stopWriting":
                    req.stopWriting()
                else:
                    d.cancel()
            prod.d = None               # a stopped/cancelled producer produces nothing more and never fires its Deferred itself
        if "pause" in prod.log:
            sim.probe("producer_paused_by_transport")
    fired_once()

    wire = bytes(t.written)
    sent = b"".join(prod.written)
    req_ev, body, complete, err, trailing = h11_parse(wire)
    sim.check("parses", err is None and req_ev is not None, kind, lambda: "h11: err=%r wire=%r" % (err, wire[:300]))
    check_head(req_ev)
    res = results[0] if results else None
    sim.state((kind, end, cancelled[0], prod.sync_end, hwm, bool(prod.log), len(body_pieces) > 0))

    if kind == "unknown" and any(len(p) == 0 for p in prod.written):
        sim.probe("empty_write_unknown_length")
        i = [len(p) for p in prod.written].index(0)
        before = b"".join(prod.written[:i])
        later = b"".join(prod.written[i:])
        if complete and body == before and (later or end == "fail" or cancelled[0] is not None or trailing):
            # own signature: an empty write() by the producer is encoded as the terminating zero-length chunk
            sim.fail("empty-write-ends-chunked-body", "unknown-length",
                     "producer wrote pieces of sizes %r then %s; h11 sees a complete request with body %r (intended %r) and trailing bytes %r"
                     % ([len(p) for p in prod.written], cancelled[0] or end, body, sent, trailing[:60]))
    if cancelled[0] is not None:
        # the Deferred need not fire; if it did, not with success unless the body was complete
        sim.check("cancel-reaches-producer", prod.stopped >= 1 or prod.cancelled >= 1, cancelled[0], "producer neither stopped nor cancelled after %s" % cancelled[0])
        sim.check("cancelled-never-succeeds", not results or isinstance(res, Failure), cancelled[0], lambda: "results %s" % show(results))
        sim.check("cancelled-body-is-prefix", sent.startswith(body), kind, lambda: "wire body %s not a prefix of produced %s (%s)" % (brief(body), brief(sent), differ(body, sent)))
        if kind == "unknown":
            sim.check("cancelled-body-not-terminated", not complete, kind, lambda: "cancelled unknown-length body was terminated: %r" % wire[-40:])
    elif end == "finish" and (kind == "unknown" or prod.length == len(b"".join(body_pieces))):
        sim.check("success-fires-none", results == [None], kind, lambda: "results %s" % show(results))
        sim.check("message-complete", complete, kind, lambda: "h11 saw no end of message; wire tail %r" % wire[-40:])
        sim.check("body-equal", body == sent, kind, lambda: "parsed body %s intended %s (%s)" % (brief(body), brief(sent), differ(body, sent)))
        sim.check("nothing-trailing", trailing == b"", kind, lambda: "bytes after the request: %r" % trailing[:80])
    elif end == "fail":
        sim.check("producer-failure-propagates", len(results) == 1 and isinstance(res, Failure) and res.check(BoomError) is not None, kind,
                  lambda: "results %s" % show(results))
        if kind == "unknown":
            sim.check("failed-body-not-terminated", not complete, kind, lambda: "failed unknown-length body was terminated: %r" % wire[-40:])
        else:
            sim.check("body-prefix", sent.startswith(body), kind, lambda: "wire body %s not a prefix of produced %s (%s)" % (brief(body), brief(sent), differ(body, sent)))
    else:  # short / excess (known length only)
        sim.check("wrong-length-reported", len(results) == 1 and isinstance(res, Failure) and res.check(_newclient.WrongBodyLength) is not None,
                  end, lambda: "results %s (length=%r produced=%d)" % (show(results), prod.length, len(b"".join(body_pieces))))
        sim.check("no-extra-bytes", len(body) <= prod.length and b"".join(body_pieces).startswith(body) and trailing == b"", end,
                  lambda: "wire body %s (declared %d) produced %s trailing %r" % (brief(body), prod.length, brief(b"".join(body_pieces)), trailing[:80]))
        if end == "excess":
            sim.check("excess-stops-producer", prod.stopped >= 1, end, "stopProducing not called on excess write")
    if results:
        sim.check("producer-unregistered", t.producer is None, kind, "transport still has a producer registered after writeTo fired")
    sim.nontrivial = bool(prod.log or flags["async"] or end != "finish")
    if sim.draw_bool(0.15, "reissue"):
        reissue(sim)


REISSUE_METHODS = [b"PUT", b"DELETE", b"M-SEARCH", b"GE T", b"GET\r\nX: y", b"", b"P\x00ST", b"/first"]   # the last one: the value just sent as the target
REISSUE_TARGETS = [b"/second?x=1", b"*", b"/a%20b", b"/a b", b"/x\r\nHost: evil", b"/t\n", b"/\x7f"]


def reissue(sim):
    """The same Request object written twice with its public method / uri reassigned in between: the second write
    must carry (or refuse) the values the object holds at that moment."""
    sim.probe("request_object_reissued")
    with sim.guard("valid-request-refused", "reissue-constructor"):
        r = _newclient.Request(b"GET", b"/first", Headers({b"host": [b"sim.example"]}), None)
    t1 = net.SimTransport(sim, "c1")
    with sim.guard("writeTo-raised", "first-write"):
        r.writeTo(t1)
    m = sim.draw_choice([b"GET"] + REISSUE_METHODS, "re-method")
    u = sim.draw_choice([b"/first"] + REISSUE_TARGETS, "re-target")
    r.method, r.uri = m, u
    valid = bool(m) and all(0x21 <= c <= 0x7e and c not in b'"(),/:;<=>?@[\\]{}' for c in m) and bool(u) and all(0x21 <= c <= 0x7e for c in u)
    t2 = net.SimTransport(sim, "c2")
    refused = False
    res = []
    try:
        d = r.writeTo(t2)
        d.addBoth(res.append)
        if res and isinstance(res[0], Failure):
            refused = res[0].check(ValueError) is not None
    except ValueError:
        refused = True
    except Exception as e:
        sim.fail("writeTo-raised", type(e).__name__, "re-issue with method=%r target=%r: %s" % (m, u, str(e)[:120]))
    sim.event("reissue", m, u, "refused" if refused else "written")
    if not valid:
        sim.check("invalid-refused", refused and not t2.written, "reissue", lambda: "re-issued request with method=%r target=%r was not refused; wire %r" % (m, u, bytes(t2.written)[:80]))
    else:
        sim.check("valid-request-accepted", not refused, "reissue", "re-issue refused valid method=%r target=%r" % (m, u))
        req, body, complete, err, trailing = h11_parse(bytes(t2.written))
        sim.check("parses", req is not None and err is None and complete, "reissue", lambda: "h11: %r wire %r" % (err, bytes(t2.written)[:80]))
        sim.check("request-line", bytes(req.method) == m and bytes(req.target) == u, "reissue",
                  lambda: "second write carries %r %r, the object holds %r %r" % (bytes(req.method), bytes(req.target), m, u))


def show(results):
    out = []
    for r in results:
        out.append("Failure(%s: %s)" % (r.type.__name__, str(r.value)[:60]) if isinstance(r, Failure) else repr(r))
    return "[" + ", ".join(out) + "]"


MUTANTS = [
    "(all run on top of the fix for the empty-write finding - since in /repo b6df22e - so that only the mutant can fail)",
    "tree as first examined (b6df22e reverted): ChunkedEncoder.write(b'') writes the terminating chunk -> caught (empty-write-ends-chunked-body:unknown-length) [genuine, REPAIRED in /repo b6df22e]",
    "_newclient.py ChunkedEncoder.unregisterProducer: final 0 CRLF CRLF missing -> caught (message-complete:unknown)",
    "_newclient.py _writeToBodyProducerChunked: Content-Length emitted together with chunked -> caught (framing:unknown-length)",
    "_newclient.py _writeHeaders: method/target not re-validated at write time -> caught (invalid-refused:method/target)",
    "_newclient.py _VALID_URI allows SP -> caught (invalid-refused:target)",
    "_newclient.py LengthEnforcingConsumer.write: excess bytes forwarded -> caught (no-extra-bytes:excess)",
    "_newclient.py _noMoreWritesExpected: short body not reported -> caught (wrong-length-reported:short)",
    "_newclient.py ebProduced: failed chunked body still terminated -> caught (failed-body-not-terminated / cancelled-body-not-terminated)",
    "_newclient.py _writeHeaders: Connection: close condition inverted -> caught (connection-header:head)",
    "_newclient.py ChunkedEncoder.write: chunk size in decimal -> caught (parses / message-complete)",
    "_newclient.py _writeToBodyProducerContentLength: producer left registered -> caught (producer-unregistered:known)",
    "(large-piece family, round 4)",
    "_newclient.py ChunkedEncoder.write: a write above 64 KiB emitted as several chunks each announcing the size of the whole write -> caught (parses:unknown)",
    "_newclient.py ChunkedEncoder.write: chunk size masked to 16 bits -> caught (parses:unknown)",
    "_newclient.py ChunkedEncoder.write: chunk size line keeps only its last 4 hex digits -> caught (parses:unknown)",
    "_newclient.py ChunkedEncoder.write: one byte lost at offset 32 KiB of a chunk -> caught (parses:unknown)",
    "_newclient.py LengthEnforcingConsumer.write: at most 128 KiB of one write forwarded -> caught (message-complete:known / body-prefix:known / no-extra-bytes:short)",
    "(process-history family, round 5: the same byte strings in different roles across the requests of one process)",
    "_newclient.py _ensureValidMethod/_ensureValidURI share one module-level memo of values that passed (a target seen before is accepted as a method) "
    "-> caught (invalid-refused:history-method / invalid-refused:method / invalid-refused:reissue)",
    "_newclient.py _ensureValidMethod/_ensureValidURI share one module-level set of values refused before (a value refused as a method is refused as a target "
    "ever after) -> caught (valid-request-accepted:history / valid-request-refused:constructor / valid-request-refused:history-constructor)",
]
