"""Shared driver for C08 (ReactorBase timed calls) and C09 (task.Clock).

The scenario owns: the population of calls (abstract ids), the tape-chosen
operations on them (callLater / cancel / reset / delay, from the top level or
from inside a running call), and the comparison of the implementation's
observable behaviour with models.timers.TimerModel.  Subclasses supply the
real object and the "pass" operation (reactor iteration / Clock.advance).

All times are multiples of 1/8 (dyadic), so float arithmetic is exact and the
model's scheduled times can be compared with ``==``.  A scenario may switch on a
finer time grid for a run (attribute ``fine_unit``, a power of two below 1/8,
default None = off): every drawn delay is then a multiple of either 1/8 or of
that unit (one extra draw per delay, made only when the knob is on), so clock
positions and remaining times are no longer whole milliseconds but still exact.

Scripted call behaviour "fails": with a per-run probability (knob ``raise_p``,
0 in a third of the runs) a timed call ends by raising ScriptedFailure after it
has done its in-call operations - an application bug in a timed callable.  What
the failure means for the pass is for the subclass to say (a reactor logs it and
carries on with the iteration; task.Clock lets it reach the caller of advance()).
The knob is drawn when the first call of the run finishes, not with the rest of
the configuration, so that the earlier draws of a run keep their tape positions.
"""
from twisted.internet import error

from detsim.sim import Violation, StepLimit
from models.timers import TimerModel

EIGHTH = 0.125


class ScriptedFailure(Exception):
    """Raised on purpose by a timed call whose scripted behaviour is "fails"."""


def freeze_heap():
    """Fork-pool hygiene, called once at import of a scenario module (i.e. in the
    parent, before the runner forks its workers): park every object that exists now
    in the permanent GC generation.  Otherwise the first full collection in each
    worker writes to the GC header of every inherited object and copy-on-write
    faults the whole inherited heap; on this VM that costs seconds per worker when
    16 workers do it at once and has tripped the 20 s per-run watchdog.  No effect
    on what a run does."""
    import gc
    gc.collect()
    gc.freeze()


class TimerScenario:
    mode = None          # "reactor" | "clock"
    STEP_CAP = 4000
    RAISE_CHOICES = (0.0, 0.1, 0.3)   # per-run probability that a timed call ends by raising
    fine_unit = None     # optional finer time grid of the run (a power of two < 1/8); None = every time is a multiple of 1/8

    def __init__(self, sim):
        self.sim = sim
        self.m = TimerModel(self.mode)
        self.dcs = {}        # cid -> DelayedCall handle
        self.order = []      # cids in creation order
        self.next_cid = 0
        self.draining = False
        self.harness_exc = None
        self.inner_p = 0.0
        self.dead_p = 0.15
        self.max_calls = 60
        self.raise_p = None  # drawn from RAISE_CHOICES when the first call finishes
        self.counts = {"inner": 0, "cancel": 0, "resched": 0, "ran": 0, "dead_ops": 0, "passes_with_runs": 0, "raised": 0}

    # ---- supplied by subclasses
    def impl_call_later(self, delay, fn, cid):
        raise NotImplementedError

    def impl_delayed_calls(self):
        raise NotImplementedError

    def impl_seconds(self):
        raise NotImplementedError

    # ---- helpers
    def chk(self, problems, where):
        for clause, detail in problems:
            self.sim.check(clause, False, where, detail)

    def reraise(self):
        """Failures raised inside a timed call may be swallowed by the code under
        test (the reactor logs them); surface them here."""
        if self.sim.violation is not None:
            raise self.sim.violation
        if self.harness_exc is not None:
            e, self.harness_exc = self.harness_exc, None
            raise e

    def draw_delay(self, label, hi=64):
        # 0 .. hi/8 seconds, biased to small values and to collisions
        sim = self.sim
        kind = sim.draw_weighted([("small", 5), ("zero", 2), ("wide", 3)], label)
        if kind == "zero":
            return 0.0
        if kind == "small":
            return sim.draw_int(1, 8, label) * self.draw_unit()
        return sim.draw_int(1, hi, label) * self.draw_unit()

    def draw_unit(self):
        """The unit a drawn number of time steps is counted in: 1/8 s, or - only in runs with the fine grid switched on -
        by tape the run's finer unit (the mixture leaves the clock and the scheduled times at positions like k/8 + j/1024)."""
        if self.fine_unit is None or not self.sim.draw_bool(0.6, "fine-unit"):
            return EIGHTH
        self.sim.probe("fine_grained_time_step")
        return self.fine_unit

    def pick(self, label):
        """A call id: usually a pending one, sometimes any (dead ones included)."""
        sim = self.sim
        pend = self.m.pending_ids()
        if pend and not sim.draw_bool(self.dead_p, "any-target"):
            return sim.draw_choice(pend, label)
        return sim.draw_choice(self.order, label)

    def check_views(self, where):
        sim, m = self.sim, self.m
        sim.check("clock-reads-model-time", self.impl_seconds() == m.now, where,
                  lambda: "seconds()=%r model now=%r" % (self.impl_seconds(), m.now))
        listed = sorted(getattr(dc, "_cid", -1) for dc in self.impl_delayed_calls())
        pend = m.pending_ids()
        sim.check("getDelayedCalls-exact", listed == pend, where,
                  lambda: "getDelayedCalls=%r model pending=%r" % (listed, pend))
        for cid in pend:
            t = self.dcs[cid].getTime()
            sim.check("scheduled-time", t == m.time_of(cid), where,
                      lambda: "call %d getTime()=%r model=%r" % (cid, t, m.time_of(cid)))
            sim.check("active-flag", self.dcs[cid].active(), where, lambda: "pending call %d not active()" % cid)

    # ---- the function every timed call runs
    def fire(self, cid):
        try:
            self._fire(cid)
        except (Violation, StepLimit, ScriptedFailure):
            raise
        except BaseException as e:  # harness bug inside a call: do not let the reactor hide it
            if self.harness_exc is None:
                self.harness_exc = e
            raise

    def _fire(self, cid):
        sim, m = self.sim, self.m
        sim.step(self.STEP_CAP * self.sim.depth)
        sim.event("ran", cid, m.now)
        self.counts["ran"] += 1
        self.chk(m.ran(cid), "in-call")
        self.check_views("in-call")
        if not self.draining and self.inner_p:
            n = 0
            while n < 3 and sim.draw_bool(self.inner_p, "inner-op"):
                n += 1
                self.counts["inner"] += 1
                sim.probe("op_inside_running_call")
                self.do_op(self.choose_basic_op(), "in-call")
            if n:
                self.check_views("in-call")
        self.maybe_fail(cid)

    def maybe_fail(self, cid):
        """Scripted behaviour "fails": the call that is running ends by raising."""
        sim, m = self.sim, self.m
        if self.raise_p is None:
            self.raise_p = sim.draw_choice(self.RAISE_CHOICES, "raise-p")
            if isinstance(sim.config, dict):
                sim.config["raise_p"] = self.raise_p
        if not self.raise_p or not sim.draw_bool(self.raise_p, "raises"):
            return
        self.counts["raised"] += 1
        sim.fault("timed_call_raised")
        if any(m.time_of(c) <= m.now for c in m.pending_ids()):
            sim.probe("call_raised_while_others_due")
        sim.event("raises", cid)
        raise ScriptedFailure("scripted failure of timed call %d" % cid)

    # ---- operations
    def op_call_later(self, where, delay=None):
        sim, m = self.sim, self.m
        if delay is None:
            # sometimes aim exactly at the time of an existing pending call (ties)
            later = [c for c in m.pending_ids() if m.time_of(c) >= m.now]
            if later and sim.draw_bool(0.25, "collide"):
                delay = m.time_of(sim.draw_choice(later, "collide-with")) - m.now
                sim.probe("scheduled_at_same_time_as_pending")
            else:
                delay = self.draw_delay("delay")
        cid = self.next_cid
        self.next_cid += 1
        t = m.create(cid, delay)
        sim.event("callLater", cid, delay, "t=%r" % t, where)
        with sim.guard("op-raised", "callLater"):
            dc = self.impl_call_later(delay, self.fire, cid)
        dc._cid = cid
        self.dcs[cid] = dc
        self.order.append(cid)
        return cid

    def _apply(self, cid, name, model_outcome, thunk, where):
        """Run one DelayedCall method; the model says whether it must raise."""
        sim = self.sim
        try:
            thunk()
            real = "ok"
        except error.AlreadyCalled:
            real = "AlreadyCalled"
        except error.AlreadyCancelled:
            real = "AlreadyCancelled"
        except (Violation, StepLimit):
            raise
        except Exception as e:
            real = "raised " + type(e).__name__
        if model_outcome != "ok":
            self.counts["dead_ops"] += 1
            sim.probe("op_on_dead_call")
        sim.check("op-outcome", real == model_outcome, name,
                  lambda: "%s on call %d: real %s, model %s" % (name, cid, real, model_outcome))

    def op_cancel(self, where, cid=None):
        sim, m = self.sim, self.m
        if cid is None:
            cid = self.pick("cancel-which")
        out = m.cancel(cid)
        sim.event("cancel", cid, out, where)
        if out == "ok":
            self.counts["cancel"] += 1
            sim.fault("cancel_pending_call")
        self._apply(cid, "cancel", out, self.dcs[cid].cancel, where)

    def op_reset(self, where):
        sim, m = self.sim, self.m
        cid = self.pick("reset-which")
        d = self.draw_delay("reset-to")
        out = m.reset(cid, d)
        sim.event("reset", cid, d, out, where)
        if out == "ok":
            self.counts["resched"] += 1
        self._apply(cid, "reset", out, lambda: self.dcs[cid].reset(d), where)

    def op_delay(self, where):
        sim, m = self.sim, self.m
        cid = self.pick("delay-which")
        d = self.draw_delay("delay-by", hi=32)
        if sim.draw_bool(0.45, "negative"):
            d = -d
        out = m.delay(cid, d)
        sim.event("delay", cid, d, out, where)
        if out == "ok":
            self.counts["resched"] += 1
        self._apply(cid, "delay", out, lambda: self.dcs[cid].delay(d), where)

    def choose_basic_op(self):
        room = len(self.order) < self.max_calls
        wc, wr = self.touch_weights()
        return self.sim.draw_weighted([("callLater", 6 if room else 0), ("cancel", wc), ("reset", wr), ("delay", wr)], "op")

    def touch_weights(self):
        """(cancel, reset/delay) weights: full while something is pending, low when
        only dead calls remain (operations on dead calls must just raise)."""
        if self.m.pending_ids():
            return 2, 3
        return (1, 1) if self.order else (0, 0)

    def do_op(self, op, where):
        self.sim.step(self.STEP_CAP * self.sim.depth)
        if op == "callLater":
            self.op_call_later(where)
        elif op == "cancel":
            self.op_cancel(where)
        elif op == "reset":
            self.op_reset(where)
        elif op == "delay":
            self.op_delay(where)
        else:
            raise AssertionError(op)

    def final_accounting(self):
        """After the drain nothing may be left: ran exactly once iff not cancelled."""
        sim, m = self.sim, self.m
        left = m.unfinished()
        sim.check("runs-iff-not-cancelled", not left, "drain", lambda: "never ran and never cancelled: %r" % (left,))
        ran = [cid for cid, _ in m.ran_log]
        sim.check("runs-once", len(ran) == len(set(ran)), "drain", lambda: "ran log %r" % (ran,))
