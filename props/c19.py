"""C19 — HTTP/1.1 server framing follows RFC 9112 (no request smuggling).

Engine E3 (net), harness of C18.  Known-answer generation: the ground truth of a
stream is known by construction (and re-derived by the RFC reference parser in
models/http1.py as a harness self-check), the stream is delivered to a real
HTTPChannel under tape-chosen segmentation with the application answering at
once or later, and the oracle compares what the application was handed, the
responses on the wire and the close request against the ground truth; on
well-formed streams h11 (server role) is a second, independent witness.

Families: (a) well-formed streams with legal oddities; (b) well-formed prefix +
one request with exactly one framing/syntax defect from the statement's list +
a VICTIM request that must never be processed; (c) request targets over all 256
byte values; (e) constructs where RFC 9110/9112 let a recipient either reject or
repair in ONE specified way (obs-fold, also inside a framing field's value; bare CR / LF inside a field value, also when
what follows it looks like a framing field line; whitespace-preceded lines between the start-line and the first field
line, which are rejected or ignored but never read as fields) or where the statement leaves a server's own size limits
open (zero-padded Content-Length / chunk-size numerals of up to thousands of digits; a line of the head around or beyond
the channel's documented line-length limit MAX_LENGTH, which is lowered per connection in part of the runs); (l) chunked requests whose
chunk-size lines carry long valid chunk extensions, sized relative to the limit
in force, with a pipelined request behind them.

A run is one PROCESS, not one connection: before the judged connection the process has, in three runs out of eight, already served
one or two other connections (each a fresh channel with a stream of its own from the same grammar, or the very bytes of the judged
stream as a retrying client sends them; each with its own segmentation and response timing; lost afterwards, left open, or served
only part-way and finished after the judged connection).  Every connection is judged by the same oracle against its own ground
truth: the verdict on a stream is a function of that stream alone.  Process-wide state (header-name cache, module settings) is
reset at the start of a run only, so that whatever connections share they share as in a real process.

The documented module-level setting twisted.web.http.maxChunkSizeLineLength is a
per-run knob (default / raised / lowered), set before the channel is built and
restored in a finally and in cleanup(sim).
"""
from twisted.web import http as _http

from detsim import net
from detsim.sim import Violation, StepLimit
from models import http1
from props import _http_harness as H

ID = "C19"
ENGINE = "net"
LEVEL = "exploration"
TECHNIQUE = "deterministic simulation: known-answer request-stream generation + RFC reference parser + h11 cross-check, under seeded segmentation and response timing"
QUICK_RUNS = 40000
BATCH = 50
RUN_WALL_LIMIT_S = 90   # a run takes milliseconds; the wall-clock watchdog only has to survive machine stalls under heavy shared load
COMPONENTS = {
    "real": ["twisted.web.http.HTTPChannel (lineReceived/headerReceived/_maybeChooseTransferDecoder/rawDataReceived/requestDone)",
             "twisted.web.http._parseRequestLine", "twisted.web.http._ChunkedTransferDecoder/_IdentityTransferDecoder", "twisted.web._abnf",
             "twisted.web.http_headers.Headers/_NameEncoder", "twisted.protocols.basic.LineReceiver"],
    "stub": ["TCP transport and delivery segmentation (detsim.net)", "the application (answers 200 at once or at a later tape-chosen step)",
             "h11 0.16 as independent parser (oracle side)"],
}
RULE = ("run = one stream from family a (1-4 well-formed pipelined requests: OWS/case oddities, leading zeros, chunk extensions, trailers, bodies that "
        "contain request-like text), b (0-2 well-formed requests, one request with exactly one of 57 framing/syntax defects - two of them framing values "
        "spread over an obs-fold that are invalid whether the fold is rejected or replaced by SP -, then a VICTIM request), "
        "c (request-target drawn from all byte values), e (0-2 well-formed requests, then one request the recipient may reject or must read in one given way, "
        "then a request that must be reached if it was accepted: obs-fold, obs-fold at the start / end of a Content-Length or Transfer-Encoding value, bare CR / "
        "bare LF in a value followed by plain text or by text shaped like a framing field line, 1-2 whitespace-preceded lines [shaped like framing fields, other "
        "fields, plain text, or empty] between the request-line and the first field line, followed by the next request or by bytes that only a recipient "
        "misreading such a line as Transfer-Encoding would take for a body; Content-Length / chunk-size numerals zero-padded to 1..4300 digits [wider than "
        "CPython converts only with knob NUMERALS_BEYOND_INT_STR_LIMIT]; a request-line, field name or field value sized -3..+700 bytes against the line-length "
        "limit of the channel, which is the default 16384 or lowered to 4096 / 512 on that connection) or l (0-1 well-formed requests, one chunked request whose "
        "chunk-size lines - any of them, the last-chunk line too - carry long valid chunk extensions of a length placed relative to the limit in force: well "
        "inside it, just under it, between the default and a raised limit, at its edge or beyond it, then a pipelined GET that must be reached), with the "
        "documented module setting http.maxChunkSizeLineLength drawn per run (default / raised / lowered; lowered only below lines the stream needs), delivered under a tape-chosen segmentation with "
        "each response finished at once or later; one run in twelve keeps delivering after the server's close request (as a TLS transport does); "
        "in 3 runs of 8 the process has served 1-2 EARLIER CONNECTIONS before the judged one (fresh channel each; stream = the judged stream's very bytes, "
        "as a retrying client sends them, or a stream of its own drawn from families b/a/c/e/l under the setting in force; own segmentation and response "
        "timing; afterwards lost, left open, or - 35% - held part-way with requests unanswered and finished after the judged connection), each judged "
        "by the full oracle against its own ground truth; "
        "non-trivial = at least one request was handed to the application or a 400 was written")
ASSUMPTIONS = ["whitespace between the start-line and the first header field (RFC 9112 s.2.2): the recipient rejects the message or consumes every "
               "whitespace-preceded line without processing it; both are accepted, reading such a line as a field is not",
               "a bare CR / LF in a field value (RFC 9110 s.5.5) is rejected or replaced by SP: what follows it stays part of the same value",
               "the statement sets no size limits and does not say how a server signals its own: a zero-padded numeral of many digits and a line around or "
               "beyond MAX_LENGTH may be accepted (then framed by the numeral's value / delivered as sent, and the next request is reached) or refused - by 400, "
               "or for the line-length limit by a bare close request - and then nothing of the request or behind it is processed; an exception escaping "
               "dataReceived is neither (clause server-raised, as for every other stream)",
               "no verdict on constructs where the RFCs leave the recipient a choice other than those listed in family e (BWS before a chunk extension, "
               "Transfer-Encoding in HTTP/1.0, HTTP/1.x versions above 1.1, 'identity' as sole transfer coding, request-target bytes >= 0x7F)",
               "requests after a non-persistent request are not generated (a conforming client never sends them)",
               "maxChunkSizeLineLength is documented as the maximum allowable length of the CRLF-terminated chunk-size line: a line that fits including its "
               "CRLF must be accepted and framed normally; a line one or two bytes longer (the readings with / without the CRLF) or beyond the limit may be "
               "accepted or answered with 400 (then nothing after it is processed) - the statement sets no size limits",
               "the statement quantifies over request streams, not over the history of the process: a stream's verdict may not depend on what other "
               "connections of the same process received before or in between (each run starts as a fresh process: the process-wide header-name cache "
               "is emptied at the start of a run, never between the connections of a run)"]
LIMIT_DEFAULT = 1024                 # documented default of twisted.web.http.maxChunkSizeLineLength
LIMIT_RAISED = [1500, 1100, 2048]
LIMIT_LOWERED = [700, 256, 64]       # every ordinary chunk-size line of the grammar (size + short extension) is below 32 bytes
LIMIT_MODES = ["default", "raised", "lowered"]
_limit_saved = []


def _set_limit(value):
    if not _limit_saved:
        _limit_saved.append(_http.maxChunkSizeLineLength)
    _http.maxChunkSizeLineLength = value


def _restore_limit():
    if _limit_saved:
        _http.maxChunkSizeLineLength = _limit_saved[0]


def cleanup(sim):
    _restore_limit()
    H.cleanup(sim)


def _draw_limit(sim, longest=0):
    """(mode, value) of the module setting for this run; value 0 of every draw = the default.  `longest` = longest chunk-size line
    (without CRLF) of an already generated stream: a lowered limit is only chosen where every line still fits with room to spare."""
    mode = sim.draw_choice(LIMIT_MODES, "limit-mode")
    if mode == "raised":
        return mode, sim.draw_choice(LIMIT_RAISED, "limit-raised")
    if mode == "lowered":
        fits = [v for v in LIMIT_LOWERED if longest + 2 <= v]
        if fits:
            return mode, sim.draw_choice(fits, "limit-lowered")
    return "default", LIMIT_DEFAULT


def _longest_size_line(specs):
    """Longest chunk-size line (size + extensions, without CRLF) of well-formed generated requests (a plain walk over the chunks)."""
    longest = 0
    for s in specs:
        if s.framing != "chunked":
            continue
        w, pos = s.wire, s.bounds[1]
        while True:
            eol = w.index(b"\r\n", pos)
            line = w[pos:eol]
            longest = max(longest, len(line))
            n = int(line.split(b";")[0], 16)
            if n == 0:
                break
            pos = eol + 2 + n + 2
    return longest


def _long_ext(sim, n):
    """A valid chunk-ext production (RFC 9112 s.7.1.1) of exactly n >= 8 bytes."""
    style = sim.draw_int(0, 3, "extstyle")
    if style == 0:
        return b";" + b"e" * (n - 1)                       # one long extension name
    if style == 1:
        return b";n=" + b"v" * (n - 3)                     # one long token value
    if style == 2:
        return b';q="' + (b"w ;=" * (n // 4 + 1))[:n - 5] + b'"'   # one long quoted value (with ';' and SP inside)
    k = (n - 2) // 4                                       # many short extensions
    return b";a=b" * k + b";" + b"x" * (n - 4 * k - 1)


# zones of a chunk-size line's length (size + extensions, CRLF not counted) relative to the limit in force.  The setting is documented
# as the "maximum allowable length of the CRLF-terminated line": a line which fits INCLUDING its CRLF must be accepted; one or two bytes
# more is a matter of reading (no verdict: reject or accept), and so is anything beyond (the statement is silent on size limits).
MUST_ZONES = ["inside", "under", "between"]
LINE_ZONES = ["short", "inside", "under", "between", "edge", "over"]


def _zone_length(sim, zone, limit):
    if zone == "inside":
        return sim.draw_int(limit // 4, limit - 10, "len-inside")
    if zone == "under":
        return limit - 2 - sim.draw_int(0, 3, "len-under")
    if zone == "between":       # longer than the default limit allows, within a raised one
        return sim.draw_int(LIMIT_DEFAULT - 2, limit - 2, "len-between")
    if zone == "edge":
        return limit - 1 + sim.draw_int(0, 1, "len-edge")
    return limit + 1 + sim.draw_choice([0, 1, 2, 40, 300], "len-over")


LONG_BODIES = [b"hello world", b"hello" + H.SMUGGLE, H.SMUGGLE + b"0\r\n\r\n", b"x"]


def _long_line_request(sim, limit):
    """One well-formed chunked request whose chunk-size lines (any of them, the last-chunk line included) carry long valid extensions.
    -> (wire, key, zones, bounds)"""
    body = sim.draw_choice(LONG_BODIES, "lbody")
    pieces = H.split_pieces(sim, body, 3)
    zones = []
    lines = []
    for i, piece in enumerate(pieces + [b""]):
        size = sim.draw_choice(H.SIZEFMT, "szf") % len(piece)
        if i == 0:
            zone = sim.draw_choice(MUST_ZONES + ["under", "between", "edge", "over"], "zone0")
        else:
            zone = sim.draw_choice(["short", "short"] + LINE_ZONES, "zone")
        if zone == "between" and limit <= LIMIT_DEFAULT:
            zone = "under"
        if zone == "short":
            ext = sim.draw_choice(H.EXTS, "ext")
        else:
            ext = _long_ext(sim, _zone_length(sim, zone, limit) - len(size))
        zones.append(zone)
        lines.append(size + ext)
    head = b"POST /long HTTP/1.1\r\nHost: l.test\r\n" + H.header_line(sim, b"Transfer-Encoding", b"chunked") + b"\r\n"
    w = bytearray(head)
    bounds = [len(w)]
    for line, piece in zip(lines, pieces + [b""]):
        w += line + b"\r\n"
        bounds.append(len(w))
        if piece:
            w += piece + b"\r\n"
    w += sim.draw_choice([b"", b"X-T: 1\r\n"], "ltrl") + b"\r\n"
    bounds.append(len(w))
    key = (b"POST", b"/long", b"HTTP/1.1", http1.header_map([(b"host", b"l.test"), (b"transfer-encoding", b"chunked")]), body)
    return bytes(w), key, zones, bounds


EITHER = ["obs-fold", "obs-fold-tab", "hv-bare-cr", "hv-bare-lf",
          # appended in round 6 (new entries go at the END: a replay tape stores the index)
          "lead-ws", "obs-fold-framing", "numeral-cl", "numeral-chunk", "over-line"]
# both Content-Length and a Transfer-Encoding the server treats as a no-op: listed by the statement ("both Content-Length and Transfer-Encoding")
IDENTITY_DEFECTS = ["te-identity+cl", "cl+te-identity"]
# framing fields whose value is spread over an obs-fold: whether the recipient rejects obs-fold or replaces it with SP (the two reactions
# RFC 9112 s.5.2 allows), the value it is left with is invalid, so the request is answered 400.  Appended BEHIND the catalogue and the
# identity defects (a replay tape stores the index into the concatenated list).
FOLDED_DEFECTS = ["cl-folded-digits", "te-folded-list"]

# what a bare CR / LF inside a field value is followed by: text that would be a field line of its own if the CR / LF were a line end
BARE_TAILS = [b"b", b"Transfer-Encoding: chunked", b"Content-Length: 5", b"Host: other.test", b" b"]
# whitespace-preceded lines between the start-line and the first field line (RFC 9112 s.2.2): what follows the whitespace
LEAD_WS = [b" ", b"\t", b"  \t ", b"\t\t"]
LEAD_TEXT = [b"X-Ins: 1", b"Content-Length: 5", b"Transfer-Encoding: chunked", b"folded text", b"", b"Host: other.test", b"Connection: close"]
LEAD_TAILS = ["next-request", "chunk-end"]
# lengths (in digits) of zero-padded decimal / hexadecimal numerals in framing positions.  RFC 9110 s.8.6: "a recipient MUST anticipate
# potentially large decimal numerals and prevent parsing errors due to integer conversion overflows": widths around 2**63, 2**128, the
# largest double, and CPython's own limit on decimal str->int conversion (sys.get_int_max_str_digits() = 4300 by default).
NUMERAL_DIGITS = [1, 20, 40, 310, 1000, 4000, 4300]
NUMERAL_DIGITS_BEYOND = [4301, 5000, 12000]       # beyond CPython's conversion limit, inside the channel's line / header-size limits (16384)
# Knob: widths beyond CPython's int-conversion limit are generated only when this is True (it is; False only for dev-time comparison).
# On the tree as first examined such a Content-Length made ValueError escape HTTPChannel.dataReceived (genuine defect, REPAIRED in /repo
# 8e2d9f3, see FINDINGS at the bottom): signature C19:server-raised:numeral-cl:beyond:ValueError.
NUMERALS_BEYOND_INT_STR_LIMIT = True


# HTTPChannel.MAX_LENGTH ("maximum length for initial request line and each line from the header") per connection: the documented
# default, or lowered on the channel before it is connected (value 0 = default).  Lines of the over-line family are sized against it.
LINE_LIMITS = [16384, 4096, 512]
LINE_OVER_BY = [1, 2, 3, 40, 700, -1, -3]       # line length = limit + this (negative: the line still fits)
# Knob: connections whose stream holds a line beyond the line-length limit are served past the server's close request (as a TLS
# transport does) only when this is True (it is; False only for dev-time comparison).  On the tree as first examined the channel then
# resumed parsing in the middle of the refused line (genuine defect, REPAIRED in /repo 90cf1c7, see FINDINGS at the bottom): signature
# C19:after-close-delivery:request-processed with kind over-line:*.
OVER_LINE_AFTER_CLOSE = True


def _folded_defective(sim, kind):
    body = sim.draw_choice([H.SMUGGLE, b"hello" + H.SMUGGLE], "fbody")
    ws = sim.draw_choice(LEAD_WS, "fws")
    if kind == "cl-folded-digits":
        # unfolded with SP: "1 0" (not 1*DIGIT); a recipient that drops the continuation reads 1, one that glues it reads 10
        return H._req(b"POST /defect HTTP/1.1", [b"Host: d.test", b"Content-Length: 1", ws + b"0"], b"h" + body)
    # unfolded: "chunked , gzip" - chunked is not the final coding; a recipient that drops the continuation frames by chunked
    return H._req(b"POST /defect HTTP/1.1", [b"Host: d.test", b"Transfer-Encoding: chunked", ws + b", gzip"], http1.chunk_encode([body]))


def _numeral(sim, value, fmt, limit_digits=None):
    """value as a zero-padded numeral of a drawn width -> (bytes, zone)."""
    widths = list(NUMERAL_DIGITS)
    if fmt == b"%d" and NUMERALS_BEYOND_INT_STR_LIMIT:
        widths += NUMERAL_DIGITS_BEYOND
    if limit_digits is not None:
        widths = [w for w in widths if w <= limit_digits]
    w = sim.draw_choice(widths, "numeral-width")
    text = fmt % value
    sim.probe("numeral_width_%d" % w)
    return b"0" * (w - len(text)) + text, ("beyond" if w > 4300 else "wide" if w > 1 else "plain")


def _either_request(sim, kind, follower, limit=None):
    """A request for which the RFCs let the recipient choose between rejecting and one specified repair, plus what follows it.
    -> (bytes of request and rest of the stream, key of the request as the repairing recipient sees it, key of the request that follows it
    or None where what follows is not a request [the repairing recipient then answers 400 there], kind, longest chunk-size line, per-channel settings the stream is sized against)."""
    get = (b"GET", b"/odd", b"HTTP/1.1")

    def key(line3, hdrs, body=b""):
        return line3 + (http1.header_map(hdrs), body)

    if kind == "obs-fold":
        return (b"GET /odd HTTP/1.1\r\nHost: e.test\r\nX-Fold: a\r\n b\r\n\r\n" + follower.wire,
                key(get, [(b"host", b"e.test"), (b"x-fold", b"a b")]), follower.key(), kind, 0, {})
    if kind == "obs-fold-tab":
        return (b"GET /odd HTTP/1.1\r\nX-Fold: a\r\n\t \tb\r\n  c\r\nHost: e.test\r\n\r\n" + follower.wire,
                key(get, [(b"x-fold", b"a b c"), (b"host", b"e.test")]), follower.key(), kind, 0, {})
    if kind in ("hv-bare-cr", "hv-bare-lf"):
        # RFC 9110 s.5.5: reject, or replace each CR / LF with SP before further processing - whatever follows the bare CR / LF stays
        # part of THIS value, also when it looks like a field line (a framing field) of its own
        sep = b"\r" if kind == "hv-bare-cr" else b"\n"
        tail = sim.draw_choice(BARE_TAILS, "bare-tail")
        sim.probe("bare_tail_framing_like" if b":" in tail else "bare_tail_plain")
        lines = [b"Host: e.test", b"X-V: a" + sep + tail]
        hdrs = [(b"host", b"e.test"), (b"x-v", b"a " + tail)]
        if sim.draw_bool(0.5, "bare-first"):            # the field line is the last one of the block / is followed by another one
            lines.reverse()
            hdrs.reverse()
        return (H._req(b"GET /odd HTTP/1.1", lines) + follower.wire, key(get, hdrs), follower.key(), kind, 0, {})
    if kind == "lead-ws":
        # RFC 9112 s.2.2: whitespace between the start-line and the first header field: reject, or "consume each whitespace-preceded
        # line without further processing of it" - never interpret such a line as a field
        lines = [sim.draw_choice(LEAD_WS, "lead-ws") + sim.draw_choice(LEAD_TEXT, "lead-text") for _ in range(sim.draw_int(1, 2, "lead-n"))]
        tail = sim.draw_choice(LEAD_TAILS, "lead-tail")
        sim.probe("lead_ws_then_" + tail)
        if sim.draw_bool(0.3, "lead-body"):
            line3, real, hdrs, body = (b"POST", b"/odd", b"HTTP/1.1"), [b"Host: e.test", b"Content-Length: 5"], [(b"host", b"e.test"), (b"content-length", b"5")], b"hello"
        else:
            line3, real, hdrs, body = get, [b"Host: e.test"], [(b"host", b"e.test")], b""
        wire = H._req(b" ".join(line3), lines + real, body)
        if tail == "next-request":
            return wire + follower.wire, key(line3, hdrs, body), follower.key(), kind, 0, {}
        # what a recipient that takes a whitespace-led "Transfer-Encoding: chunked" for a field reads as an empty chunked body with a
        # request behind it; every other recipient meets the line "0" where a request-line belongs
        return wire + b"0\r\n\r\n" + H.VICTIM, key(line3, hdrs, body), None, kind, 0, {}
    post = (b"POST", b"/odd", b"HTTP/1.1")
    if kind == "obs-fold-framing":
        # a framing field whose value starts (or ends) on a continuation line: replaced by SP and trimmed, the value is the plain one
        style = sim.draw_int(0, 3, "foldf")
        ws = sim.draw_choice(LEAD_WS, "foldf-ws")
        sim.probe("obs_fold_framing_style_%d" % style)
        if style == 0:
            lines, hdrs, payload = [b"Transfer-Encoding:", ws + b"chunked"], [(b"transfer-encoding", b"chunked")], http1.chunk_encode([b"hello"])
        elif style == 1:
            lines, hdrs, payload = [b"Content-Length:", ws + b"5"], [(b"content-length", b"5")], b"hello"
        elif style == 2:
            lines, hdrs, payload = [b"Content-Length: 5", ws], [(b"content-length", b"5")], b"hello"
        else:
            lines, hdrs, payload = [b"Transfer-Encoding: chunked", ws], [(b"transfer-encoding", b"chunked")], http1.chunk_encode([b"hello"])
        if sim.draw_bool(0.5, "foldf-last"):
            lines, hdrs = [b"Host: e.test"] + lines, [(b"host", b"e.test")] + hdrs
        else:
            lines, hdrs = lines + [b"Host: e.test"], hdrs + [(b"host", b"e.test")]
        return H._req(b"POST /odd HTTP/1.1", lines, payload) + follower.wire, key(post, hdrs, b"hello"), follower.key(), kind, 0, {}
    if kind == "over-line":
        # one line of the head around / beyond the channel's line-length limit.  The statement sets no size limits and does not say how a
        # server signals its own: the request is either processed as sent (with what follows), or refused - by 400 or by merely closing -
        # and then nothing of it or behind it is processed
        maxlen = sim.draw_choice(LINE_LIMITS, "line-limit")
        where = sim.draw_choice(["field-value", "request-target", "field-name"], "line-where")
        n = maxlen + sim.draw_choice(LINE_OVER_BY, "line-over")
        sim.probe("line_%s_limit" % ("beyond" if n > maxlen else "within"))
        # the far end of the line looks like a field line of its own (it must not become one when the line is cut short)
        tail = sim.draw_choice([b"", b" Content-Length: 5", b"Transfer-Encoding: chunked"], "line-tail")
        if where == "field-value":
            value = b"v" * (n - len(b"X-Long: ") - len(tail)) + tail
            lines, hdrs, target = [b"Host: e.test", b"X-Long: " + value], [(b"host", b"e.test"), (b"x-long", value)], b"/odd"
        elif where == "field-name":
            name = b"X-" + b"n" * (n - len(b"X-: 1"))
            lines, hdrs, target = [name + b": 1", b"Host: e.test"], [(name.lower(), b"1"), (b"host", b"e.test")], b"/odd"
        else:
            target = b"/" + b"t" * (n - len(b"GET / HTTP/1.1"))
            lines, hdrs = [b"Host: e.test"], [(b"host", b"e.test")]
        return (H._req(b"GET " + target + b" HTTP/1.1", lines) + follower.wire, key((b"GET", target, b"HTTP/1.1"), hdrs), follower.key(),
                "over-line:%s:%s" % (where, "beyond" if n > maxlen else "within"), 0, {"MAX_LENGTH": maxlen})
    body = sim.draw_choice(LONG_BODIES, "nbody")
    if kind == "numeral-cl":
        # a well-formed Content-Length (1*DIGIT) of many digits: the statement sets no size limits, so the server may refuse it with 400;
        # if it accepts it, the body is the one the numeral's VALUE assigns; no other reaction (an exception out of dataReceived) is one
        num, zone = _numeral(sim, len(body), b"%d")
        kind = "numeral-cl:" + zone
        return (H._req(b"POST /odd HTTP/1.1", [b"Host: e.test", b"Content-Length: " + num], body) + follower.wire,
                key(post, [(b"host", b"e.test"), (b"content-length", num)], body), follower.key(), kind, 0, {})
    # chunk-size lines (the last-chunk line too) of many digits, inside the limit on chunk-size lines in force
    room = (limit if limit is not None else LIMIT_DEFAULT) - 3
    pieces = H.split_pieces(sim, body, 2)
    w = bytearray()
    longest = 0
    for piece in pieces + [b""]:
        num, _ = _numeral(sim, len(piece), sim.draw_choice([b"%x", b"%X"], "nfmt"), room)
        longest = max(longest, len(num))
        w += num + b"\r\n" + (piece + b"\r\n" if piece else b"")
    w += b"\r\n"
    return (H._req(b"POST /odd HTTP/1.1", [b"Host: e.test", b"Transfer-Encoding: chunked"], bytes(w)) + follower.wire,
            key(post, [(b"host", b"e.test"), (b"transfer-encoding", b"chunked")], body), follower.key(), kind, longest, {})


def _lower_te(k):
    method, target, version, hm, body = k
    return (method, target, version, tuple((n, [v.lower() for v in vs] if n == b"transfer-encoding" else vs) for n, vs in hm), body)


def _norm_key(k):
    method, target, version, hm, body = k
    return (method, target, version, tuple((n, [http1.norm_value(v) for v in vs]) for n, vs in hm), body)


def run(sim):
    try:
        _run(sim)
    finally:
        _restore_limit()


class _Plan:
    """One generated stream and its ground truth."""
    __slots__ = ("family", "kind", "data", "bounds", "truth", "must400", "either", "specs", "knobs", "bare_close")


def _gen_plan(sim, family, in_force=None):
    """Stream of the given family -> (plan, limit_mode, limit).  `in_force` = (mode, value) of the module setting when it is already
    fixed (streams for further connections of the same process); None = this stream decides it: drawn first in family l (the stream is
    sized by it), after the stream in the other families."""
    p = _Plan()
    p.knobs = {}            # documented per-channel settings this stream is sized against (set on the channel before it is connected)
    p.bare_close = False    # the refusal this stream may meet is the server's own size limit: 400 or a bare close request
    truth = []          # ReqSpec-like keys the application must be handed, in order
    must400 = False     # after the truth requests: a 400, a close request, nothing else
    either = None       # (key if accepted, follower key) for family e / high target bytes
    kind = family
    own_longest = 0     # longest chunk-size line outside `specs`
    limit_mode, limit = in_force if in_force is not None else (None, None)
    if family == "a":
        # lines just under the DEFAULT limit only where the limit in force is known not to be lower
        specs = H.gen_stream(sim, 4, long_ext="under" if (in_force is None or limit >= LIMIT_DEFAULT) else False)
        data, bounds = H.stream_bytes(specs)
        truth = [s.key() for s in specs]
    elif family == "l":
        if in_force is None:
            limit_mode, limit = _draw_limit(sim)
        specs = [H.gen_request(sim, last=False, allow_expect=False) for _ in range(sim.draw_int(0, 1, "nprefix"))]
        data, bounds = H.stream_bytes(specs)
        truth = [s.key() for s in specs]
        follower = H.gen_request(sim, last=False, method=b"GET", target=b"/after", framing="none", oddities=False, allow_expect=False)
        wire, key, zones, lb = _long_line_request(sim, limit)
        bounds = bounds + [len(data) + b for b in lb]
        data += wire + follower.wire
        worst = max(zones, key=LINE_ZONES.index)
        kind = "long-ext:%s:%s" % (limit_mode, worst)
        for z in zones:
            sim.probe("size_line_" + z)
        if worst in ("edge", "over"):
            either = (key, follower.key())
        else:
            truth = truth + [key, follower.key()]
    else:
        specs = [H.gen_request(sim, last=False, allow_expect=False) for _ in range(sim.draw_int(0, 2, "nprefix"))]
        data, bounds = H.stream_bytes(specs)
        truth = [s.key() for s in specs]
        follower = H.gen_request(sim, last=False, method=b"GET", target=b"/after", framing="none", oddities=False, allow_expect=False)
        if family == "b":
            kind = sim.draw_choice(H.STRICT_DEFECTS + IDENTITY_DEFECTS + FOLDED_DEFECTS, "defect")
            if kind == "te-identity+cl":
                bad = b"POST /defect HTTP/1.1\r\nHost: d.test\r\nTransfer-Encoding: identity\r\nContent-Length: 5\r\n\r\nhello"
            elif kind == "cl+te-identity":
                bad = b"POST /defect HTTP/1.1\r\nHost: d.test\r\nContent-Length: 5\r\nTransfer-Encoding: Identity\r\n\r\nhello"
            elif kind in FOLDED_DEFECTS:
                bad = _folded_defective(sim, kind)
                sim.probe("folded_framing_value")
            else:
                bad = H.gen_defective(sim, kind)
            data += bad + H.VICTIM
            must400 = True
        elif family == "c":
            tlen = sim.draw_int(1, 8, "tlen")
            target = b"/" + sim.draw_bytes(tlen)
            req = b"GET " + target + b" HTTP/1.1\r\nHost: t.test\r\n\r\n"
            if any(c <= 32 for c in target):
                kind = "c-ctl"
                data += req + H.VICTIM
                must400 = True
            elif all(c < 127 for c in target):
                kind = "c-vchar"
                truth.append((b"GET", target, b"HTTP/1.1", http1.header_map([(b"host", b"t.test")]), b""))
                truth.append(follower.key())
                data += req + follower.wire
            else:
                kind = "c-high"
                either = ((b"GET", target, b"HTTP/1.1", http1.header_map([(b"host", b"t.test")]), b""), follower.key())
                data += req + follower.wire
        else:
            kind = sim.draw_choice(EITHER, "either")
            wire, acc, fol, kind, own_longest, p.knobs = _either_request(sim, kind, follower, limit)
            either = (acc, fol)
            p.bare_close = kind.startswith("over-line")
            data += wire
        bounds = bounds + [len(data) - len(H.VICTIM)]
    if limit_mode is None:
        limit_mode, limit = _draw_limit(sim, max(_longest_size_line(specs), own_longest))

    # harness self-check: the generator's claim agrees with the RFC reference parser (AssertionError = harness error, never a violation)
    # (not consulted for the either-families: it gives one of the two permitted readings, and its own int() shares CPython's limit on
    # decimal conversion)
    ref, st = http1.parse_requests(data) if (either is None or family == "l") else ([], None)
    if family == "a" or kind == "c-vchar":
        assert st == "ok" and [m.key() for m in ref] == truth, (st, data)
    elif family == "l":     # well-formed whatever the limit: a size limit is the server's, not the grammar's
        assert st == "ok" and [m.key() for m in ref] == truth + (list(either) if either else []), (st, kind)
    elif must400:
        assert isinstance(st, tuple) and st[0] == "bad" and [m.key() for m in ref] == truth, (kind, st, data)
    p.family, p.kind, p.data, p.bounds, p.truth, p.must400, p.either, p.specs = family, kind, data, bounds, truth, must400, either, specs
    return p, limit_mode, limit


class _Conn:
    """One connection of the process: a fresh channel of its own, its stream under a segmentation of its own, the application, and the
    oracle of the property applied to what THIS connection was handed and answered.  The verdict on a stream is a function of the
    stream alone: what other connections of the same process received earlier (or receive in between) has no say in it."""

    def __init__(self, sim, plan, eager, after_close, label, context):
        self.sim, self.plan, self.after_close, self.label, self.context = sim, plan, after_close, label, context
        self.pending = []
        sim.event("stream", label, plan.kind, len(plan.data), plan.data)
        self.srv = H.Server(sim, self._app, timeout=60, knobs=dict(plan.knobs, _optimisticEagerReadSize=eager))
        self.pieces = net.cut(sim, plan.data, boundaries=plan.bounds)
        self.queue = list(self.pieces)

    def _app(self, srv, req, idx):
        req.setHeader(b"X-Idx", b"%d" % idx)
        body = b"ok%d" % idx
        req.setHeader(b"Content-Length", b"%d" % len(body))
        if self.sim.draw_bool(0.4, "defer"):
            self.pending.append((req, body))
        else:
            req.write(body)
            req.finish()

    def _answer(self):
        req, body = self.pending.pop(0)
        req.write(body)
        req.finish()

    def _drive(self, until_close, budget=None):
        """Deliver and answer until nothing is left to do; with a budget: stop after that many deliveries, leaving the rest of the stream
        undelivered and the unanswered requests unanswered (the connection stays as it is while others are served)."""
        sim, srv, queue, pending = self.sim, self.srv, self.queue, self.pending
        n = 0
        while True:
            sim.step(60000)
            can = (bool(queue) and srv.can_deliver() and not (until_close and srv.t.close_at is not None)
                   and (budget is None or n < budget))
            if can and pending and sim.draw_bool(0.3, "app-first"):
                self._answer()
            elif can:
                srv.deliver(queue.pop(0))
                n += 1
            elif pending and budget is None:
                self._answer()
            else:
                break

    def serve(self, budget=None):
        # phase 1: deliveries stop at the server's close request (what a TCP transport does: loseConnection() stops reading)
        with self.sim.guard("server-raised", self.plan.kind):
            self._drive(True, budget)

    def close(self):
        with self.sim.guard("server-raised", self.plan.kind):
            self.srv.lose(clean=True)

    def judge(self):
        sim, srv, plan, queue = self.sim, self.srv, self.plan, self.queue
        family, kind, data, pieces = plan.family, plan.kind, plan.data, self.pieces
        truth, must400, either = list(plan.truth), plan.must400, plan.either
        wit = kind
        phase1 = (len(srv.delivered), len(srv.t.written))

        got = [d.key() for d in srv.delivered]
        out = bytes(srv.t.written)
        closed = srv.t.close_at is not None
        sim.event("delivered", self.label, len(got), "closed" if closed else "open", len(out))

        def detail():
            return "connection=%s %s\n kind=%s stream=%r pieces=%r\n delivered=%r\n truth=%r\n out=%r closed=%s" % (
                self.label, self.context(), kind, data, pieces if len(pieces) < 10 else [len(p) for p in pieces], srv.delivered, truth, out,
                closed)

        # 0. Content-Length together with "Transfer-Encoding: identity": own clause (genuine deviation: known finding, not repaired, listed in known_findings.json; see MUTANTS/FINDINGS below)
        if kind in IDENTITY_DEFECTS:
            sim.check("cl-and-te-identity-accepted", len(srv.delivered) <= len(truth), "identity", detail)

        # 1. nothing that is not a request of the stream is ever processed
        sim.check("smuggled", not any(k[0] in H.MARKERS for k in got), wit, detail)

        resp_methods = [k[0] for k in got]
        if either is not None:
            acc, fol = either
            rejected = len(got) == len(truth)
            if rejected:
                must400 = True
                sim.probe("either_rejected")
            else:
                sim.probe("either_repaired")
                truth = truth + [acc] + ([fol] if fol is not None else [])
                if fol is None:     # what follows the repaired request is not a request: 400 there, nothing else
                    must400 = True
                got = [_norm_key(k) for k in got]
                truth = [_norm_key(k) for k in truth]

        # 2. exactly the ground-truth requests, with exactly their bodies
        def first_diff():
            if len(got) != len(truth):
                return "more" if len(got) > len(truth) else "fewer"
            for x, y in zip(got, truth):
                for name, u, v in zip(("method", "target", "version", "headers", "body"), x, y):
                    if u != v:
                        return name
            return "same"

        if must400:
            sim.check("processed-after-defect", len(got) <= len(truth), wit, detail)
        sim.check("delivered-equals-truth", got == truth, wit + ":" + first_diff(), detail)

        # 3. the wire: one response per processed request, then (if demanded) one 400 and a close request
        rs, rst, _ = http1.parse_responses(out, resp_methods + [b"GET"], eof=True)
        codes = [r.code for r in rs]
        if must400 and plan.bare_close and codes[len(truth):] == [] and rst == "ok":
            # refused by the server's own size limit without a word: every processed request answered, then the close request
            sim.probe("refused_by_bare_close")
            sim.check("responses-match", [r.get(b"x-idx") for r in rs] == [[b"%d" % i] for i in range(len(truth))] and 400 not in codes, wit, detail)
            sim.check("not-closed", closed and srv.t.close_at == len(out), wit, detail)
        elif must400:
            sim.check("no-400", codes[len(truth):len(truth) + 1] == [400], wit, detail)
            sim.check("400-position", codes[:len(truth)].count(400) == 0 and rst == "ok" and len(codes) == len(truth) + 1 and rs[-1].body == b"",
                      wit, detail)
            sim.check("not-closed", closed and srv.t.close_at == len(out), wit, detail)
            sim.probe("rejected_with_400")
        else:
            sim.check("spurious-400", 400 not in codes, wit, detail)
            sim.check("responses-match", rst == "ok" and len(codes) == len(truth) and [r.get(b"x-idx") for r in rs] == [[b"%d" % i] for i in range(len(truth))],
                      wit, detail)

        # 4. independent parser on well-formed streams
        if family == "a" or (family == "l" and either is None):
            h, hst = H.h11_requests(data)
            if hst == "ok":
                sim.probe("h11_agreed_streams")
                # h11 lower-cases the Transfer-Encoding value; do the same on our side
                mine = [_lower_te(d.key()) for d in srv.delivered]
                sim.check("h11-agrees", mine == [_lower_te(k) for k in h], wit, lambda: "h11=%r\n%s" % (h, detail()))
            else:
                sim.probe("h11_" + hst)
        # 5. phase 2: a TLS transport (twisted.protocols.tls.TLSMemoryBIOProtocol) keeps calling dataReceived after
        # loseConnection() until the peer's close_notify arrives.  "Nothing after it is processed" must hold there too.
        if self.after_close and closed and queue and must400 and (OVER_LINE_AFTER_CLOSE or not plan.bare_close):
            sim.fault("delivery_after_close_request", len(queue))
            try:
                self._drive(False)
                raised = None
            except Exception as e:
                if isinstance(e, (Violation, StepLimit)):
                    raise
                raised = type(e).__name__
            new = srv.delivered[phase1[0]:]

            def detail2():
                return "after the close request: raised=%s processed=%r extra output=%r\n%s" % (raised, new, bytes(srv.t.written[phase1[1]:]), detail())

            pre = "line-limit-refusal:" if plan.bare_close else ""
            sim.check("after-close-delivery", not any(d.method in H.MARKERS for d in new), pre + "victim-processed", detail2)
            sim.check("after-close-delivery", not new, pre + "request-processed", detail2)
            sim.check("after-close-delivery", raised is None, pre + "raised-%s" % raised, detail2)
            sim.check("after-close-delivery", len(srv.t.written) == phase1[1], pre + "extra-output", detail2)

        if any(s.expect100 for s in plan.specs):
            sim.probe("expect_100")
        return got, out, closed


# how many connections the process has served (or is still serving) before the judged one; value 0 = a fresh process
EARLIER = [0, 0, 0, 0, 0, 1, 1, 2]
EARLIER_STREAMS = ["same", "fresh"]     # the very bytes of the judged stream (a client that retries) / a stream of its own from the grammar
EARLIER_FAMILIES = [("b", 7), ("a", 4), ("c", 2), ("e", 2), ("l", 1)]


def _run(sim):
    # every run starts as a fresh process: process-global mutable state (header-name cache) must not leak between RUNS in a warm
    # worker.  WITHIN a run the process serves one to three connections, and whatever they share they share as in a real process.
    try:
        from twisted.web import http_headers as _hh
        _hh._nameEncoder._canonicalHeaderCache.clear()
    except AttributeError:
        pass
    family = sim.draw_weighted([("a", 5), ("b", 7), ("c", 2), ("e", 2), ("l", 1)], "family")
    # 1 run out of 12 keeps delivering after the server's close request (precondition of the known after-close-delivery defect)
    after_close = sim.draw_choice([False] * 11 + [True], "deliver-after-close")
    eager = sim.draw_choice([0x4000, 0x4000, 24], "eager")
    plan, limit_mode, limit = _gen_plan(sim, family)
    sim.probe("limit_" + limit_mode)

    # earlier connections of the same process (drawn after the judged stream: value 0 = none)
    earlier = []
    for _ in range(sim.draw_choice(EARLIER, "earlier-connections")):
        mode = sim.draw_choice(EARLIER_STREAMS, "earlier-stream")
        if mode == "same":
            earlier.append([mode, plan, "served"])
        else:
            fam = sim.draw_weighted(EARLIER_FAMILIES, "earlier-family")
            earlier.append([mode, _gen_plan(sim, fam, in_force=(limit_mode, limit))[0], "served"])
    sim.config = {"family": family, "kind": plan.kind, "after_close": after_close, "len": len(plan.data), "ntruth": len(plan.truth),
                  "maxChunkSizeLineLength": limit, "earlier": ["%s:%s" % (e[0], e[1].kind) for e in earlier]}

    def context():
        return "earlier connections of the process: %r" % (["%s:%s:%s" % (e[0], e[1].kind, e[2]) for e in earlier],)

    _set_limit(limit)       # before any channel exists; restored by run()'s finally and by cleanup()
    held = []
    for i, e in enumerate(earlier):
        mode, p, _ = e
        sim.probe("earlier_connection_" + mode)
        c = _Conn(sim, p, eager, after_close, "earlier%d" % i, context)
        if len(c.queue) > 1 and sim.draw_bool(0.35, "hold"):
            # served part-way only: the rest of its stream arrives (and its open requests are answered) after the judged connection
            e[2] = "held"
            sim.fault("earlier_connection_held_partway")
            c.serve(budget=sim.draw_int(1, len(c.queue) - 1, "hold-after"))
            held.append(c)
            continue
        c.serve()
        c.judge()
        if sim.draw_bool(0.5, "earlier-lost"):
            e[2] = "lost"
            sim.probe("earlier_connection_lost")
            c.close()
        else:
            sim.probe("earlier_connection_left_open")

    main = _Conn(sim, plan, eager, after_close, "judged", context)
    main.serve()
    got, out, closed = main.judge()
    for c in held:
        c.serve()
        c.judge()

    sim.state((plan.kind, len(got), closed, after_close))
    sim.nontrivial = bool(got or out or closed)


MUTANTS = [
    "(run with a scratch tally tool, 1500 runs each, because the tree as first examined already had the two analysed findings - after-close-delivery, since REPAIRED in /repo f4a6d96, "
    "and cl-and-te-identity-accepted, known finding, not repaired; 'caught' = signatures beyond those appear)",
    'CAUGHT http.py _maybeChooseTransferDecoder: `if not data.isdigit()` -> try int(data) (accepts +5, -5, 1_0) -> smuggled:cl-plus / cl-underscore / cl-minus, processed-after-defect:cl-minus',
    'CAUGHT http.py _maybeChooseTransferDecoder: `if self._transferDecoder is not None` -> `if False` (CL+TE, duplicate CL/TE accepted) -> smuggled:cl+te / te+cl-short / cl-dup-* / te-two-headers',
    'CAUGHT _abnf.py _hexint: drop the _ishexdigits check (0x5, +5 accepted as chunk size) -> smuggled:chunk-plus / chunk-0x',
    'CAUGHT http.py _respondToBadRequestAndDisconnect: drop `self.loseConnection()` (no close after 400) -> not-closed:*, 400-position:*, server-raised:*:AttributeError',
    "CAUGHT http.py headerReceived: `if b'\\x00' in data` -> `if False` -> smuggled:hv-nul / hv-nul-last",
    "CAUGHT http.py _maybeChooseTransferDecoder: `data.lower() == b'chunked'` -> `b'chunked' in data.lower()` (stacked / quoted codings accepted) -> smuggled:te-gzip-chunked / te-chunked-gzip / te-chunked-twice / te-quoted / te-xchunked",
    'CAUGHT http.py _parseRequestLine: `c <= 32` -> `c <= 8` (TAB/CR/LF/VT accepted in the target) -> smuggled:c-ctl / rl-ctl-target',
    'CAUGHT http.py _parseRequestLine: drop the _istoken(method) check -> smuggled:rl-bad-method',
    'CAUGHT http_headers.py _NameEncoder.encode: `if not _istoken(bytes_name)` -> `if not bytes_name` -> smuggled:hn-nonascii / hn-last-invalid / hn-tab-before-colon / hn-delim / hn-space-inside / hn-space-before-colon',
    "CAUGHT http.py _dataReceived_CHUNK_LENGTH: `eolIndex >= maxChunkSizeLineLength` -> `eolIndex >= 1024` (limit read from a constant, raised setting ignored) -> delivered-equals-truth:long-ext:raised:*:fewer, spurious-400",
    "CAUGHT http.py _dataReceived_CHUNK_LENGTH: `self._start = len(self._buffer) - 1` -> `self._start = len(self._buffer)` (a CRLF split across two deliveries is missed; short lines suffice) -> delivered-equals-truth:*:fewer, no-400:chunk-*",
    "CAUGHT http.py _dataReceived_CHUNK_LENGTH: `len(self._buffer) > maxChunkSizeLineLength` -> `len(self._buffer) > 1024` (partial-line bound ignores a raised setting) -> delivered-equals-truth:long-ext:raised:between:fewer / :under:fewer",
    "CAUGHT (cold-process emulation, 3000 runs: 346 violating runs, every one of them with an earlier connection) http.py HTTPChannel: `_dataBuffer = []` as a class "
    "attribute instead of per instance in __init__ (pipelined bytes buffered by one connection surface on the next) -> delivered-equals-truth:*:more, "
    "processed-after-defect:*, spurious-400:*; NOTE under ./check the class-level list also survives from run to run in a warm worker, so most recorded runs do not "
    "replay in a fresh interpreter and the check exits 2 (harness error) rather than 1",
    "CAUGHT http.py _respondToBadRequestAndDisconnect: `self.dataReceived = self.lineReceived = ... = lambda` -> `HTTPChannel.dataReceived = ...` (one 400 makes every "
    "later channel of the process deaf) -> delivered-equals-truth:a:fewer on a judged connection behind an earlier connection that was answered 400 (replayed); same NOTE",
    "CAUGHT http_headers.py _NameEncoder.encode: the _istoken() check moved behind the store into the process-wide name cache (second sighting of an invalid name is "
    "served from the cache unvalidated) -> smuggled:hn-* / processed-after-defect:hn-* / server-raised:hn-last-invalid:InvalidHeaderName on a connection that repeats "
    "the stream of an earlier one; not reachable by any number of single-connection processes",
    "CAUGHT (round 6) http.py lineReceived fold branch: `self.__header += b' ' + line.lstrip(...)` -> `+= line.lstrip(...)` (continuation glued on without SP) -> "
    "delivered-equals-truth:obs-fold:headers / obs-fold-tab:headers / lead-ws:headers",
    "CAUGHT (round 6) http.py lineReceived fold branch -> `pass` (continuation lines dropped) -> smuggled:te-folded-list, delivered-equals-truth:obs-fold*:headers",
    "SURVIVED (equivalent) http.py _parseRequestLine: `c <= 32` -> `c < 32`: a SP in the target already makes line.split(b' ') yield 4 parts -> ValueError -> 400",
    'FIX-CHECK http.py _respondToBadRequestAndDisconnect + `self.dataReceived = self.lineReceived = self.rawDataReceived = lambda *args: None`: all after-close-delivery:* signatures disappear (3000 runs); this is the repair now in /repo f4a6d96',
    "FIX-CHECK http.py _maybeChooseTransferDecoder: remove the `elif data.lower() == b'identity': return True` branch: cl-and-te-identity-accepted disappears (3000 runs); known finding, not repaired, listed in known_findings.json (C19:cl-and-te-identity-accepted:identity): upstream pins the accepting behaviour in test_http.ParsingTests.test_transferEncodingIdentity",
]

FINDINGS = [
    "GENUINE defect of the tree as first examined, REPAIRED in /repo 8e2d9f3; knob NUMERALS_BEYOND_INT_STR_LIMIT (now True = precondition generated in every run that draws "
    "such a width; False only for dev-time comparison): signature C19:server-raised:numeral-cl:beyond:ValueError. "
    "A well-formed Content-Length (1*DIGIT) of more than 4300 digits - e.g. 4300 zeros and '5', well inside MAX_LENGTH / totalHeadersSize = 16384 - passed "
    "`data.isdigit()` in HTTPChannel._maybeChooseTransferDecoder and made `int(data)` raise ValueError (CPython's limit on "
    "decimal str->int conversion, sys.get_int_max_str_digits() = 4300) out of headerReceived / lineReceived / dataReceived: no 400, no close request by the "
    "channel (a reactor logs the exception and drops the connection).  RFC 9110 s.8.6: a recipient MUST anticipate potentially large decimal numerals and "
    "prevent parsing errors due to integer conversion overflows.  Witness: b'POST / HTTP/1.1\\r\\nHost: a\\r\\nContent-Length: ' + b'0'*4300 + b'5\\r\\n\\r\\nhello'. "
    "Repair: `try: length = int(data)` / `except ValueError: return self._failChooseTransferDecoder()` (400 and close).",
    "GENUINE defect of the tree as first examined (sibling of the repaired after-close-delivery finding), REPAIRED in /repo 90cf1c7; knob OVER_LINE_AFTER_CLOSE (now True; False "
    "only for dev-time comparison): signatures "
    "C19:after-close-delivery:line-limit-refusal:extra-output / :request-processed.  A line of the head beyond MAX_LENGTH was refused by "
    "LineReceiver.lineLengthExceeded (transport.loseConnection(); LineReceiver.dataReceived has already discarded the buffered part of the line) without "
    "passing through HTTPChannel._respondToBadRequestAndDisconnect, so the channel stayed attentive: when the transport kept delivering after the close "
    "request (TLSMemoryBIOProtocol does until the peer's close_notify) parsing resumed in the MIDDLE of the refused line - the rest of the over-long value was "
    "read as a field line of its own ('...vvvContent-Length: 5' -> a framing field) and the request, which the server had refused, was handed to the "
    "application with a header set nobody sent, or a late 400 was written.  Witness: dataReceived(b'GET /x HTTP/1.1\\r\\nHost: a\\r\\nX: ' + b'a'*17000) "
    "[close request], then b'aaa', b'Content-Length: 5\\r\\n', b'\\r\\n' -> GET /x processed with header 'Aaacontent-Length: 5'.  Repair: "
    "HTTPChannel.lineLengthExceeded() that calls _respondToBadRequestAndDisconnect() (400, close, and the deaf-ear rebinding of dataReceived / lineReceived / "
    "rawDataReceived the earlier repair introduced).",
    "OUTSIDE the statement, no verdict: how an over-long line is refused - by a bare close on the tree as first examined, by 400 + close since /repo 90cf1c7 (a size limit of the "
    "server; the statement sets none); "
    "field lines of a chunked body's trailer section are discarded unvalidated (NUL, invalid names pass; the section's end is found the same way by every "
    "parser, nothing of it is handed to the application); a bare CR / LF in a value is replaced by SP by Headers' sanitiser and the text behind it is never "
    "honoured as a framing field (checked by family e).",
]
