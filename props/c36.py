"""C36 — SSH channels respect flow control and flush before closing.

Engine E3 (messages): two real SSHConnection services with real SSHChannel
subclasses.  Each service's `transport` is the simulator's MsgTransport whose
sendPacket(messageType, payload) appends to a per-direction FIFO; the tape
chooses which direction delivers its next message (peer.packetReceived) and
how application operations (open / write / writeExtended / writeSequence /
loseConnection / manual adjustWindow) interleave with deliveries, across
several channels with window sizes and packet limits from 1 byte up.  The
channel applications' hooks call back into their channel: dataReceived echoes,
startWriting() writes or hangs up, and stopWriting() - which runs in the middle
of the write (or of the replay of buffered data) that exhausted the window -
hangs up gracefully (loseConnection()) or writes once more.

Oracle: models/ssh_channel_ledger.py, an independent window ledger fed from
the message log (at send and at delivery) plus what the applications wrote:

  exceeds-max-packet / exceeds-window   every DATA / EXTENDED_DATA message fits the
      peer's maximum packet and the window the sender can know about at send time
  stream-order / delivered-in-order     each stream (normal data, each extended type)
      goes onto the wire and reaches the peer application complete and in order
  stalled-with-window                   after every operation: written bytes stay
      unsent only while the known window is exhausted ("delivered once enough window
      is granted")
  close-before-flush                    CHANNEL_CLOSE only when nothing written is unsent
  close-never-sent                      after every operation: a close the application asked for is on the wire once
      nothing it wrote is unsent (the request is noted, not forgotten)
  receiver-refused                      every data message from a peer that respects the
      window is handed to the application (never answered by closing / dropped)
  receiver-replenishes                  with everything delivered, an open receiver does
      not leave its advertised window at 0 while the peer still has data for it
"""
import struct

from twisted.conch.ssh import channel, connection

from models import ssh_channel_ledger as L

ID = "C36"
ENGINE = "net"
LEVEL = "exploration"
TECHNIQUE = ("deterministic simulation: seeded interleaving of channel operations and per-direction FIFO message delivery "
             "between two real SSHConnection services; independent window ledger over the message log")
QUICK_RUNS = 24000
TWIN_P = 0.08   # this share of the runs drives two independent instances of the scenario one after the other (detsim.runner._run_scenario)
USES_DEPTH = True   # thorough tier: history length bound scales with sim.depth (1..3) beyond the quick tier\'s run indices
# watchdog only (runs are step-capped): generous because a full GC pass in a freshly forked worker on a loaded 16-way box was seen to stall a run for >20 s wall
RUN_WALL_LIMIT_S = 120
BATCH = 50
COMPONENTS = {"real": ["twisted.conch.ssh.channel.SSHChannel.write/writeExtended/writeSequence/addWindowBytes/loseConnection",
                       "twisted.conch.ssh.connection.SSHConnection (openChannel, ssh_CHANNEL_OPEN/_CONFIRMATION/_DATA/_EXTENDED_DATA/_WINDOW_ADJUST/_CLOSE, adjustWindow, sendData, sendExtendedData, sendClose)",
                       "twisted.conch.ssh.service.SSHService.packetReceived"],
              "stub": ["SSH transport layer: MsgTransport.sendPacket enqueues whole messages on a reliable per-direction FIFO; the tape picks the direction that delivers next",
                       "channel applications (record callbacks; optionally echo from dataReceived, write or loseConnection() from startWriting, "
                       "loseConnection() or write from stopWriting)"]}
RULE = ("run = 1-3 channels opened by either side with tape-chosen local window (1..64) and maximum packet (1..64) on both ends, then up to ~60 tape-chosen steps "
        "(write / writeExtended with 1-3 extended types / writeSequence / loseConnection with data buffered / manual adjustWindow / deliver next message A->B or B->A), then a drain; "
        "in half of the runs the applications' stopWriting() hook calls back into the stalling channel (loseConnection(), or one more write; per-call coin) - always from inside "
        "the application's own write with data of the same kind, and per run (40% each of the runs with a hook) also hanging up while buffered data is being replayed, writing data "
        "of the OTHER kind than the write that stalled, writing while buffered data is being replayed; in 10% startWriting() hangs up instead of writing; "
        "non-trivial = some write had to be buffered for lack of window AND a later WINDOW_ADJUST delivery flushed buffered bytes")
ASSUMPTIONS = ["the application does not write to a channel after calling loseConnection on it or after closeReceived (a write already in progress "
               "when its stopWriting() hook hangs up was issued before)",
               "a requested close is owed: the statement's 'a requested close is sent only after all buffered data has been sent' is read as 'is sent, and "
               "only after' (loseConnection: 'note the request'), so a channel that has sent everything and never sends the CLOSE its application asked for fails",
               "hooks are called synchronously and may call any channel method (stopWriting's hint 'can be ignored': writing from it is legal); the tree as found "
               "violated the statement for three such call-backs from stopWriting() (FINDINGS 3-5), repaired in /repo 220f069, 1d9adb0, b23aa03",
               "the application writes to a channel only once it is open (from channelOpen() on): before the OPEN_CONFIRMATION a channel has neither a peer window nor a "
               "maximum packet (both 0, outside 'from 1 byte up'); the tree does not support it on either side (write() raises ValueError from range(0, 0, 0) after "
               "setting buf, the accepting side raises KeyError in sendData, writeExtended() buffers and ssh_CHANNEL_OPEN_CONFIRMATION does not flush) and its own "
               "channels (forwarding.py clientBuf) buffer by themselves until channelOpen()",
               "startWriting()/stopWriting() may call back but do not raise: an exception from a hook inside addWindowBytes escapes SSHService.packetReceived and "
               "SSHTransportBase.dataReceived (no handler on that path), so the reactor drops the connection and no later message exists to judge",
               "the transport below delivers whole messages reliably and in order per direction, through a queue: sendPacket() neither raises nor delivers anything back "
               "into the sender before it returns (SSHTransportBase over TCP cannot; write() charges the window only after its send loop, so a WINDOW_ADJUST "
               "handed in from inside sendPacket by a synchronous link would be replayed against an uncharged window)",
               "normal data and each extended data type are separate streams: order is required within a stream, not between streams"]
LEVEL_NOTE = ("seeded search over operation/delivery interleavings, not enumeration; windows and packet limits from {1,2,3,4,5,8,16,64} x {1,2,3,4,7,16,64}. "
              "20% of runs admit a 1-byte window and 30% allow loseConnection() with two buffered extended-data entries: the only families that reach the first two "
              "defects listed in FINDINGS (both REPAIRED in /repo: 4407136, 11d5935); the other runs keep those preconditions out. "
              "Three sub-families of the stopWriting() hook (each ~13% of runs: hang up while buffered data is being replayed, write data of the OTHER kind "
              "than the write that stalled, write while buffered data is being replayed) are the only ones that reached FINDINGS 3-5 (repaired in /repo: 220f069, "
              "1d9adb0, b23aa03); they are ordinary families now, and violations after such a hook action carry an `after-stopWriting-...` witness of their own.")

WINDOWS = [8, 2, 3, 4, 5, 16, 64, 1]
MAXPKTS = [64, 1, 2, 3, 4, 7, 16]


class MsgTransport:
    """The simulator's stand-in for SSHTransportBase as seen by a service."""

    def __init__(self, world, side):
        self.world = world
        self.side = side
        self.unimplemented = 0

    def sendPacket(self, messageType, payload):
        self.world.send(self.side, messageType, payload)

    def sendUnimplemented(self):
        self.unimplemented += 1

    def logPrefix(self):
        return "MsgTransport-%s" % self.side

    @property
    def transport(self):
        return self

    def getPeer(self):
        return ("sim", self.side, "peer")

    def getHost(self):
        return ("sim", self.side, "host")

    def loseConnection(self):
        self.world.lost.append(self.side)


class Chan(channel.SSHChannel):
    name = b"sim"

    def __init__(self, world, side, index, **kw):
        channel.SSHChannel.__init__(self, **kw)
        self.world = world
        self.side = side
        self.index = index          # logical channel number (harness bookkeeping)
        self.is_open = False
        self.failed = False
        self.got = []               # (stream, bytes) in callback order
        self.close_received = False
        self.closed_called = 0
        self.hints = []

    def channelOpen(self, specificData):
        self.is_open = True
        self.world.sim.event(self.side, "channelOpen", self.index)

    def openFailed(self, reason):
        self.failed = True

    def dataReceived(self, data):
        self.got.append(("data", data))
        self.world.app_received(self, "data", data)

    def extReceived(self, dataType, data):
        self.got.append(("ext%d" % dataType, data))
        self.world.app_received(self, "ext%d" % dataType, data)

    def closeReceived(self):
        self.close_received = True
        self.world.sim.event(self.side, "closeReceived", self.index)
        channel.SSHChannel.closeReceived(self)      # default behaviour: loseConnection()

    def closed(self):
        self.closed_called += 1

    def startWriting(self):
        self.hints.append("start")
        self.world.start_writing(self)

    def stopWriting(self):
        self.hints.append("stop")
        self.world.stop_writing(self)


class Conn(connection.SSHConnection):
    def __init__(self, world, side):
        connection.SSHConnection.__init__(self)
        self.world = world
        self.side = side

    def channel_sim(self, windowSize, maxPacket, data):
        (index,) = struct.unpack(">L", data[:4])
        return self.world.accept(self.side, index, windowSize, maxPacket)


class World:
    def __init__(self, sim):
        self.sim = sim
        self.ctx = "setup"
        self.queue = {"A": [], "B": []}       # messages travelling TOWARDS that side
        self.lost = []
        self.ledger = L.Ledger(self.fail)
        self.trans = {"A": MsgTransport(self, "A"), "B": MsgTransport(self, "B")}
        self.conn = {"A": Conn(self, "A"), "B": Conn(self, "B")}
        for s in "AB":
            self.conn[s].transport = self.trans[s]
            self.conn[s].serviceStarted()
        self.chans = []                        # logical channels: {"A": Chan|None, "B": Chan|None, "opener": side}
        self.writable = {}                     # (index, side) -> application may still write
        self.counters = {}                     # (index, side, stream) -> bytes generated so far
        self.received = {}                     # (index, receiving side, stream) -> bytearray from callbacks
        self.flags = {"buffered": 0, "flushed_on_adjust": 0, "close_pending": 0, "multi_ext": 0}
        self.cfg = {}
        self.ext_runs = {}                     # (index, side) -> (type changes among writeExtended calls since ext data was last fully sent, last type)
        self.reentrant_budget = 8              # writes issued from inside callbacks (keeps echo ping-pong finite)
        self.cur_write = []                    # stack of (index, side, kind) of application write calls in progress
        self.lose_origin = {}                  # (index, side) -> where the application called loseConnection() ("app" / hook name)
        self.hunt_tag = None                   # last stopWriting() action outside the application's own same-kind write that fired in this run (signature grouping only)

    # ---- oracle plumbing
    def fail(self, clause, witness, detail):
        self.sim.check(clause, False, self.tagged(witness), detail)

    def tagged(self, witness):
        """Signature grouping only: a run in which a stopWriting() hook has acted during a replay of buffered data, or has
        written data of the other kind (the three sub-families that found FINDINGS 3-5), reports under a witness of its own,
        so that a regression there is named and never shares a signature with the plain one."""
        return witness if self.hunt_tag is None else "after-%s,%s" % (self.hunt_tag, witness)

    # ---- wire
    def send(self, side, mtype, payload):
        m = self.ledger.sent(side, mtype, payload, self.ctx)
        self.sim.event("send", side, self._abstract(m))
        self.queue[L.other(side)].append((mtype, payload))

    @staticmethod
    def _abstract(m):
        t = m["t"]
        if t in ("DATA", "EXTENDED_DATA"):
            return "%s ch%d %s len=%d" % (t, m["rcpt"], m["stream"], len(m["data"]))
        if t == "WINDOW_ADJUST":
            return "%s ch%d +%d" % (t, m["rcpt"], m["n"])
        if t in ("OPEN", "OPEN_CONFIRMATION"):
            return "%s win=%d maxpkt=%d" % (t, m["window"], m["maxpkt"])
        if "rcpt" in m:
            return "%s ch%d" % (t, m["rcpt"])
        return t

    def deliver(self, side):
        """Hand the next message travelling towards `side` to its service."""
        sim = self.sim
        mtype, payload = self.queue[side].pop(0)
        m = self.ledger.delivered(side, mtype, payload)
        t = m["t"]
        self.ctx = t
        sim.event("deliver", side, self._abstract(m))
        chan = None
        before = None
        pend_before = None
        p = m.get("pair")
        if p is not None and t in ("DATA", "EXTENDED_DATA"):
            chan = self.conn[side].channels.get(m["rcpt"])
            before = len(chan.got) if chan is not None else None
        if p is not None and t == "WINDOW_ADJUST":
            pend_before = p.half[side].pending()
        with sim.guard("handler-raised", t):
            self.conn[side].packetReceived(mtype, payload)
        self.raise_pending()
        if t in ("DATA", "EXTENDED_DATA") and p is not None:
            kind = "data" if t == "DATA" else "ext"
            ok = chan is not None and len(chan.got) >= before + 1 and chan.got[before] == (m["stream"], m["data"])
            sim.check("receiver-refused", ok, kind,
                      lambda: "%s got %s of %d bytes on channel %r within its advertised window (outstanding before: %d, max packet %d) "
                              "but its application was not given the data" % (side, t, len(m["data"]), p.key,
                                                                              p.half[L.other(side)].window_outstanding() + len(m["data"]), p.half[L.other(side)].maxpkt))
        if pend_before:
            if p.half[side].pending() < pend_before:
                self.flags["flushed_on_adjust"] += 1
                sim.probe("flushed_on_adjust")
        self.after_op()

    def raise_pending(self):
        # an oracle failure raised inside real code may have been swallowed (ssh_CHANNEL_OPEN catches Exception)
        if self.sim.violation is not None:
            raise self.sim.violation

    # ---- channel creation
    def open(self, side, index, window, maxpkt, peer_window, peer_maxpkt):
        self.ctx = "app-open"
        c = Chan(self, side, index, localWindow=window, localMaxPacket=maxpkt, conn=self.conn[side])
        self.chans.append({"A": None, "B": None, "opener": side, "peer_window": peer_window, "peer_maxpkt": peer_maxpkt})
        self.chans[index][side] = c
        self.sim.event("open", side, index, window, maxpkt)
        with self.sim.guard("api-raised", "openChannel"):
            self.conn[side].openChannel(c, struct.pack(">L", index))
        self.raise_pending()

    def accept(self, side, index, windowSize, maxPacket):
        lc = self.chans[index]
        c = Chan(self, side, index, localWindow=lc["peer_window"], localMaxPacket=lc["peer_maxpkt"],
                 remoteWindow=windowSize, remoteMaxPacket=maxPacket)
        lc[side] = c
        return c

    # ---- application behaviour
    def gen(self, index, side, stream, n):
        k = (index, side, stream)
        start = self.counters.get(k, 0)
        self.counters[k] = start + n
        salt = {"data": 0, "ext1": 85, "ext2": 170, "ext3": 201}[stream]
        return bytes(((i * 7 + salt + index * 13) % 251) for i in range(start, start + n))

    def can_write(self, index, side):
        c = self.chans[index][side]
        return c is not None and c.is_open and self.writable.get((index, side), True) and not c.close_received

    def app_write(self, index, side, how, stream, n, parts=1):
        c = self.chans[index][side]
        data = self.gen(index, side, stream, n)
        if stream != "data":
            cnt, last = self.ext_runs.get((index, side), (0, None)) if self.ext_pending(index, side) else (0, None)
            self.ext_runs[(index, side)] = (cnt + (stream != last), stream)
        self.ledger.wrote(side, c.id, stream, data)
        self.sim.event("app", side, index, how, stream, n)
        self.cur_write.append((index, side, "data" if stream == "data" else "ext"))
        try:
            with self.sim.guard("api-raised", how):
                if how == "write":
                    c.write(data)
                elif how == "writeSequence":
                    cut = [data[i * n // parts:(i + 1) * n // parts] for i in range(parts)]
                    kind = self.sim.draw_choice(["list", "tuple", "generator"], "iovec")   # any iterable of bytes is a legal argument
                    if kind == "generator":
                        self.sim.probe("writeSequence_one_shot_iterable")
                    c.writeSequence(cut if kind == "list" else tuple(cut) if kind == "tuple" else (x for x in cut))
                else:
                    c.writeExtended(int(stream[3:]), data)
        finally:
            self.cur_write.pop()
        self.raise_pending()
        h = self.ledger.pair_of(side, c.id).half[side]
        if h.pending():
            self.flags["buffered"] += 1
            self.sim.fault("window_exhausted")      # back-pressure fired: part of this write had to wait for window
            if len([s for s in h.pending_streams() if s != "data"]) >= 2:
                self.flags["multi_ext"] += 1
                self.sim.probe("two_ext_types_buffered")

    def ext_pending(self, index, side):
        c = self.chans[index][side]
        h = self.ledger.pair_of(side, c.id).half[side]
        return h.pending() > 0 and any(s != "data" for s in h.pending_streams())

    def may_hold_two_ext_entries(self, index, side):
        """Workload shaping only (never used by the oracle): an upper bound on how many
        separately buffered extended-data entries the channel can be holding."""
        if not self.ext_pending(index, side):
            return False
        return self.ext_runs.get((index, side), (0, None))[0] >= 2

    def app_lose(self, index, side, origin="app"):
        c = self.chans[index][side]
        self.writable[(index, side)] = False
        self.lose_origin.setdefault((index, side), origin)
        self.ledger.close_requested(side, c.id)
        h = self.ledger.pair_of(side, c.id).half[side]
        self.sim.event("app", side, index, "loseConnection", "pending=%d" % h.pending(), origin)
        if h.pending():
            self.flags["close_pending"] += 1
            self.sim.fault("close_with_data_buffered")
        with self.sim.guard("api-raised", "loseConnection"):
            c.loseConnection()
        self.raise_pending()

    def app_adjust(self, index, side, n):
        c = self.chans[index][side]
        self.sim.event("app", side, index, "adjustWindow", n)
        self.sim.probe("manual_adjust")
        with self.sim.guard("api-raised", "adjustWindow"):
            self.conn[side].adjustWindow(c, n)
        self.raise_pending()

    def app_received(self, chan, stream, data):
        r = self.received.setdefault((chan.index, chan.side, stream), bytearray())
        off = len(r)
        r.extend(data)
        sender = L.other(chan.side)
        h = self.ledger.pair_of(sender, self.chans[chan.index][sender].id).half[sender]
        w = h.written.get(stream, b"")
        self.sim.check("delivered-in-order", bytes(w[off:off + len(data)]) == data, self.tagged("data" if stream == "data" else "ext"),
                       lambda: "application %s received %r at offset %d of %s on channel %d; written there: %r"
                               % (chan.side, data[:24], off, stream, chan.index, bytes(w[off:off + 24])))
        # echo-style application: answer from inside the callback
        if self.cfg.get("echo") and self.reentrant_budget > 0 and self.can_write(chan.index, chan.side) and self.sim.draw_bool(0.3, "echo"):
            self.reentrant_budget -= 1
            self.sim.probe("write_from_dataReceived")
            self.app_write(chan.index, chan.side, "write", "data", self.sim.draw_int(1, 4, "echolen"))

    def stop_writing(self, chan):
        """The application's stopWriting() hook.  It runs in the middle of whatever made the channel stall - the application's
        own write()/writeExtended() call, or the replay of buffered data inside a WINDOW_ADJUST - and a hook may call back into
        its channel: hang up gracefully on a consumer that is too slow (loseConnection()), or write once more (the hint "can be
        ignored", e.g. a note on the other stream that output is stalling)."""
        mode = self.cfg.get("on_stop")
        if not mode or self.reentrant_budget <= 0 or not self.can_write(chan.index, chan.side):
            return
        if not self.sim.draw_bool(0.5, "onstop"):
            return
        # Workload shaping only (what a real application knows: which of its own write calls, if any, it is inside of): per-run
        # knobs decide whether the hook also acts while buffered data is being replayed, and whether it writes the other kind.
        mine = [k for (i, s, k) in self.cur_write if (i, s) == (chan.index, chan.side)]
        direct = mine[-1] if mine else None         # None: the stall is a replay of buffered data (addWindowBytes)
        act = mode if mode != "either" else self.sim.draw_choice(["lose", "write"], "onstop_act")
        if act == "lose":
            if direct is None and not self.cfg.get("hook_lose_in_replay"):
                return
            self.reentrant_budget -= 1
            self.sim.fault("lose_from_stopWriting")
            if direct is None:
                self.sim.probe("lose_from_stopWriting_in_replay")
                self.hunt_tag = "stopWriting-lose-in-replay"
            self.app_lose(chan.index, chan.side, origin="stopWriting")
            return
        kinds = [direct] if direct else []
        if direct is None and self.cfg.get("hook_write_in_replay"):
            kinds = ["data", "ext"]
        elif direct and self.cfg.get("hook_write_other_kind"):
            kinds = [direct, "ext" if direct == "data" else "data"]
        if not kinds:
            return
        kind = self.sim.draw_choice(kinds, "onstop_kind")
        self.reentrant_budget -= 1
        self.sim.fault("write_from_stopWriting")
        if direct is None:
            self.sim.probe("write_from_stopWriting_in_replay")
            self.hunt_tag = "stopWriting-write-in-replay"
        elif kind != direct:
            self.sim.probe("write_from_stopWriting_other_kind")
            self.hunt_tag = "stopWriting-write-other-kind"
        if kind == "ext":
            self.app_write(chan.index, chan.side, "writeExtended", "ext%d" % self.sim.draw_choice(self.cfg["ext_types"], "onstop_etype"), self.sim.draw_int(0, 4, "len"))
        else:
            self.app_write(chan.index, chan.side, "write", "data", self.sim.draw_int(0, 4, "len"))

    def start_writing(self, chan):
        if self.cfg.get("lose_on_start") and self.reentrant_budget > 0 and self.can_write(chan.index, chan.side) and self.sim.draw_bool(0.3, "onstart_lose"):
            # an application that had finished and was only waiting for room hangs up from the hook
            self.reentrant_budget -= 1
            self.sim.fault("lose_from_startWriting")
            self.app_lose(chan.index, chan.side, origin="startWriting")
            return
        if self.cfg.get("write_on_start") and self.reentrant_budget > 0 and self.can_write(chan.index, chan.side) and self.sim.draw_bool(0.5, "onstart"):
            self.reentrant_budget -= 1
            self.sim.probe("write_from_startWriting")
            if self.sim.draw_bool(0.5, "onstart_ext"):
                self.app_write(chan.index, chan.side, "writeExtended", "ext%d" % self.cfg["ext_types"][0], self.sim.draw_int(1, 4, "len"))
            else:
                self.app_write(chan.index, chan.side, "write", "data", self.sim.draw_int(1, 4, "len"))

    # ---- invariants after every top-level operation
    def after_op(self):
        sim = self.sim
        for p in self.ledger.pairs:
            for x in "AB":
                h = p.half[x]
                if not h.known:
                    continue
                pend = h.pending()
                if pend > 0 and h.window_known() > 0 and not h.close_sent:
                    sim.check("stalled-with-window", False, self.tagged("+".join(h.pending_kinds())),
                              "%s holds %d unsent bytes (%r) on channel %r although %d bytes of window are known to it (ctx %s)"
                              % (x, pend, h.pending_streams(), p.key, h.window_known(), self.ctx))
                # "a requested close is sent ... after all buffered data has been sent": once nothing the application wrote is
                # unsent, a close it asked for is on the wire by the end of the operation that sent the last byte
                if h.close_requested and pend == 0 and not h.close_sent:
                    key = [i for i, lc in enumerate(self.chans) if lc[x] is not None and lc[x].id == p.ids.get(x)]
                    origin = self.lose_origin.get((key[0], x), "app") if key else "app"
                    sim.check("close-never-sent", False, self.tagged("requested-from=" + origin),
                              "%s asked to close channel %r (loseConnection() called from %s); everything written has been sent, "
                              "yet no CHANNEL_CLOSE has been sent by the end of this operation (ctx %s)" % (x, p.key, origin, self.ctx))
        for s in "AB":
            sim.check("no-unimplemented", self.trans[s].unimplemented == 0, s, "sendUnimplemented called")

    def abstract_state(self):
        out = []
        for p in self.ledger.pairs:
            for x in "AB":
                h = p.half[x]
                pend = h.pending()
                out.append("%d%d%d%d%s" % (min(h.window_known(), 3), min(pend, 3), len(h.pending_streams()) if pend else 0, min(h.window_outstanding(), 3),
                                           ("c" if h.close_requested else "") + ("C" if h.close_sent else "")))
        return ",".join(out)


def run(sim):
    w = World(sim)
    nchan = sim.draw_choice([1, 2, 3], "nchan")
    ext_types = sim.draw_choice([[1], [1, 2], [1, 2, 3], [1, 2]], "ext_types")
    # Two families carry the preconditions of the first two defects this check found on the tree as first examined
    # (see FINDINGS below; both REPAIRED in /repo: 4407136, 11d5935); they are let into 20% / 30% of the runs,
    # the other runs keep those preconditions out.
    tiny_window = sim.draw_bool(0.2, "allow_window_1")
    hunt_close_ext = sim.draw_bool(0.3, "hunt_close_between_ext_entries")
    windows = WINDOWS if tiny_window else WINDOWS[:-1]
    big = sim.draw_choice([0, 0, 1], "big_writes")
    lose_w = sim.draw_choice([2, 1, 4], "lose_weight")
    w.cfg = {"nchan": nchan, "ext_types": ext_types, "allow_window_1": tiny_window, "hunt_close_ext": hunt_close_ext, "big_writes": big, "lose_weight": lose_w,
             "echo": sim.draw_bool(0.2, "echo_app"), "write_on_start": sim.draw_bool(0.2, "write_on_start"),
             # application hooks that call back into their channel (first item = plain hooks)
             "on_stop": sim.draw_choice([None, None, "lose", None, "write", "either"], "on_stop"),
             "lose_on_start": sim.draw_bool(0.1, "lose_on_start"),
             # where a stopWriting() hook acts besides inside the application's own write of the same kind (each in 40% of the
             # runs with a hook: the majority of runs stays without them, so everything else is exercised undisturbed)
             "hook_lose_in_replay": sim.draw_bool(0.4, "hook_lose_in_replay"),
             "hook_write_other_kind": sim.draw_bool(0.4, "hook_write_other_kind"),
             "hook_write_in_replay": sim.draw_bool(0.4, "hook_write_in_replay")}
    sim.config = dict(w.cfg)
    nsteps = sim.draw_int(8, 70 * sim.depth, "nsteps")
    opened = 0

    def writers():
        return [(i, s) for i in range(len(w.chans)) for s in "AB" if w.can_write(i, s)]

    def adjusters():
        out = []
        for i, lc in enumerate(w.chans):
            for s in "AB":
                c = lc[s]
                if c is not None and c.is_open and w.writable.get((i, s), True) and not c.close_received:
                    out.append((i, s))
        return out

    def length():
        if big and sim.draw_bool(0.2, "biglen"):
            return sim.draw_int(13, 48, "len")
        return sim.draw_int(0, 12, "len")

    for _ in range(nsteps):
        sim.step(400 * sim.depth)
        ws = writers()
        ops = []
        ops.append(("net", 8 if (w.queue["A"] or w.queue["B"]) else 0))
        ops.append(("write", 5 if ws else 0))
        ops.append(("ext", 5 if ws else 0))
        ops.append(("open", 4 if opened < nchan else 0))
        ops.append(("seq", 1 if ws else 0))
        losers = ws if hunt_close_ext else [c for c in ws if not w.may_hold_two_ext_entries(*c)]
        ops.append(("lose", lose_w if losers else 0))
        ops.append(("adjust", 1 if adjusters() else 0))
        if not any(wt for _, wt in ops):
            break
        op = sim.draw_weighted(ops, "op")
        if op == "net":
            side = sim.draw_choice([s for s in "AB" if w.queue[s]], "dir")
            w.deliver(side)
            continue
        w.ctx = "app-" + op
        if op == "open":
            side = sim.draw_choice(["A", "B"], "opener")
            w.open(side, opened, sim.draw_choice(windows, "lwin"), sim.draw_choice(MAXPKTS, "lmax"),
                   sim.draw_choice(windows, "pwin"), sim.draw_choice(MAXPKTS, "pmax"))
            opened += 1
        elif op in ("write", "seq", "ext"):
            i, s = sim.draw_choice(ws, "chan")
            n = length()
            if op == "write":
                w.app_write(i, s, "write", "data", n)
            elif op == "seq":
                w.app_write(i, s, "writeSequence", "data", n, parts=sim.draw_int(1, 3, "parts"))
            else:
                w.app_write(i, s, "writeExtended", "ext%d" % sim.draw_choice(ext_types, "etype"), n)
        elif op == "lose":
            i, s = sim.draw_choice(losers, "chan")
            w.app_lose(i, s)
        elif op == "adjust":
            i, s = sim.draw_choice(adjusters(), "chan")
            w.app_adjust(i, s, sim.draw_int(1, 8, "grant"))
        w.after_op()
        sim.state(w.abstract_state())

    # drain: deliver everything that is in flight (the tape still picks the direction)
    n = 0
    while w.queue["A"] or w.queue["B"]:
        n += 1
        sim.step(4000 * sim.depth)
        side = sim.draw_choice([s for s in "AB" if w.queue[s]], "dir")
        w.deliver(side)
        sim.state(w.abstract_state())
    sim.event("drained", w.abstract_state())

    # quiescent: everything sent has been delivered
    for index, lc in enumerate(w.chans):
        for x in "AB":
            sc = lc[x]
            if sc is None or sc.id is None:
                continue
            p = w.ledger.pair_of(x, sc.id)
            if p is None or not p.confirmed:
                continue
            h = p.half[x]
            r = L.other(x)
            for stream in sorted(h.sent):
                got = bytes(w.received.get((index, r, stream), b""))
                sim.check("sent-is-delivered", got == bytes(h.sent[stream]), "data" if stream == "data" else "ext",
                          lambda: "channel %d %s->%s stream %s: %d bytes on the wire, application received %d" % (index, x, r, stream, len(h.sent[stream]), len(got)))
            # liveness of the receiver's replenishment: nothing in flight, R still open, X has data, window left at zero
            rh = p.half[r]
            if h.pending() > 0 and not h.close_sent and not rh.close_sent and h.window_outstanding() == 0:
                sim.check("receiver-replenishes", False, "localWindow=1" if h.init == 1 else "localWindow>1",
                          "channel %d: %s (initial window %d, %d adjusts sent) advertises 0 bytes with everything delivered and its side open, "
                          "while %s still holds %d unsent bytes" % (index, r, h.init, h.adjusts_sent, x, h.pending()))
            if h.close_sent:
                sim.probe("close_sent")
    sim.nontrivial = bool(w.flags["buffered"] and w.flags["flushed_on_adjust"])


# Defects this check found on the tree as first examined (twisted 24.7.0.post0).  Each has its own stable signature; the
# witness_tape values are replay tapes for one version of run() (any change to the order of draws invalidates them: the tapes of
# the first two entries predate the hook families; those of entries 3-5 are for THIS version).  All five are repaired in /repo
# (entry 1: 4407136, entry 2: 11d5935 'fix: SSH connection replenishes a one-byte channel window', entries 3-5: 220f069, 1d9adb0, b23aa03),
# so none of the tapes violates any more.  The two families `hunt_close_ext` (30% of runs) and `allow_window_1` (20%) are the only
# ones that can reach the first two, the three `hook_*` sub-families of the stopWriting() hook the only ones that reach entries 3-5.
FINDINGS = [
    {"signature": "C36:close-before-flush:unsent=ext,in=WINDOW_ADJUST",
     "what": "SSHChannel.addWindowBytes empties self.extBuf into a local list and replays it through writeExtended(); with a close pending, "
             "writeExtended() calls loseConnection() after the FIRST entry, which sees buf and extBuf empty and sends CHANNEL_CLOSE; the remaining "
             "entries are then dropped by sendExtendedData (localClosed).  Needs >= 2 extBuf entries (two extended types, or a zero-length "
             "writeExtended of another type in between) + loseConnection() + a WINDOW_ADJUST that flushes the first entry completely.",
     "witness_tape": [0, 1, 0, 1, 0, 0, 0, 0, 0, 0, 0, 0, 0, 0, 0, 0, 2, 8, 0, 2, 1, 0, 2, 1, 1, 5]},
    {"signature": "C36:receiver-replenishes:localWindow=1",
     "what": "SSHConnection.ssh_CHANNEL_DATA / ssh_CHANNEL_EXTENDED_DATA replenish only when localWindowLeft < localWindowSize // 2; for "
             "localWindowSize == 1 that is `0 < 0`, so a channel with a 1-byte window never sends WINDOW_ADJUST and its peer is starved after the first byte.",
     "witness_tape": [0, 0, 1, 0, 0, 0, 0, 0, 0, 0, 0, 7, 0, 0, 0, 0, 1, 2]},
    {"signature": "C36:close-never-sent:after-stopWriting-lose-in-replay,requested-from=stopWriting",
     "knob": "hook_lose_in_replay", "status": "repaired in /repo 220f069 (fix: SSHChannel.addWindowBytes keeps a close requested while it replays extended data)",
     "what": "SSHChannel.addWindowBytes held a pending close back while it replays extBuf (`closing, self.closing = self.closing, False ... finally: "
             "self.closing = closing`, added by the /repo commit 'fix: SSHChannel sends buffered extended data of every type before a pending close'). "
             "If a replayed writeExtended() runs out of window again it calls stopWriting(); an application that calls loseConnection() from that hook sets "
             "self.closing = 1, which the `finally` overwrites with the saved 0: the request is forgotten, the data is delivered later but CHANNEL_CLOSE is "
             "never sent (and startWriting() is called again on a channel its application has closed).  Stand-alone: remoteWindow=2; writeExtended(1, b'abcdef'); "
             "addWindowBytes(2) with stopWriting() calling loseConnection(); addWindowBytes(10) -> EXT 'ab','cd','ef', no CLOSE, closing == 0.  "
             "Repair: `finally: closing = self.closing = closing or self.closing`.",
     "witness_tape": [0, 0, 0, 0, 0, 2, 0, 0, 0, 2, 0, 1, 0, 0, 0, 0, 0, 0, 0, 0, 0, 0, 0, 2, 0, 1, 7, 0, 0, 0, 1, 0, 0]},
    {"signature": "C36:exceeds-window:after-stopWriting-write-other-kind,*  (also stream-order:after-stopWriting-write-other-kind,data; the same inside a replay: after-stopWriting-write-in-replay,*)",
     "knob": "hook_write_other_kind", "status": "repaired in /repo 1d9adb0 (fix: SSHChannel calls stopWriting() only after charging the window for what it sent)",
     "what": "write() and writeExtended() called stopWriting() after splitting off what has to wait but BEFORE sending the head and charging it to "
             "remoteWindowLeft.  A hook that writes data of the other kind (writeExtended from write's hook or vice versa) finds the other buffer empty and the "
             "whole window apparently free, sends, and the outer call then sends its head as well: more bytes than the peer's window on the wire.  In write() "
             "`top = self.remoteWindowLeft` is re-read after the hook, so with a small remoteMaxPacket the last bytes of the head are silently dropped instead "
             "(stream-order:data).  Stand-alone: remoteWindow=3; stopWriting() does writeExtended(1, b'!'); write(b'abcde') -> EXT '!', DATA 'abc' = 4 bytes into a "
             "3-byte window.  Repair: the hook (`self.areWriting = 0; self.stopWriting()`) is called after the head has been sent and the window charged.",
     "witness_tape": [0, 0, 0, 0, 0, 0, 0, 0, 0, 4, 0, 0, 1, 0, 0, 0, 0, 0, 0, 0, 0, 0, 0, 1, 0, 12, 1, 1, 1]},
    {"signature": "C36:stream-order:after-stopWriting-write-in-replay,ext",
     "knob": "hook_write_in_replay", "status": "repaired in /repo b23aa03 (fix: SSHChannel.addWindowBytes puts unreplayed extended data back before calling stopWriting())",
     "what": "SSHChannel.addWindowBytes detached extBuf and replayed the entries one by one through writeExtended().  When the first entry runs out of window "
             "again, stopWriting() runs while the entries not yet replayed are in neither buffer; a writeExtended() from the hook is queued right behind the "
             "stalled remainder and the older entries are appended behind IT: bytes of one extended stream overtake older ones.  Stand-alone: remoteWindow=0; "
             "writeExtended(1, b'abc'); writeExtended(2, b'Z'); addWindowBytes(2) with stopWriting() doing writeExtended(2, b'Y'); addWindowBytes(10) -> "
             "EXT1 'ab','c', EXT2 'YZ' (written: Z then Y).  Repair: in the replay loop, when an entry does not fit, what fits is sent, "
             "`[[type, rest]] + entries not yet replayed` is put back into self.extBuf and only then stopWriting() is called.",
     "witness_tape": [0, 0, 1, 0, 0, 2, 0, 0, 0, 4, 0, 0, 0, 1, 0, 0, 0, 0, 0, 0, 0, 0, 0, 2, 0, 1, 7, 0, 0, 2, 0, 0, 1, 1, 0, 0, 1, 1, 1, 1]},
]

MUTANTS = [
    "channel.py writeExtended: `self.remoteWindowLeft -= len(data)` -> `pass` (extended data not charged to the window) -> caught (exceeds-window:data/ext)",
    "channel.py loseConnection: `if not self.buf and not self.extBuf` -> `if not self.extBuf` (close with buf non-empty) -> caught (close-before-flush:unsent=data,in=app-lose / in=CLOSE)",
    "channel.py loseConnection: `if not self.buf and not self.extBuf` -> `if not self.buf` -> caught (close-before-flush:unsent=ext,in=app-lose)",
    "channel.py writeExtended: `if len(data) > self.remoteWindowLeft` -> `if False` (extended data bypasses the window) -> caught (exceeds-window:ext)",
    "channel.py write: `rmp = self.remoteMaxPacket` -> `+ 1` -> caught (exceeds-max-packet:data)",
    "channel.py write: `self.remoteWindowLeft -= top` -> `-= top + 1` (window decremented by the wrong amount) -> caught (stalled-with-window:data/ext, exceeds-window:ext)",
    "channel.py addWindowBytes: grants `data + 1` -> caught (exceeds-window:data/ext)",
    "channel.py write: `self.buf += data` -> `self.buf = data` -> caught (stream-order:data)",
    "channel.py addWindowBytes: `for type, data in reversed(b)` -> caught (stream-order:ext)",
    "channel.py writeExtended: merge test `self.extBuf[-1][0] == dataType` -> `self.extBuf[0][0]` -> caught (stream-order:ext)",
    "connection.py ssh_CHANNEL_DATA: `channel.localWindowLeft -= dataLength` -> `-= dataLength + 1` -> caught (receiver-refused:data)",
    "connection.py adjustWindow: drop `channel.localWindowLeft += bytesToAdd` -> caught (receiver-refused:data)",
    "connection.py ssh_CHANNEL_EXTENDED_DATA: replenish test -> `localWindowLeft < 0` (never replenishes) -> caught (receiver-replenishes:localWindow>1)",
    "channel.py writeExtended: `self.areWriting = 0; self.stopWriting()` moved above the split into head / extBuf remainder (hook sees empty buffers) -> caught "
    "(close-before-flush:unsent=ext,in=app-ext; stream-order:ext; stalled-with-window:ext) by loseConnection()/writeExtended() issued from stopWriting()",
    "channel.py write: same move in write() -> caught (close-before-flush:unsent=data,in=app-write / in=WINDOW_ADJUST; stream-order:data)",
    "channel.py loseConnection: `self.closing = 1` only when the buffers are empty (request not noted while data is buffered) -> caught "
    "(close-never-sent:requested-from=app / startWriting / stopWriting)",
    "the three repairs of FINDINGS 3-5 reverted one at a time (/repo 220f069, 1d9adb0, b23aa03) -> each caught under its own tagged signature "
    "(close-never-sent:after-stopWriting-lose-in-replay,...; exceeds-window:after-stopWriting-write-other-kind,...; stream-order:after-stopWriting-write-in-replay,ext)",
    "the repairs of FINDINGS 1-2 (now in /repo 4407136, 11d5935) applied together (addWindowBytes replays extBuf with closing suspended then calls loseConnection(); replenish test `< max(localWindowSize // 2, 1)`) -> check passes, 16000 runs, exit 0",
]
