"""C25 — static file range requests under a pulled, back-pressured response stream.

Engine E3 (net), shared HTTP harness.  A real twisted.web.static.File (a real
scratch file whose every byte is a function of its offset) is served by a real
server.Site / HTTPChannel on a SimTransport.  1-3 connections, one after the
other, each with 1-3 pipelined GET/HEAD requests (HTTP/1.1, the last possibly
HTTP/1.0 or Connection: close) carry Range headers from a grammar (single,
multiple, suffix, open-ended, clamped, overlapping, unordered, unsatisfiable,
reversed, malformed, other units, empty elements, optional whitespace,
lenient-integer forms); a later request may repeat an earlier Range value.

The file is not the same for ever: in a share of the runs it is rewritten
BETWEEN two requests (grown, shrunk, emptied, same size with other bytes; in
place or by rename) - between two pipelined requests of one connection (a hook
in Site.getResourceFor: the previous response has been finished, the next
request has not been looked at) and between connections - and range positions
are then drawn around every size the file has in the run.  Every response is
judged against the file as it was when its request was rendered.  The File
object is one for the whole run (putChild) or a fresh one per request (the
served directory's getChild -> createSimilarFile), the Site one per run or one
per connection: nothing remembered per path, per File object or per class may
outlive the file it was computed from.

Nor does it always stay the same UNDER a response: the producers carry an open file from one pull to the next, for as
long as the client takes, and other processes write to the same file system.  In an eighth of the runs a writer touches
the file between two pulls of one response (after the header fields were computed): replaces it by rename, grows it,
overwrites it, or - the precondition of a finding repaired in /repo 36cba82, kept out of some runs by a knob - shortens
or empties it in place.  A replaced path leaves the open file alone: the response is due exactly as computed.  Changed in place, the
bytes (and, shortened, the length) of the response are no function of the request any more and get no verdict; what
remains is the statement's last sentence: no pull may hang or raise, and the response must END - finish(), or the
connection given up - instead of being polled for ever.

The representation is not always the bytes on disk: static.File documents two
subclass hooks ("methods to allow subclasses to e.g. decrypt files on the fly":
openForReading() and getFileSize()).  In 40% of the runs the resource is such a
subclass - the stored file carries a header and/or a trailer that is not served,
or is stored deflated and inflated on the fly - so the length on disk differs
from the length of what is served.  Ranges, Content-Range (complete-length
included), Content-Length and the 416 header are judged against the SERVED
representation, which is the only thing a client can see.

A second family (a fifth of the runs) leaves the HTTP channel out: File.render()
writes into a minimal IRequest-like consumer (PullConsumer) that pulls the
producer itself - from its driver between writes, inside registerProducer(), or
from INSIDE request.write() up to a tape-chosen nesting depth (the channel wraps
pull producers in _PullToPush, which never re-enters; the StaticProducers
themselves say "be prepared for a re-entrant call"), possibly with two responses
for the same path in production at once, possibly stopping the producer between
two pulls.

What the simulator owns: the three StaticProducers are PULL producers that emit
at most `bufferSize` bytes per resumeProducing() and carry a cursor (and, for
multipart, the pending part separator and the position inside the current part)
from one call to the next.  `bufferSize` is a per-run knob from 1 byte up (with
the default 64 KiB and files <= 64 KiB the multi-call path would never run), the
cooperator that drives _PullToPush runs on the simulated clock with tape-chosen
bursts, the client reads tape-chosen amounts at tape-chosen moments against a
small send buffer (so the channel pauses and resumes the producer), the request
bytes arrive in tape-chosen pieces, and in a fault family the connection is lost
at a tape-chosen event.

Oracle: models/ranges.py (RFC 9110 section 14 evaluator + multipart/byteranges
reader, no Twisted import) gives the allowed status, Content-Range and body for
every request; the wire is parsed by models/http1.py into exactly one response
per request, in order, nothing left over; never a 5xx, never an exception, never
a producer that spins; every file opened for a response is closed by the end;
nothing is written after connectionLost.  Where RFC 9110 and the statement leave
room (coalescing / order of parts, HEAD, empty representation, empty range set,
lenient-integer forms, >2 overlapping ranges) the model says so and no verdict
is given.  Direct family: the same verdict on status, header fields and the
concatenation of the writes in the order they were made; finish() exactly once
and with no producer left registered, nothing written after finish(), no
exception out of render() / resumeProducing() / stopProducing(), a producer
that is pulled 60 times without writing or finishing never finishes; a stopped
response is a prefix of what was due and its file is closed.
"""
import errno
import io
import os
import shutil
import tempfile
import traceback
import zlib

from twisted.internet import _producer_helpers, task
from twisted.logger import globalLogPublisher
from twisted.web import resource, server, static

from detsim import net
from detsim.fs import scratch_root
from detsim.sim import StepLimit, Violation
from models import http1
from models import ranges as R
from props import _http_harness as H

ID = "C25"
ENGINE = "net"
LEVEL = "exploration"
TECHNIQUE = ("deterministic simulation: seeded Range-header grammar x per-run producer bufferSize x tape-chosen pulls, client reads, back-pressure "
             "and connection loss on pipelined connections x file rewritten between requests and changed by a concurrent writer between two pulls of "
             "one response x re-entrantly pulling consumer x representation served "
             "through the openForReading()/getFileSize() subclass hooks (served length != stored length); every response "
             "checked against an independent RFC 9110 range evaluator applied to the file as it was when the request was rendered")
QUICK_RUNS = 26000
TWIN_P = 0.08   # this share of the runs drives two independent instances of the scenario one after the other (detsim.runner._run_scenario);
                # the second instance serves the SAME path as the first (another size, other File objects)
BATCH = 100
RUN_WALL_LIMIT_S = 90
COMPONENTS = {
    "real": ["twisted.web.static.File.render_GET/render_HEAD/makeProducer/_parseRangeHeader/_rangeToOffsetAndSize/_doSingleRangeRequest/"
             "_doMultipleRangeRequest/_contentRange/_setContentHeaders", "twisted.web.static.NoRangeStaticProducer/SingleRangeStaticProducer/"
             "MultipleRangeStaticProducer", "twisted.web.server.Site/Request.render", "twisted.web.http.HTTPChannel/Request "
             "(registerProducer/write/finish, pauseProducing/resumeProducing)", "twisted.internet._producer_helpers._PullToPush",
             "twisted.internet.task.Cooperator (fresh instance, scheduler = simulated clock)", "a real file under $VERIF_SCRATCH (rewritten "
             "between requests; in an eighth of the runs replaced / grown / overwritten / shortened under a response in production)", "static.File.getChild/createSimilarFile (directory tree: a fresh File per request)",
             "static.File's subclass hooks openForReading()/getFileSize() (overridden in 40% of the runs: served length != length on disk)"],
    "stub": ["TCP transport with a small send buffer (detsim.net.SimTransport, hwm) and injected connection loss",
             "the client (scripted pipelined requests, reads tape-chosen amounts at tape-chosen times)",
             "direct family: the request (PullConsumer: the dozen request methods File.render and the producers use; pulls by itself, also from inside write())",
             "server.Site.getResourceFor overridden only to mark the moment between two requests (the file is rewritten there)",
             "wall clock / pid behind the multipart boundary (static.time, static.os.getpid) and http.gmtime -> simulated clock",
             "the static.File subclass of the hooked runs: a header/trailer-stripping window over the stored file, or the stored file "
             "inflated into memory (two methods, as the class comment invites; everything else is static.File's own code)",
             "models/ranges.py and models/http1.py as the independent evaluator and parsers (oracle side)"],
}
RULE = ("run = one file path (size 0..64 KiB in three regimes; in 40% of the runs with more than one request the file is rewritten - grown, shrunk, "
        "emptied, other bytes - before 60% of the later requests, and Range positions are drawn around any of its sizes; 30% of the later requests "
        "repeat an earlier Range value), representation = the stored bytes (60%) or what a static.File subclass makes of them through openForReading()/"
        "getFileSize() (header of 1..300 bytes stripped / trailer stripped / both / stored deflated: 10% each; sizes, ranges and verdicts all refer to "
        "the served representation), File object shared or fresh per request, 1-3 consecutive connections, one producer bufferSize (1 byte .. 64 KiB, raised if a response would need more than "
        "~600 pulls), one send-buffer limit (none / 0 / 1 / 40 / 300 / 5000 / 70000 bytes; in half of the limited runs the transport re-issues "
        "pauseProducing on every over-limit write like abstract.FileDescriptor), 1-3 pipelined GET/HEAD requests with grammar-generated Range headers; "
        "events (request delivery, cooperator tick = burst of 1-8 pulls, client read of n bytes, connection loss in 25% of the runs) are chosen by the "
        "tape; each of four knobs keeps the precondition of a repaired finding out of 10% of the runs; non-trivial = some response to a request with "
        "a Range header was produced by at least two reads of the file (two resumeProducing() calls), or the connection was lost inside such a body.  "
        "20% of the runs are the direct family: the same requests rendered into a PullConsumer (nesting depth of pulls from inside write() 0/1/2/6/40, "
        "each such pull tape-chosen, first pull inside registerProducer() or later, two live responses in 30%, producer stopped between pulls in 15%; "
        "in 1 of 10 such runs the consumer does not pull from inside the write that completed the announced Content-Length - a repaired finding).  "
        "12% of the runs (both families): a concurrent writer changes the file UNDER one response - the last one of a connection / any one of the "
        "direct family - once its open file has been read 0/1/2/4 times: replaced by rename (strict verdict: the open file is untouched; also "
        "for the inflated representation), grown or overwritten in place, or (7 such runs in 10; precondition of a finding repaired in /repo 36cba82, knob AVOID_SHRINK_UNDER_RESPONSE) "
        "truncated / emptied in place; after a change in place the response gets no verdict on fields, bytes or framing, but no pull may "
        "read at end of file 3000 times in a row (a call that never returns), no exception may escape or be logged, the file must be closed "
        "in the end, and the response must end (finish() once, or the connection dropped) instead of being pulled 60 times in a row in vain")
ASSUMPTIONS = ["'a static file resource' includes a static.File subclass that overrides only the two documented hooks openForReading() and getFileSize() "
               "consistently (getFileSize() = number of bytes the object returned by openForReading() yields; that object supports read/seek/tell/close "
               "like a binary file); 'file content' is then the content served, whose length may be larger or smaller than os.stat().st_size",
               "every response is judged against the file as it was when its request was rendered.  The planned rewrites happen between responses "
               "(after Request.finish() of the previous one / after the connection is gone, before the next request is looked up).  A change UNDER a "
               "response (concurrent writer) is a fault: if the path is replaced by rename the verdict stays strict; if the file is changed in place "
               "'the requested bytes' are not defined and only 'never fails with an internal error' is judged, read as: every call into the "
               "producer returns, nothing raises, and the response ends (finish(), or loseConnection()/abortConnection() on the request or its "
               "transport - a body that cannot reach its announced Content-Length is best ended by closing) rather than being polled for ever",
               "Range field values contain no CR/LF/NUL (the channel refuses those: C19)",
               "StaticProducer.bufferSize (a public class attribute) may be any positive integer",
               "a consumer of a pull producer may call resumeProducing() whenever it wants data and a producer is registered with it, also from "
               "inside its own write() (the producers' comments say so); it records the data before it asks for more",
               "If-Range / If-Modified-Since are not sent (conditional requests are outside the statement)",
               "HEAD: either a plain 200 (RFC 9110 14.2: Range is defined for GET only) or the GET status line and header fields is accepted",
               "several ranges: parts may be coalesced, reordered or repeated (15.3.7.2: the order of the range-specs is a SHOULD, and 'a client "
               "cannot rely on receiving the same ranges that it requested, nor the same order that it requested'); each part must start and end "
               "where a requested range does, carry the bytes its own Content-Range names, and all requested bytes must be carried.  No verdict on "
               "the ORDER of the parts: the statement asks for exactly the requested byte ranges with matching Content-Range, not for a sequence",
               "no verdict on the status for: empty range set ('bytes=' -> 200 or 416), lenient-integer forms ('+1-2', ' 1 - 2 ', '1_0-', '--5', "
               "'Bytes='), empty representation (200 or 416), more than two overlapping / three unordered ranges (200 also allowed)"]
LEVEL_NOTE = ("Which status/Content-Range/bytes belong to a (size, Range) pair is arithmetic; that part of the verdict rests on input sampling from "
              "a grammar. What the simulator decides is the production mechanism: cursor and part state carried across resumeProducing() calls "
              "(bufferSize knob), pause/resume by transport back-pressure, pipelined responses following one another (producer unregistered, "
              "file closed), connection loss inside a response (stopProducing, nothing written afterwards), what survives from one request to "
              "the next for the same path while the file changes in between, and calls of resumeProducing() nested inside request.write().")

MAXSIZE = 65536
PATTERN = bytes((i * 7 + (i >> 8) * 13 + (i >> 16) * 101 + 1) & 0xFF for i in range(MAXSIZE + 256))      # a version of the file = a window of it
FILE_MTIME = H.EPOCH - 86400
OWS = b" \t"

_saved = {}
_state = {"dir": None}


class _Spin(BaseException):
    """Raised by the tracked file when a producer keeps reading at EOF without ever finishing (BaseException so that
    nothing in the code under test swallows it; the driver turns it into a verdict)."""


class _TimeProxy:
    def __init__(self, clock):
        self._clock = clock

    def time(self):
        return H.EPOCH + self._clock.seconds()


class _OsProxy:
    """static.py's `os` with a fixed pid (the multipart boundary is made of time.time() and os.getpid())."""

    def __getattr__(self, name):
        return getattr(os, name)

    def getpid(self):
        return 4242


class TrackedFile:
    """File object handed out by File.openForReading() (the documented override point); delegates everything and records
    whether it was closed and how often it was read."""

    def __init__(self, f, book):
        self._f = f
        self._book = book
        self.data_reads = 0
        self.empty_run = 0

    def read(self, n=-1):
        d = self._f.read(n)
        if d:
            self.data_reads += 1
            self.empty_run = 0
        else:
            self.empty_run += 1
            if self.empty_run > 3000:
                self._book["spin"] = True
                raise _Spin()
        return d

    def seek(self, *a):
        return self._f.seek(*a)

    def tell(self):
        return self._f.tell()

    def close(self):
        return self._f.close()

    @property
    def closed(self):
        return self._f.closed

    def fileno(self):
        return self._f.fileno()

    def __enter__(self):
        return self

    def __exit__(self, *exc):
        self._f.close()


class View:
    """What a subclass that transforms the stored file on the fly hands out from openForReading(): a binary-file-like object
    over `n` bytes of `f` starting at `lo` (argument checks as io.BufferedReader: a negative seek target and a read length
    below -1 are refused)."""

    def __init__(self, f, lo, n):
        self._f, self._lo, self._n, self._pos = f, lo, n, 0
        f.seek(lo)

    def read(self, n=-1):
        if n is None:
            n = -1
        if n < -1:
            raise ValueError("read length must be non-negative or -1")
        left = max(0, self._n - self._pos)
        if n < 0 or n > left:
            n = left
        d = self._f.read(n) if n > 0 else b""
        self._pos += len(d)
        return d

    def seek(self, offset, whence=0):
        pos = offset + (0 if whence == 0 else self._pos if whence == 1 else self._n)
        if pos < 0:
            raise OSError(errno.EINVAL, "Invalid argument")
        self._pos = pos
        self._f.seek(self._lo + min(pos, self._n))
        return pos

    def tell(self):
        return self._pos

    def close(self):
        return self._f.close()

    @property
    def closed(self):
        return self._f.closed


REPRESENTATIONS = [("plain", 6), ("header", 1), ("trailer", 1), ("both", 1), ("packed", 1)]
NOT_SERVED = bytes((b ^ 0x5A) for b in PATTERN[101:1001])       # header / trailer bytes of the stored form


def stored_form(content, kind, pre, post):
    """what is on disk for a representation `content`"""
    if kind == "packed":
        return zlib.compress(content, 1)
    return NOT_SERVED[:pre] + content + NOT_SERVED[pre:pre + post]


class RepausingTransport(H.HTransport):
    """Like twisted.internet.abstract.FileDescriptor: EVERY write that leaves the send buffer above its limit calls
    producer.pauseProducing() (the base SimTransport pauses once); one resumeProducing() when the buffer has drained."""

    repause = False
    _in_seq = False

    def writeSequence(self, seq):
        if not self.repause:
            return H.HTransport.writeSequence(self, seq)
        self._in_seq = True                 # FileDescriptor.writeSequence: one _maybePauseProducer() for the whole sequence
        try:
            H.HTransport.writeSequence(self, seq)
        finally:
            self._in_seq = False
        self._maybe_pause_producer()

    def _maybe_pause_producer(self):
        if self._in_seq:
            return
        if (self.repause and self.producer is not None and self.streaming and self.producer_paused
                and self.hwm is not None and len(self.out) > self.hwm):
            self.log.append("pause")
            self.sim.probe("producer_paused_again_by_later_write")
            self.producer.pauseProducing()
            return
        H.HTransport._maybe_pause_producer(self)


# Preconditions of genuine defects found by this check - all REPAIRED in /repo (fcf7520, ec5fdd9, 62137c1, f69032a, a36e381, c0b5930,
# 08bfbf2, 36cba82) - are kept out of a fraction of the runs (weights out of 10; 10 = kept out altogether, only for dev-time comparison
# with a tree without the repair) and let into all the others (DESIGN section 5).
AVOID_REPAIRED = 1        # suffix longer than the file / several ranges none satisfiable / malformed non-UTF-8 (repaired in round 2)
AVOID_NEGATIVE_READ = 1   # multipart response produced by more than one resumeProducing() call
AVOID_UNPAUSED_START = 1  # pipelined request behind a response whose last write filled the send buffer
AVOID_STACKED_PAUSE = 1  # transport that re-issues pauseProducing() on every over-limit write (abstract.FileDescriptor behaviour)
# direct family (repaired in round 4, /repo 08bfbf2): MultipleRangeStaticProducer.resumeProducing raised AttributeError when its consumer
# pulled again from inside the write() that carried the end of the body (the nested call finishes the response and clears
# self.request; the outer call then ran `self.request.unregisterProducer()` unguarded - SingleRangeStaticProducer has the guard).
# In 1 of 10 direct runs the consumer knows the announced Content-Length and does not ask for more once it has arrived.
AVOID_PULL_INSIDE_COMPLETING_WRITE = 1
# round 6: the file changed UNDER a running response (a concurrent writer, between two pulls of one response).
MIDRESPONSE_P = 0.12      # share of the runs in which a writer touches the file while one response is in production
# Repaired in /repo 36cba82 (found in round 6): when the file SHRANK in place under a response, MultipleRangeStaticProducer.resumeProducing
# never returned (`while dataLength < self.bufferSize` with read() == b"" for ever: the reactor thread hung) and SingleRangeStaticProducer
# was polled for ever without writing, finishing or dropping the connection.  In this many of 10 runs with a change under a response
# the writer only replaces (rename), grows or overwrites the file - never shortens it; 10 keeps the precondition out altogether.
AVOID_SHRINK_UNDER_RESPONSE = 3


def cleanup(sim):
    H.cleanup(sim)
    if "cooperate" in _saved:
        _producer_helpers.cooperate = _saved.pop("cooperate")
    if "bufferSize" in _saved:
        static.StaticProducer.bufferSize = _saved.pop("bufferSize")
    if "time" in _saved:
        static.time = _saved.pop("time")
    if "os" in _saved:
        static.os = _saved.pop("os")
    obs = _state.pop("observer", None)
    if obs is not None:
        try:
            globalLogPublisher.removeObserver(obs)
        except ValueError:
            pass
    d = _state["dir"]
    if d is not None:
        _state["dir"] = None
        shutil.rmtree(d, ignore_errors=True)


# ------------------------------------------------------------------ Range header grammar

def gen_pos(sim, size):
    k = sim.draw_int(0, 9, "poskind")
    if k == 0:
        return 0
    if k == 1:
        return max(0, size - 1)
    if k == 2:
        return size
    if k == 3:
        return sim.draw_int(0, max(0, size - 1), "posin")
    if k == 4:
        return 1
    if k == 5:
        return max(0, size - 2)
    if k == 6:
        return size + 1
    if k == 7:
        return size // 2
    if k == 8:
        return size + sim.draw_int(2, 70000, "posbeyond")
    return 10 ** sim.draw_int(6, 30, "poshuge") + sim.draw_int(0, 9, "posunit")


def _num(sim, n):
    if sim.draw_bool(0.08, "leadzero"):
        return b"0" * sim.draw_int(1, 3, "nzero") + b"%d" % n
    return b"%d" % n


def gen_spec(sim, size):
    """one strictly valid range-spec"""
    k = sim.draw_weighted([("closed", 5), ("open", 2), ("suffix", 3)], "speckind")
    if k == "closed":
        a, b = gen_pos(sim, size), gen_pos(sim, size)
        if a > b:
            a, b = b, a
        return _num(sim, a) + b"-" + _num(sim, b)
    if k == "open":
        return _num(sim, gen_pos(sim, size)) + b"-"
    return b"-" + _num(sim, gen_pos(sim, size))


SEPS = [b",", b", ", b" ,", b",,", b" , ", b",\t", b", ,"]
JUNK = [b"abc", b"-", b"1-2-3", b"a-5", b"5-b", b"0x1-0x2", b"1.5-2", b"--", b"1-2;q=1", b"*", b"0-*", b"1 2-3", b"\xc3\xa9-1",
        b"\xd9\xa3-\xd9\xa4", b"1-2 3-4", b"1e3-", b"-1e3", b"0-0x", b"2\xe2\x80\x936", b"1-2=3", b"bytes=1-2"]
JUNK_NON_UTF8 = [b"\xff", b"1-\xff", b"\xe9-1", b"0-5\x80", b"\xc3-1"]
WHOLE_JUNK = [b"bytes", b"", b"0-5", b"=0-5", b"bytes:0-5", b"bytes 0-5", b"by tes=0-1", b"bytes;0-1", b"-5", b"(bytes)=0-1"]
UNITS = [b"items", b"none", b"seconds", b"byte", b"bytess", b"octets", b"b", b"x-bytes"]
LENIENT_UNITS = [b"Bytes", b"BYTES", b"bYtEs", b"bytes ", b" bytes", b"bytes\t"]


def gen_lenient_spec(sim, size, safe):
    """outside the strict grammar, readable by a lenient integer parser.  safe: first-pos forms only (the suffix forms can
    hit the preconditions of the suffix-longer-than-the-file finding)."""
    a, b = sorted([gen_pos(sim, size), gen_pos(sim, size)])
    forms = [b"+%d-%d" % (a, b), b"%d - %d" % (a, b), b"%d- %d" % (a, b), b"%d-+%d" % (a, b), b"%d -" % a, b"+%d-" % a]
    if a >= 1000:
        forms.append((b"%d" % a)[:-3] + b"_" + (b"%d" % a)[-3:] + b"-")
    if not safe:
        forms += [b"--%d" % (a % 50), b"-+%d" % (a % 50 + 1), b"- %d" % (b % 97), b"-%d_0" % (a % 7 + 1)]
    return sim.draw_choice(forms, "lenientform")


def gen_range(sim, size, allow_hazards):
    """-> Range field value (bytes, as put on the wire) or None."""
    fam = sim.draw_weighted([("single", 6), ("multi", 7), ("absent", 2), ("junk", 3), ("unit", 1), ("lenient", 1), ("emptyset", 1)], "family")
    if fam == "absent":
        return None
    if fam == "single":
        v = b"bytes=" + gen_spec(sim, size)
        if sim.draw_bool(0.1, "emptyelems"):
            v = b"bytes=" + sim.draw_choice([b",", b", ,", b""], "lead") + gen_spec(sim, size) + sim.draw_choice([b",", b" ,", b", , "], "trail")
        return v
    if fam == "multi":
        n = sim.draw_weighted([(2, 6), (3, 4), (4, 2), (5, 1), (8, 1)], "nspecs")
        style = sim.draw_weighted([("free", 5), ("tiling", 2), ("same", 1)], "multistyle")
        if style == "tiling" and size >= n:
            # adjacent / overlapping ranges walking through the file
            step = max(1, size // n)
            specs = []
            for i in range(n):
                a = i * step
                b = min(size - 1, a + step - 1 + sim.draw_int(-1, 1, "tileoverlap"))
                specs.append(b"%d-%d" % (a, max(a, b)))
            if sim.draw_bool(0.3, "reverse"):
                specs.reverse()
        elif style == "same":
            s = gen_spec(sim, size)
            specs = [s] * n
        else:
            specs = [gen_spec(sim, size) for _ in range(n)]
        out = b"bytes=" + specs[0]
        for s in specs[1:]:
            out += sim.draw_choice(SEPS, "sep") + s
        if sim.draw_bool(0.08, "trailcomma"):
            out += b","
        return out
    if fam == "junk":
        k = sim.draw_int(0, 3, "junkkind")
        if k == 0:
            return sim.draw_choice(WHOLE_JUNK, "wholejunk")
        junk = JUNK + (JUNK_NON_UTF8 if allow_hazards else [])
        if k == 1:
            return b"bytes=" + sim.draw_choice(junk, "junk")
        if k == 2:
            # reversed int-range (14.1.1: invalid)
            a, b = gen_pos(sim, size), gen_pos(sim, size)
            if a == b:
                b = a + 1
            a, b = max(a, b), min(a, b)
            v = b"%d-%d" % (a, b)
            if sim.draw_bool(0.4, "revmulti"):
                v = gen_spec(sim, size) + b"," + v
            return b"bytes=" + v
        parts = [gen_spec(sim, size) for _ in range(sim.draw_int(1, 3, "njunkmix"))]
        parts.insert(sim.draw_int(0, len(parts), "junkpos"), sim.draw_choice(junk, "junk"))
        return b"bytes=" + b",".join(parts)
    if fam == "unit":
        return sim.draw_choice(UNITS, "unit") + b"=" + gen_spec(sim, size)
    if fam == "lenient":
        if sim.draw_bool(0.3, "lenientunit"):
            return sim.draw_choice(LENIENT_UNITS, "lunit") + b"=" + gen_spec(sim, size)
        v = gen_lenient_spec(sim, size, not allow_hazards)
        if allow_hazards and sim.draw_bool(0.3, "lenientmulti"):
            v = v + b"," + gen_spec(sim, size)
        return b"bytes=" + v
    return b"bytes=" + sim.draw_choice([b"", b",", b" , ,", b",,,"], "emptyset")


def hazards(value, parsed, size):
    """Preconditions of the three findings repaired in round 2 (kept out of ~10% of the runs): tags, [] if none."""
    tags = []
    if value is None:
        return tags
    if any(s[0] == "suffix" and s[1] > size for s in parsed.specs):
        tags.append("suffix-longer-than-file")
    if parsed.cls == "empty-set" or (parsed.cls == "valid" and len(parsed.specs) >= 2 and not R.resolve(parsed.specs, size)):
        tags.append("several-ranges-none-satisfiable")
    try:
        value.decode("utf-8")
    except UnicodeDecodeError:
        tags.append("not-utf8")
    return tags


# ------------------------------------------------------------------ the file and its rewrites

def content_of(version):
    size, shift = version
    return PATTERN[shift:shift + size]


def next_size(sim, cur, cap):
    """the file as rewritten before a later request -> (kind, new size)"""
    kind = sim.draw_weighted([("grown", 3), ("shrunk", 3), ("emptied", 1), ("same_size_new_content", 1)], "rewrite")
    if kind == "emptied" and cur == 0:
        kind = "grown"
    if kind == "grown" and cur >= cap:
        kind = "shrunk"
    if kind == "shrunk" and cur == 0:
        kind = "grown"
    if kind == "grown":
        return kind, min(cap, cur + max(1, sim.draw_choice([1, 2, 16, cur, cap], "growby")))
    if kind == "shrunk":
        return kind, max(0, cur - max(1, sim.draw_choice([1, 2, 16, cur // 2, cur - 1], "shrinkby")))
    if kind == "emptied":
        return kind, 0
    return kind, cur


# ------------------------------------------------------------------ a consumer other than the HTTP channel

class PullConsumer:
    """A minimal IRequest-like consumer for the direct family: what File.render() and the StaticProducers use of a request
    (method, getHeader, setHeader, setResponseCode, setLastModified, registerProducer / unregisterProducer, write, finish),
    nothing else.  It asks its pull producer for the next piece whenever it wants one - from its driver between writes, or
    from INSIDE write() (a consumer that forwards synchronously and finds room for more), up to a nesting limit; the
    StaticProducers document that they expect this ("be prepared for a re-entrant call")."""

    def __init__(self, sim, r, maxdepth, p_reenter, length_aware, pull_on_register):
        self.sim = sim
        self.r = r
        self.method = r["method"]
        self.uri = self.path = b"/f"
        self.clientproto = b"HTTP/1.1"
        self.prepath, self.postpath = [], []
        self.code = 200
        self.headers = {}
        self.chunks = []
        self.received = 0
        self.producer = None
        self.finished = 0
        self.depth = 0
        self.maxdepth = maxdepth
        self.p_reenter = p_reenter
        self.length_aware = length_aware
        self.pull_on_register = pull_on_register
        self.pulls = 0
        self.idle = 0
        self.reentered = False
        self.stopped = False
        self.dropped = False        # the producer gave the connection up (loseConnection / transport.abortConnection)
        self.transport = self       # request.transport.loseConnection() / .abortConnection(): the same thing here
        self.breaches = []          # what the producer must not do to a consumer

    # -- what the resource reads
    def getHeader(self, name):
        if name.lower() == b"range":
            return self.r["value"]
        return None

    # -- what the resource sets
    def setHeader(self, name, value):
        if isinstance(name, str):
            name = name.encode("latin-1")
        if isinstance(value, str):
            value = value.encode("latin-1")
        self.headers[name.lower()] = value

    def setResponseCode(self, code, message=None):
        self.code = code

    def setLastModified(self, when):
        return None

    def header_list(self):
        return sorted(self.headers.items())

    def announced(self):
        v = self.headers.get(b"content-length")
        return int(v) if v is not None and v.isdigit() else None

    # -- IConsumer
    def registerProducer(self, producer, streaming):
        if self.producer is not None:
            self.breaches.append("second-producer-registered")
        if streaming:
            self.breaches.append("registered-as-push-producer")
        self.producer = producer
        if self.pull_on_register and not self.finished:
            self.sim.probe("pull_inside_registerProducer")
            self.pull()

    def unregisterProducer(self):
        self.producer = None

    def pull(self):
        self.pulls += 1
        before = len(self.chunks)
        self.producer.resumeProducing()
        self.idle = self.idle + 1 if (len(self.chunks) == before and not self.finished) else 0

    def write(self, data):
        if not isinstance(data, bytes):
            self.breaches.append("write-not-bytes")
            return
        if self.finished:
            self.breaches.append("write-after-finish")
        if self.stopped:
            self.breaches.append("write-after-stopProducing")
        self.chunks.append(data)
        self.received += len(data)
        if self.producer is None or self.finished or self.stopped or self.dropped or self.depth >= self.maxdepth:
            return
        n = self.announced()
        complete = n is not None and self.received >= n
        if complete and self.length_aware:
            return
        if self.sim.draw_bool(self.p_reenter, "reenter"):
            self.depth += 1
            self.reentered = True
            self.sim.fault("consumer_pulls_inside_write")
            if self.depth >= 3:
                self.sim.probe("reentrant_pull_depth_ge_3")
            if complete:
                self.sim.probe("pull_inside_completing_write")
            try:
                self.pull()
            finally:
                self.depth -= 1

    def finish(self):
        self.finished += 1
        if self.producer is not None:
            self.breaches.append("finish-with-producer-registered")

    # -- giving the connection up (http.Request.loseConnection; transport.loseConnection / abortConnection): the only honest end
    #    of a response whose announced length cannot be delivered any more
    def loseConnection(self):
        self.dropped = True

    abortConnection = loseConnection


# ------------------------------------------------------------------ scenario

def run(sim):
    try:
        from twisted.web import http_headers as _hh
        _hh._nameEncoder._canonicalHeaderCache.clear()
    except AttributeError:
        pass
    obs = _state.pop("observer", None)      # second instance of a twin run: the first one's observer
    if obs is not None:
        try:
            globalLogPublisher.removeObserver(obs)
        except ValueError:
            pass
    regime = sim.draw_weighted([("tiny", 4), ("small", 4), ("big", 2)], "regime")
    if regime == "tiny":
        size = sim.draw_int(0, 40, "size")
        bufsize = sim.draw_choice([1, 2, 3, 5, 8, 13, 64, 120, 65536], "bufsize")
    elif regime == "small":
        size = sim.draw_int(0, 1500, "size")
        bufsize = sim.draw_choice([16, 7, 33, 100, 128, 200, 257, 1000, 65536, 3], "bufsize")
    else:
        size = sim.draw_choice([65536, 65535, 4096, 16384, 65436, 8191, 30000], "size")
        if sim.draw_bool(0.5, "sizejitter"):
            size = max(0, min(MAXSIZE, size - sim.draw_int(0, 300, "sizeoff")))
        bufsize = sim.draw_choice([65536, 4096, 1000, 16384, 65535, 32768, 8192, 500], "bufsize")
    hwm = sim.draw_choice([None, 0, 1, 40, 300, 5000, 70000], "hwm")
    consumer = sim.draw_weighted([("channel", 8), ("direct", 2)], "consumer")
    nconn = sim.draw_weighted([(1, 6), (2, 3), (3, 1)], "nconn")
    nreqs = [sim.draw_weighted([(1, 3), (2, 3), (3, 2)] if nconn == 1 else [(1, 4), (2, 2), (3, 1)], "nreq") for _ in range(nconn)]
    total = sum(nreqs)
    avoid = sim.draw_weighted([(False, 10 - AVOID_REPAIRED), (True, AVOID_REPAIRED)], "avoid-repaired-findings")
    avoid_negread = sim.draw_weighted([(False, 10 - AVOID_NEGATIVE_READ), (True, AVOID_NEGATIVE_READ)], "avoid-multipart-multicall")
    avoid_unpaused = sim.draw_weighted([(False, 10 - AVOID_UNPAUSED_START), (True, AVOID_UNPAUSED_START)], "avoid-pipelined-backpressure")
    if avoid_unpaused and max(nreqs) > 1:
        hwm = None
    avoid_repause = sim.draw_weighted([(False, 10 - AVOID_STACKED_PAUSE), (True, AVOID_STACKED_PAUSE)], "avoid-stacked-pause")
    repause = hwm is not None and not avoid_repause and sim.draw_bool(0.5, "repause")
    bursts = sim.draw_choice([[1], [1, 1, 2, 4], [1, 2], [3, 1, 8]], "bursts")
    inject_loss = sim.draw_bool(0.25, "inject-loss")
    loss_at = sim.draw_int(1, 40, "loss-at") if inject_loss else None
    loss_conn = sim.draw_int(0, nconn - 1, "loss-conn") if inject_loss and nconn > 1 else 0
    # the file between requests: rewritten (grown, shrunk, emptied, other content) in a share of the runs
    changing = total > 1 and sim.draw_bool(0.4, "file-rewritten-between-requests")
    by_rename = changing and sim.draw_bool(0.5, "rewrite-by-rename")
    tree = sim.draw_weighted([("child", 5), ("directory", 4)], "tree")
    # what is served is the stored file - or what a subclass makes of it through the two documented hooks
    repr_kind = sim.draw_weighted(REPRESENTATIONS, "representation")
    pre = sim.draw_choice([1, 7, 64, 300], "stored-header") if repr_kind in ("header", "both") else 0
    post = sim.draw_choice([1, 7, 64, 300], "stored-trailer") if repr_kind in ("trailer", "both") else 0
    site_per_conn = nconn > 1 and sim.draw_bool(0.5, "site-per-connection")
    cap = {"tiny": 80, "small": 3000, "big": MAXSIZE}[regime]
    plan = [(size, 0)]              # (size, content shift) of the file when request k is rendered
    kinds = [None]
    for k in range(1, total):
        sz, sh = plan[-1]
        kind = None
        if changing and sim.draw_bool(0.6, "rewrite-here"):
            kind, sz = next_size(sim, sz, cap)
            sh = (k * 37) % 255 + 1
        plan.append((sz, sh))
        kinds.append(kind)
    sizes = sorted(set(v[0] for v in plan))
    # the consumer of the direct family
    maxdepth = p_reenter = length_aware = pull_on_register = two_live = stop_req = stop_after = None
    if consumer == "direct":
        maxdepth = sim.draw_choice([0, 1, 2, 6, 40], "reenter-depth")
        p_reenter = sim.draw_choice([1.0, 0.5], "reenter-p")
        length_aware = sim.draw_weighted([(True, AVOID_PULL_INSIDE_COMPLETING_WRITE), (False, 10 - AVOID_PULL_INSIDE_COMPLETING_WRITE)],
                                         "avoid-pull-inside-completing-write")
        pull_on_register = sim.draw_bool(0.5, "pull-inside-register")
        two_live = sim.draw_bool(0.3, "two-live-responses")
        if sim.draw_bool(0.15, "consumer-stops"):
            stop_req = sim.draw_int(0, total - 1, "stop-which")
            stop_after = sim.draw_int(0, 5, "stop-after")

    # ---- seams
    _saved.setdefault("cooperate", _producer_helpers.cooperate)     # setdefault: the second instance of a twin run keeps the originals
    _saved.setdefault("bufferSize", static.StaticProducer.bufferSize)
    _saved.setdefault("time", static.time)
    _saved.setdefault("os", static.os)
    static.StaticProducer.bufferSize = bufsize
    static.time = _TimeProxy(sim.clock)
    static.os = _OsProxy()
    pulls = {"burst": 1, "idle": 0}

    class Burst:
        def __init__(self):
            self.left = pulls["burst"]

        def __call__(self):
            self.left -= 1
            return self.left <= 0

    coop = task.Cooperator(terminationPredicateFactory=Burst, scheduler=lambda f: sim.clock.callLater(0.0, f))
    _producer_helpers.cooperate = coop.cooperate

    # failures the framework swallows and logs (Request.render's processingFailed, _PullToPush's failuresHandled around
    # resumeProducing, Request.finish's "Producer was not unregistered") are internal errors too.  Failures reported at
    # garbage-collection time ("Unhandled error in Deferred") are excluded: when they appear is not a function of the run.
    logged = []

    def observer(event):
        f = event.get("log_failure")
        if f is None and event.get("isError"):
            f = event.get("failure")
        if f is None:
            return
        if str(event.get("log_format") or "").startswith("Unhandled error in Deferred"):
            return
        logged.append((getattr(f.type, "__name__", str(f.type)), str(f.value)[:200]))

    _state["observer"] = observer
    globalLogPublisher.addObserver(observer)

    d = _state["dir"]
    if d is None:
        d = tempfile.mkdtemp(prefix="verif_c25_", dir=scratch_root())
        _state["dir"] = d
    else:
        sim.probe("twin_second_instance_serves_the_same_path")      # left by the first instance of a twin run
    path = os.path.join(d, "f.dat")
    disk = {"v": None, "n": 0}
    cur = {"base": 0, "n": 0, "k": 0, "conn": 0, "last_conn": None}

    def put_file(version, where=""):
        """(re)write the served file.  Only ever called while no response is being produced."""
        if disk["v"] == version:
            return
        data = stored_form(content_of(version), repr_kind, pre, post)
        if disk["v"] is not None:
            sim.fault("file_rewritten_between_requests")
            sim.event("rewrite", where, disk["v"][0], "->", version[0])
            old = disk["v"][0]
            sim.probe("file_grown" if version[0] > old else "file_shrunk" if 0 < version[0] < old else
                      "file_emptied" if version[0] < old else "file_same_size_new_content")
            if where:
                sim.probe("rewrite_" + where)
        if by_rename and disk["v"] is not None:
            with open(path + ".new", "wb") as f:
                f.write(data)
            os.replace(path + ".new", path)
            sim.probe("rewrite_by_rename")
        else:
            with open(path, "wb") as f:
                f.write(data)
        mt = FILE_MTIME + 60 * disk["n"]
        os.utime(path, (mt, mt))
        disk["v"] = version
        disk["n"] += 1

    put_file(plan[0])

    book = {"spin": False, "k": None}
    opened = []

    class TFile(static.File):
        def openForReading(self):
            tf = TrackedFile(self.open_representation(), book)
            tf.k = cur["k"]
            opened.append(tf)
            return tf

        def open_representation(self):
            return static.File.openForReading(self)

        def open(self, mode="r"):
            # every way to the stored bytes carries the end-of-file guard (a producer that keeps asking a file that has no more
            # bytes must become a verdict, not a run that never ends) - also when the file was not obtained from openForReading()
            return TrackedFile(static.File.open(self, mode), book)

    if repr_kind == "packed":
        class TFile(TFile):
            """stored deflated, served inflated (the gunzip-on-the-fly kind of subclass)"""

            def inflated(self):
                with static.File.openForReading(self) as f:
                    return zlib.decompress(f.read())

            def open_representation(self):
                data = self.inflated()
                return View(io.BytesIO(data), 0, len(data))

            def getFileSize(self):
                return len(self.inflated())
    elif repr_kind != "plain":
        class TFile(TFile):
            """the stored file has a header and/or a trailer that is not part of what is served"""

            def open_representation(self):
                f = static.File.openForReading(self)
                return View(f, pre, os.fstat(f.fileno()).st_size - pre - post)

            def getFileSize(self):
                return self.getsize() - pre - post

    def before_render():
        """between two requests: the previous response has been handed over completely (Request.finish() has been called, or the
        connection is gone), the next request has not been looked at yet"""
        k = min(cur["base"] + cur["n"], total - 1)
        cur["n"] += 1
        cur["k"] = k
        where = "before_first_request"
        if cur["last_conn"] is not None:
            where = "between_pipelined_requests" if cur["last_conn"] == cur["conn"] else "between_connections"
        cur["last_conn"] = cur["conn"]
        put_file(plan[k], where)

    class HookSite(server.Site):
        def getResourceFor(self, request):
            before_render()
            return server.Site.getResourceFor(self, request)

    def make_root():
        if tree == "directory":
            return TFile(d, defaultType="application/octet-stream")      # a fresh File per request (getChild -> createSimilarFile)
        root = resource.Resource()
        root.putChild(b"f", TFile(path, defaultType="application/octet-stream"))
        return root

    target = b"/f.dat" if tree == "directory" else b"/f"

    # ---- requests
    allreqs = []
    conns = []
    for ci in range(nconn):
        creqs = []
        stream = bytearray()
        bounds = []
        for i in range(nreqs[ci]):
            k = len(allreqs)
            rsize = plan[k][0]
            last = i == nreqs[ci] - 1
            method = sim.draw_weighted([(b"GET", 5), (b"HEAD", 1)], "method")
            version, close = b"HTTP/1.1", False
            if last and consumer == "channel":
                kk = sim.draw_weighted([(0, 5), (1, 2), (2, 1)], "lastkind")
                if kk == 1:
                    version = b"HTTP/1.0"
                elif kk == 2:
                    close = True
            # positions are drawn around the size the file has for this request - or around another size it has in this run
            ref = rsize
            if len(sizes) > 1 and sim.draw_bool(0.4, "range-around-other-size"):
                ref = sim.draw_choice(sizes, "refsize")
            repeated = False
            for _ in range(6):
                repeated = k > 0 and sim.draw_bool(0.3, "repeat-range")
                if repeated:
                    value = allreqs[sim.draw_int(0, k - 1, "repeat-which")]["value"]      # clients repeat themselves
                else:
                    value = gen_range(sim, ref, not avoid)
                parsed = R.parse_range(None if value is None else value.strip(OWS))
                tags = hazards(value, parsed, rsize)
                if not (avoid and tags):
                    break
            else:
                value, parsed, tags, repeated = None, R.parse_range(None), [], False
            exp = R.evaluate(parsed, rsize)
            w = method + b" " + target + b" " + version + b"\r\nHost: h.test\r\n"
            if value is not None:
                w += sim.draw_choice([b"Range", b"range", b"RANGE"], "hname") + b":" + sim.draw_choice([b" ", b"", b"  ", b"\t"], "ows") + value + \
                    sim.draw_choice([b"", b" "], "ows2") + b"\r\n"
            if close:
                w += b"Connection: close\r\n"
            w += b"\r\n"
            stream += w
            bounds.append(len(stream))
            r = {"k": k, "conn": ci, "method": method, "version": version, "close": close, "value": value, "parsed": parsed, "exp": exp,
                 "tags": tags, "size": rsize, "content": content_of(plan[k])}
            creqs.append(r)
            allreqs.append(r)
            sim.event("request", ci, i, method, version, "close" if close else "-", "absent" if value is None else value, rsize, exp.why)
            sim.probe("class_" + exp.why.replace("-", "_"))
            for t in tags:
                sim.probe("finding_precondition_" + t.replace("-", "_"))
            if repeated and value is not None:
                sim.probe("range_value_repeated")
                if any(q["value"] == value and q["size"] != rsize and q["exp"].resolved != exp.resolved for q in allreqs[:-1]):
                    sim.probe("range_value_repeated_resolves_differently_after_rewrite")
        conns.append((creqs, bytes(stream), bounds))
    # ---- a concurrent writer: the file is changed UNDER one response (between two pulls: after the header fields were computed)
    disturb = None
    relaxed = set()                 # requests whose response gets no verdict on fields/bytes/framing (the file changed in place under it)
    if sim.draw_bool(MIDRESPONSE_P, "file-changed-under-response"):
        avoid_shrink = sim.draw_weighted([(True, AVOID_SHRINK_UNDER_RESPONSE), (False, 10 - AVOID_SHRINK_UNDER_RESPONSE)],
                                         "avoid-shrink-under-response")
        dconn = sim.draw_int(0, nconn - 1, "changed-under-conn") if nconn > 1 else 0
        # through the channel: the LAST response of a connection (what follows a response of the wrong length on the same
        # connection cannot be told apart from it); direct family: any response
        dk = conns[dconn][0][-1]["k"] if consumer == "channel" else sim.draw_int(0, total - 1, "changed-under-which")
        csize = plan[dk][0]
        if avoid_shrink:
            kind = sim.draw_weighted([("replaced_by_rename", 4), ("grown_in_place", 2), ("same_size_other_bytes", 2)], "changed-how")
        else:
            kind = sim.draw_weighted([("truncated", 2), ("emptied", 1)], "changed-how")
        if kind in ("truncated", "emptied") and csize == 0:
            kind = "grown_in_place"
        if kind == "truncated":
            nsize = sim.draw_choice([csize // 2, csize - 1, max(0, csize - 16), min(1, csize - 1), csize // 4], "truncated-to")
        elif kind == "emptied":
            nsize = 0
        elif kind == "grown_in_place":
            nsize = min(cap, csize + sim.draw_choice([1, 16, max(1, csize), cap], "grown-by"))
        elif kind == "same_size_other_bytes":
            nsize = csize
        else:
            nsize = sim.draw_choice([csize, csize // 2, 0, min(cap, csize + 16), min(cap, 2 * csize + 1)], "replaced-by-size")
        disturb = {"kind": kind, "k": dk, "conn": dconn, "after": sim.draw_choice([0, 0, 1, 1, 2, 4], "changed-after-reads"),
                   "version": (nsize, 256), "done": False}

    def change_under(tf, live):
        """the writer's turn, if this is the moment: `tf` is the open file of the response chosen for it, `live` the requests whose
        responses are in production right now"""
        if disturb is None or disturb["done"] or tf is None or tf.k != disturb["k"] or tf.closed or tf.data_reads < disturb["after"]:
            return
        disturb["done"] = True
        kind, version = disturb["kind"], disturb["version"]
        data = stored_form(content_of(version), repr_kind, pre, post)
        sim.fault("file_changed_under_response")
        sim.probe("under_response_" + kind)
        sim.event("changed-under-response", disturb["k"], kind, disk["v"][0], "->", version[0], "after reads", tf.data_reads)
        if kind == "replaced_by_rename":
            with open(path + ".new", "wb") as f:
                f.write(data)
            os.replace(path + ".new", path)
        else:
            with open(path, "wb") as f:       # same inode: the response's open file sees it
                f.write(data)
        mt = FILE_MTIME + 60 * disk["n"]
        os.utime(path, (mt, mt))
        disk["v"] = version
        disk["n"] += 1
        # A renamed-in replacement leaves the file the response has open alone, and an inflated representation sits in memory:
        # the response is still due exactly as computed.  Changed in place, its bytes (and, shortened, its length) are no
        # function of the request any more: no verdict on them - it must still END, and nothing may hang or raise.
        if kind == "replaced_by_rename" or repr_kind == "packed":
            sim.probe("strict_verdict_on_response_whose_path_was_replaced")
        else:
            for r in live:
                relaxed.add(r["k"])

    def under_witness(r):
        return "file-%s-under-response" % ("shrunk" if disturb["kind"] in ("truncated", "emptied") else disturb["kind"].replace("_", "-"))

    # keep runs short: a response should not take more than several hundred pulls
    due = sum(max(r["size"], sum(b - a + 1 for a, b in r["exp"].resolved)) for r in allreqs)
    if disturb is not None:
        due += disturb["version"][0]
    while due // bufsize > 600:
        bufsize *= 4
    if avoid_negread and any(r["value"] is not None and b"," in r["value"] for r in allreqs):
        bufsize = max(bufsize, 2 * due + 8192)      # every multipart response is produced by a single call
    static.StaticProducer.bufferSize = bufsize
    sim.config = {"regime": regime, "consumer": consumer, "sizes": [v[0] for v in plan], "rewrites": kinds, "rewrite_by_rename": by_rename,
                  "tree": tree, "representation": repr_kind, "stored_header": pre, "stored_trailer": post, "site_per_connection": site_per_conn, "bufferSize": bufsize, "hwm": hwm, "nreqs": nreqs,
                  "avoid_repaired_findings": avoid, "avoid_multipart_multicall": avoid_negread, "avoid_pipelined_backpressure": avoid_unpaused,
                  "repause": repause, "bursts": bursts, "loss_at": loss_at, "loss_conn": loss_conn,
                  "changed_under_response": None if disturb is None else {"kind": disturb["kind"], "request": disturb["k"], "after_reads": disturb["after"],
                                                                          "new_size": disturb["version"][0]},
                  "direct": None if consumer != "direct" else {"reenter_depth": maxdepth, "reenter_p": p_reenter, "length_aware": length_aware,
                                                              "pull_inside_register": pull_on_register, "two_live": two_live,
                                                              "stop_request": stop_req, "stop_after": stop_after},
                  "ranges": [None if r["value"] is None else r["value"].decode("latin-1") for r in allreqs]}

    def witness_of(r):
        return r["tags"][0] if r["tags"] else r["exp"].why

    def describe():
        return "sizes=%r representation=%s(-%d,-%d) bufferSize=%d hwm=%r tree=%s requests=%r" % ([v[0] for v in plan], repr_kind, pre, post, bufsize, hwm, tree,
                                                                    [(r["conn"], r["method"], r["version"], r["value"]) for r in allreqs])

    flags = {"multi_call": False, "any_lost": False}

    # ================================================================== family 1: through Site / HTTPChannel on a SimTransport
    def serve_connection(ci, site):
        reqs, stream, bounds = conns[ci]
        nreq = len(reqs)
        cur["base"], cur["n"], cur["conn"] = reqs[0]["k"], 0, ci
        obase = len(opened)
        srv = H.Server(sim, None, hwm=hwm, site=site, transport_cls=RepausingTransport)
        t = srv.t
        t.repause = repause
        queue = net.cut(sim, stream, boundaries=bounds)
        lost = False
        stalled = False
        nev = 0
        pulls["idle"] = 0
        my_loss = loss_at if ci == loss_conn else None
        try:
            with sim.guard("raised", "drive"):
                while True:
                    sim.step(20000)
                    if disturb is not None and not disturb["done"] and len(opened) > obase:
                        change_under(opened[-1], reqs[-1:])
                    now = sim.clock.seconds()
                    nt = sim.clock.next_time()
                    ev = []
                    if queue and srv.can_deliver():
                        ev.append(("deliver", 3))
                    if nt is not None and nt <= now:
                        ev.append(("pull", 6))
                    if t.out:
                        ev.append(("take", 3))
                    if not ev:
                        break
                    nev += 1
                    if my_loss is not None and nev == my_loss:
                        clean = sim.draw_bool(0.5, "loss-clean")
                        sim.event("lose", "clean" if clean else "reset", len(t.written))
                        sim.fault("connection_lost")
                        lost = True
                        srv.lose(clean=clean)
                        # anything still scheduled (a cooperator tick) runs now: it must not write
                        for _ in range(8):
                            nt = sim.clock.next_time()
                            if nt is None or nt > sim.clock.seconds():
                                break
                            sim.clock.run_next()
                        break
                    what = sim.draw_weighted(ev, "ev")
                    if what == "deliver":
                        piece = queue.pop(0)
                        sim.event("deliver", len(piece))
                        srv.deliver(piece)
                    elif what == "pull":
                        pulls["burst"] = sim.draw_choice(bursts, "burst")
                        if pulls["burst"] > 1:
                            sim.probe("pull_burst")
                        sim.event("tick", pulls["burst"])
                        before = len(t.written)
                        sim.clock.run_next()
                        # a producer that is asked again and again and neither writes nor finishes will never finish: stop
                        # asking (the missing response is the verdict).  A legitimate pull writes, or finishes the response.
                        pulls["idle"] = pulls["idle"] + 1 if len(t.written) == before else 0
                        if pulls["idle"] > 60:
                            sim.event("producer-makes-no-progress")
                            stalled = True
                            break
                    else:
                        n = sim.draw_choice([None, 1, 7, 50, 1000, 20000, 2], "take")
                        if n is None or n >= len(t.out):
                            sim.event("take", "all", len(t.out))
                            t.take()
                        else:
                            sim.event("take", n)
                            sim.fault("client_partial_read")
                            del t.out[:n]
                            t._drained()
        except _Spin:
            pass
        relaxed_last = reqs[-1]["k"] in relaxed
        if book["spin"]:
            r = allreqs[book["k"]] if book["k"] is not None else reqs[-1]
            if relaxed_last:
                sim.fail("pull-never-returns", under_witness(reqs[-1]), "one resumeProducing() call read the file 3000 times in a row at its end "
                         "and did not return (on a real reactor: the reactor thread hangs for ever): %s" % describe())
            sim.fail("never-finishes", witness_of(r), "a producer kept reading at end of file without finishing: %s" % describe())
        if relaxed_last and stalled and not srv.closing():
            sim.fail("never-finishes", under_witness(reqs[-1]), "the producer was asked for more 60 times in a row and neither wrote, nor finished "
                     "the response, nor dropped the connection (the channel's cooperator polls it like this for as long as the client stays): %s"
                     % describe())
        npause = t.log.count("pause")
        if npause:
            sim.fault("client_stall_producer_paused", npause)
        if not lost:
            with sim.guard("raised", "close"):
                srv.lose(clean=True)
        else:
            flags["any_lost"] = True
        wire = bytes(t.written)
        methods = [r["method"] for r in reqs]
        rs, st, used = http1.parse_responses(wire, methods, eof=True)
        sim.event("wire", ci, len(wire), "responses", len(rs), st if isinstance(st, str) else st[0])

        def detail(i=None):
            s = describe()
            if i is not None and i < len(rs):
                m = rs[i]
                s += "\n connection %d response %d (file of %d bytes): %d %r body %d bytes %r" % (
                    ci, i, reqs[i]["size"], m.code, [(n, v) for n, v in m.headers if n.startswith(b"content-")], len(m.body), m.body[:80])
            return s

        # ---- complete responses: each judged against the file as it was when the request was rendered
        for i, m in enumerate(rs):
            if relaxed_last and i >= nreq - 1:
                sim.probe("no_verdict_on_response_whose_file_changed_in_place")
                break
            r = reqs[i]
            exp = r["exp"]
            size, content = r["size"], r["content"]
            if m.framing == "close" and not (i == nreq - 1):
                sim.fail("framing", "close-delimited-not-last", detail(i))
            if m.framing == "close" and lost:
                break       # a close-delimited body cut by the loss: handled below as the truncated response
            sim.event("response", ci, i, m.code, m.get(b"content-range"), len(m.body))
            if m.code >= 500:
                sim.fail("internal-error", witness_of(r), detail(i))
            if r["method"] == b"HEAD":
                failure = R.check_head(exp, size, m.code, m.headers)
                sim.probe("head_request")
            else:
                failure = R.check_get(exp, size, content, m.code, m.headers, m.body)
            if failure is not None:
                sim.fail(failure[0], failure[1], failure[2] + "\n " + detail(i))
            sim.probe("status_%d" % m.code)
            if repr_kind != "plain":
                sim.probe("served_length_differs_from_stored_status_%d" % m.code)
            if exp.free:
                sim.probe("no_verdict_on_status_lenient_form")
            if r["method"] == b"GET" and m.code == 206:
                ct = m.get(b"content-type")
                bnd = R.boundary_of(ct[-1]) if ct else None
                if bnd is not None:
                    sim.probe("multipart_response")
                    parts, _ = R.parse_multipart(m.body, bnd)
                    firsts = [a for a, _b in exp.resolved]
                    if firsts != sorted(firsts):
                        sim.probe("multipart_for_ranges_not_in_ascending_order")      # reached; the order of the parts gets no verdict
                    # where did the transport writes fall?  (probe only)
                    body0 = m.end - len(m.body)
                    edges = set()
                    acc = 0
                    for wr in t.writes:
                        acc += len(wr)
                        edges.add(acc)
                    for p in parts:
                        if any(body0 + p.start < e < body0 + p.end for e in edges):
                            sim.probe("part_straddles_pull")
                            break
                else:
                    sim.probe("single_part_206")
                if exp.resolved and any(s[0] == "int" and s[2] is not None and s[2] >= size for s in r["parsed"].specs):
                    sim.probe("last_pos_clamped")
            if obase + i < len(opened) and opened[obase + i].data_reads >= 2 and r["value"] is not None:
                flags["multi_call"] = True
                sim.probe("multi_call_production")
        complete = len(rs)
        if rs and rs[-1].framing == "close" and lost:
            complete -= 1

        if relaxed_last and len(rs) >= nreq - 1:
            # every response before the one whose file changed in place has been judged; that one only had to end
            sim.check("write-after-connection-lost", t.writes_after_lost == 0, "file-changed-in-place", detail)
            if not lost and not stalled:
                sim.probe("response_ended_after_file_changed_in_place")
        elif not lost:
            if not (st == "ok" and len(rs) == nreq):
                i = min(len(rs), nreq - 1)
                # 'ok' with responses missing = not one byte of the next response was written; 'incomplete' = it stops short
                clause = {"ok": "response-missing", "incomplete": "response-incomplete"}.get(st, "response-stream")
                kind = "" if isinstance(st, str) else st[0] + ":"
                sim.fail(clause, kind + witness_of(reqs[i]),
                         "parsed %d of %d responses, then %r\n %s\n wire tail %r" % (len(rs), nreq, st, detail(), wire[used:used + 200]))
            sim.check("write-after-connection-lost", t.writes_after_lost == 0, "client-closed", detail)
        else:
            # relaxed: complete responses were checked above; the one cut by the loss must be a prefix of what was due
            if isinstance(st, tuple) and st[0] == "bad":
                sim.fail("response-stream", "bad:%s" % witness_of(reqs[min(complete, nreq - 1)]), "%r\n %s" % (st, detail()))
            if isinstance(st, tuple) and st[0] == "extra":
                sim.fail("response-stream", "extra", "%r\n %s" % (st, detail()))
            if complete < nreq:
                start = rs[complete - 1].end if complete else 0
                rest = wire[start:]
                kx = rest.find(b"\r\n\r\n")
                if kx >= 0:
                    r = reqs[complete]
                    size, content = r["size"], r["content"]
                    hs, hst, _ = http1.parse_responses(rest[:kx + 4], [b"HEAD"], eof=True)
                    if not (len(hs) == 1 and hst == "ok"):
                        sim.fail("response-stream", "bad-header-section:%s" % witness_of(r), "%r %r" % (hst, rest[:kx + 4]))
                    m = hs[0]
                    if m.code >= 500:
                        sim.fail("internal-error", witness_of(r), detail())
                    partial = rest[kx + 4:]
                    if r["method"] == b"HEAD":
                        sim.check("body", partial == b"", "head-with-body", detail)
                        failure = R.check_head(r["exp"], size, m.code, m.headers)
                    elif m.get(b"transfer-encoding"):
                        failure = None
                    else:
                        failure = R.check_get(r["exp"], size, content, m.code, m.headers, partial, partial=True)
                    if failure is not None:
                        sim.fail(failure[0], failure[1], "(response cut by connection loss) " + failure[2] + "\n " + detail())
                    if partial:
                        sim.probe("loss_inside_body")
                        if r["value"] is not None:
                            flags["multi_call"] = True
                else:
                    sim.probe("loss_before_response_started")
            else:
                sim.probe("loss_after_last_response")
            sim.check("write-after-connection-lost", t.writes_after_lost == 0, "", detail)
        if nreq > 1 and complete > 1:
            sim.probe("pipelined_responses")
        # the file is only rewritten between responses: whatever this connection opened must be closed by now
        sim.check("file-left-open", all(f.closed for f in opened), "lost" if lost else "complete",
                  lambda: "%d of %d files still open after connection %d; %s" % (sum(1 for f in opened if not f.closed), len(opened), ci, detail()))

    # ================================================================== family 2: File.render() into a consumer that pulls by itself
    def serve_directly():
        sim.probe("direct_consumer_run")
        root = make_root()
        pending = list(allreqs)
        active = []

        def ddetail(c=None):
            s = describe() + " consumer=%r" % (sim.config["direct"],)
            if c is not None:
                body = b"".join(c.chunks)
                s += "\n request %d (file of %d bytes) %r: %d %r finished=%d body %d bytes in %d writes %r" % (
                    c.r["k"], c.r["size"], c.r["value"], c.code, [(n, v) for n, v in c.header_list() if n.startswith(b"content-")],
                    c.finished, len(body), len(c.chunks), body[:80])
            return s

        def judge(c, partial=False):
            r = c.r
            body = b"".join(c.chunks)
            sim.event("direct-response", r["k"], c.code, c.headers.get(b"content-range"), len(body), "stopped" if partial else c.finished)
            sim.check("consumer-contract", not c.breaches, c.breaches[0] if c.breaches else "", lambda: "%r\n %s" % (c.breaches, ddetail(c)))
            if r["k"] in relaxed:
                # the file changed in place under this response: it had to end (finish() once, or the connection given up)
                sim.check("finish-count", c.finished <= 1, "finished-2-times", lambda: ddetail(c))
                if c.code >= 500:
                    sim.fail("internal-error", under_witness(r), ddetail(c))
                sim.probe("no_verdict_on_response_whose_file_changed_in_place")
                if not partial:
                    sim.probe("response_ended_after_file_changed_in_place")
                return
            if not partial:
                sim.check("finish-count", c.finished == 1, "finished-%d-times" % min(c.finished, 2), lambda: ddetail(c))
            if c.code >= 500:
                sim.fail("internal-error", witness_of(r), ddetail(c))
            if r["method"] == b"HEAD":
                sim.check("body", body == b"", "head-with-body", lambda: ddetail(c))
                failure = R.check_head(r["exp"], r["size"], c.code, c.header_list())
                sim.probe("head_request")
            else:
                failure = R.check_get(r["exp"], r["size"], r["content"], c.code, c.header_list(), body, partial=partial)
            if failure is not None:
                sim.fail(failure[0], failure[1], ("(consumer stopped the producer) " if partial else "") + failure[2] + "\n " + ddetail(c))
            sim.probe("status_%d" % c.code)
            if repr_kind != "plain":
                sim.probe("served_length_differs_from_stored_status_%d" % c.code)
            if c.tf is not None and c.tf.data_reads >= 2 and r["value"] is not None:
                flags["multi_call"] = True
                sim.probe("multi_call_production")
            if c.reentered and r["value"] is not None:
                flags["multi_call"] = True

        def guarded(c, what, fn):
            """an exception out of the code under test is a verdict; the witness says whether the consumer had pulled from inside
            a write by then"""
            try:
                return fn()
            except (Violation, StepLimit, _Spin):
                raise
            except Exception as e:
                tb = traceback.extract_tb(e.__traceback__)[-1]
                sim.fail("raised", "direct%s:%s" % ("-reentrant" if c.reentered else "", type(e).__name__),
                         "%s in %s: %s (at %s:%s %s)\n %s" % (type(e).__name__, what, str(e)[:200], tb.filename.split("/")[-1], tb.lineno, tb.name, ddetail(c)))

        def settle(c):
            """after every call into the code under test: has the response ended?"""
            if c in active and (c.finished or c.dropped or c.producer is None):
                active.remove(c)
                if c.dropped and c.producer is not None:
                    guarded(c, "stopProducing", c.producer.stopProducing)       # what a channel does when its connection is gone
                if not c.finished and not (c.dropped and c.r["k"] in relaxed):
                    sim.fail("response-incomplete", witness_of(c.r), "the producer unregistered itself without finishing the response\n " + ddetail(c))
                judge(c)

        while pending or active:
            sim.step(20000)
            ev = []
            if pending and (not active or (two_live and len(active) < 2 and plan[pending[0]["k"]] == disk["v"])):
                ev.append(("start", 3))
            for j in range(len(active)):
                ev.append((j, 4))
            what = ev[0][0] if len(ev) == 1 else sim.draw_weighted(ev, "direct-ev")
            if what == "start":
                r = pending.pop(0)
                if active:
                    sim.probe("two_live_producers_on_one_path")
                cur["k"] = r["k"]
                put_file(plan[r["k"]], "between_direct_requests")
                c = PullConsumer(sim, r, maxdepth, p_reenter, length_aware, pull_on_register)
                c.tf = None
                nopen = len(opened)
                try:
                    result = guarded(c, "render", lambda: (root.getChild(b"f.dat", c) if tree == "directory"
                                                           else root.getChildWithDefault(b"f", c)).render(c))
                except _Spin:
                    result = server.NOT_DONE_YET
                if len(opened) > nopen:
                    c.tf = opened[nopen]
                if result is server.NOT_DONE_YET:
                    active.append(c)
                    settle(c)
                else:
                    # what server.Request.render does with a rendered body
                    sim.check("render-result", isinstance(result, bytes), "not-bytes", lambda: "%r" % (result,))
                    if r["method"] != b"HEAD" and result:
                        c.write(result)
                    c.finish()
                    judge(c)
                continue
            c = active[what]
            if stop_req == c.r["k"] and c.pulls >= stop_after:
                # the consumer goes away between two pulls (what the channel does on connectionLost)
                sim.fault("direct_consumer_stops_producer")
                sim.event("direct-stop", c.r["k"], c.pulls)
                c.stopped = True
                guarded(c, "stopProducing", c.producer.stopProducing)
                active.remove(c)
                judge(c, partial=True)
                continue
            if disturb is not None and not disturb["done"]:
                for a in active:
                    change_under(a.tf, [x.r for x in active])
            sim.event("direct-pull", c.r["k"])
            try:
                guarded(c, "resumeProducing", c.pull)
            except _Spin:
                pass
            if c.r["k"] in relaxed:
                if book["spin"]:
                    sim.fail("pull-never-returns", under_witness(c.r), "one resumeProducing() call read the file 3000 times in a row at its end "
                             "and did not return: %s" % ddetail(c))
                if c.idle > 60 or c.pulls > 3000:
                    sim.fail("never-finishes", under_witness(c.r), "the producer was asked for more 60 times in a row and neither wrote, nor "
                             "finished the response, nor gave the connection up: %s" % ddetail(c))
            if book["spin"] or c.idle > 60 or c.pulls > 3000:
                sim.fail("never-finishes", witness_of(c.r), "a producer is asked again and again and neither writes nor finishes: %s" % ddetail(c))
            settle(c)

    if consumer == "channel":
        site = None
        for ci in range(nconn):
            if site is None or site_per_conn:
                site = HookSite(make_root(), reactor=sim.clock)
                if ci:
                    sim.probe("fresh_site_for_later_connection")
            if ci:
                sim.probe("later_connection_same_path")
            serve_connection(ci, site)
    else:
        serve_directly()

    sim.check("internal-error-logged", not logged, logged[0][0] if logged else "", lambda: "%r\n %s" % (logged[:3], describe()))

    # ---- resources
    sim.check("file-left-open", all(f.closed for f in opened), "lost" if flags["any_lost"] else "complete",
              lambda: "%d of %d files still open; %s" % (sum(1 for f in opened if not f.closed), len(opened), describe()))
    sim.check("file-opened-per-request", len(opened) <= total, "", describe)
    if bufsize == 65536:
        sim.probe("default_buffer_size")
    if 0 in sizes:
        sim.probe("empty_file")
    if tree == "directory":
        sim.probe("fresh_file_object_per_request")
    sim.probe("representation_" + repr_kind)
    if any(r["version"] == b"HTTP/1.0" for r in allreqs):
        sim.probe("http10_request")
    sim.state((regime, consumer, min(bufsize, 70000) // 64, hwm, tuple(nreqs), tuple(r["exp"].why for r in allreqs), flags["any_lost"],
               tuple(k for k in kinds if k)))
    sim.nontrivial = flags["multi_call"]


MUTANTS = [
    "(tools/mutate.py C25, quick tier, VERIF_WORKERS=4; 'caught' lists the signatures seen before the runner stopped)",
    # -- the six genuine defects this check found in round 2, each re-introduced by reverting its fix commit
    "CAUGHT revert 'fix: static.File serves the whole file for a suffix range longer than the file' (start = size - end, negative offset) "
    "-> internal-error:suffix-longer-than-file, response-incomplete:suffix-longer-than-file, internal-error:lenient   [DESIGN must-catch]",
    "CAUGHT revert 'fix: static.File answers 416 when none of several requested ranges is satisfiable' (return [], b'' unpacked by the producer) "
    "-> internal-error:several-ranges-none-satisfiable, internal-error:lenient",
    "CAUGHT revert 'fix: static.File ignores a malformed Range header that is not valid UTF-8' (byteRange.decode() in the log call) -> internal-error:not-utf8",
    "CAUGHT revert 'fix: MultipleRangeStaticProducer never asks the file for a negative number of bytes' (read(bufferSize - dataLength) < 0 raises "
    "ValueError inside resumeProducing) -> response-missing:valid-multi, response-missing:valid-multi-may-ignore, response-incomplete:valid-multi",
    "CAUGHT revert 'fix: a pull producer adapted to a push producer is paused once however often it is told to pause' (_PullToPush stacks pauses, the "
    "transport resumes once) -> response-incomplete:valid-multi / :invalid / :valid-multi-may-ignore (runs with repause=true)",
    "CAUGHT revert 'fix: HTTPChannel pauses a pull producer registered while the transport has it paused' TOGETHER WITH the previous one (the state as "
    "found) -> raised:drive:NotPaused, response-incomplete:valid-multi.  Reverted ALONE it SURVIVES 32000 runs: with pauses no longer stacking, a "
    "producer started while the transport is paused merely ignores back-pressure for one write; every byte on the wire is still right, and the "
    "statement says nothing about buffering",
    # -- DESIGN must-catch
    "CAUGHT SingleRangeStaticProducer: read(min(bufferSize, size - bytesWritten)) -> read(bufferSize) -> response-stream:extra:valid-single, response-incomplete:*",
    "CAUGHT SingleRangeStaticProducer: bytesWritten += len(data) -> += self.bufferSize (cursor not advanced by what was read) -> response-missing:valid-single, file-left-open:complete",
    "CAUGHT MultipleRangeStaticProducer: part treated as complete after any non-empty read (remainder of a part that straddles a call dropped) -> body:part-bytes, response-incomplete:valid-multi",
    "CAUGHT _rangeToOffsetAndSize: last-pos beyond the file not clamped (Content-Length from the requested range) -> response-incomplete:valid-single, never-finishes:valid-multi",
    "CAUGHT Single/NoRange/MultipleRange producer: unregisterProducer() omitted at the end -> internal-error-logged:RuntimeError (Request.finish notices, logs "
    "'Producer was not unregistered' and repairs it, so the next pipelined response does NOT stall; survived until failures swallowed by the logger were made a clause)",
    # -- own mutants
    "CAUGHT _rangeToOffsetAndSize: `elif end < size` -> `elif end < size - 1` -> content-range:single-range, content-range:part-is-not-a-requested-range",
    "CAUGHT _rangeToOffsetAndSize: `if start >= size` -> `if start > size` (first-pos == length satisfiable) -> status:valid-unsatisfiable:got-206, multipart:part-invalid-content-range",
    "CAUGHT _contentRange: last-pos = offset + size (off by one) -> content-range:206-invalid-content-range, body:single-range-bytes",
    "CAUGHT _parseRangeHeader: reversed range accepted -> status:invalid:got-206, status:invalid:got-416, response-missing:invalid",
    "CAUGHT _parseRangeHeader: unit not checked -> status:other-unit:got-206, status:other-unit:got-416",
    "CAUGHT _doMultipleRangeRequest: Content-Length without the final boundary -> multipart:unparseable",
    "CAUGHT _doMultipleRangeRequest: Content-Length without the part separators -> multipart:unparseable",
    "CAUGHT _doMultipleRangeRequest: unsatisfiable parts not skipped -> multipart:part-invalid-content-range, status:valid-unsatisfiable:got-206",
    "CAUGHT _doMultipleRangeRequest: final delimiter without its leading CRLF -> multipart:unparseable",
    "CAUGHT MultipleRangeStaticProducer._nextRange: no seek to the part offset -> body:part-bytes, never-finishes:*",
    "CAUGHT MultipleRangeStaticProducer: separator not cleared after use -> multipart:unparseable, never-finishes:valid-multi",
    "CAUGHT MultipleRangeStaticProducer: `while dataLength < bufferSize` -> `<=` -> never-finishes:valid-multi",
    "CAUGHT SingleRangeStaticProducer.start: no seek to the offset -> body:single-range-bytes",
    "CAUGHT makeProducer: single range Content-Length = whole file -> response-incomplete:valid-single, body:single-range-bytes",
    "CAUGHT makeProducer: malformed Range answered 416 instead of ignored -> status:invalid:got-416, status:other-unit:got-416",
    "CAUGHT suffix start off by one (max(size - end - 1, 0)) -> content-range:single-range, status:valid-unsatisfiable:got-206",
    "CAUGHT suffix-length 0 treated as satisfiable -> status:valid-unsatisfiable:got-206",
    "CAUGHT open-ended range ends one byte early -> content-range:single-range",
    "CAUGHT NoRangeStaticProducer: stopProducing() omitted at the end -> file-left-open:complete",
    "CAUGHT render_GET: HEAD branch leaves the file open -> file-left-open:complete",
    "CAUGHT StaticProducer.stopProducing does not close the file -> file-left-open:complete, file-left-open:lost",
    "CAUGHT _PullToPush.stopProducing does not stop the wrapped producer (connection loss inside a body) -> file-left-open:lost",
    "CAUGHT HTTPChannel.resumeProducing does not resume the request producer (client stall never ends) -> response-incomplete:*, response-missing:*",
    # -- round 4: file rewritten between requests / consumer that pulls from inside write()
    "CAUGHT seeded C25-r4b (functools.lru_cache on File._rangeToOffsetAndSize: class-level, keyed by path and spec, not by size) "
    "-> content-range:single-range, content-range:206-invalid-content-range, response-missing:valid-single (quick, ~2000 runs); MISSED before the "
    "file was ever rewritten inside a run",
    "CAUGHT seeded C25-r4a (SingleRangeStaticProducer counts bytesWritten after request.write) -> raised:direct-reentrant:ValueError, "
    "never-finishes:valid-single, never-finishes:lenient (quick, direct family only: _PullToPush never re-enters)",
    "CAUGHT render_GET: self.restat(False) removed (size and existence remembered by the File object) -> body:200-not-whole-content, "
    "never-finishes:valid-multi, content-range:416",
    "CAUGHT getFileSize memoised per path in a module-level dict -> body:200-not-whole-content, response-missing:valid-single, never-finishes:*",
    # -- round 5: representation served through the documented subclass hooks (served length != length on disk)
    "CAUGHT seeded C25-r5a (_contentRange takes the complete-length from getsize() instead of getFileSize()) -> content-range:complete-length, "
    "multipart:part-content-range-vs-length, multipart:part-invalid-content-range (quick, < 500 runs); MISSED while every served representation "
    "was the stored file byte for byte",
    "CAUGHT _rangeToOffsetAndSize: size = self.getsize() -> content-range:part-is-not-a-requested-range, never-finishes:*",
    "CAUGHT _setContentHeaders: default size = self.getsize() -> content-length:200, content-length:head-200, response-incomplete:*",
    "CAUGHT 416 header 'bytes */N' from getsize() (single-range branch; multi-range branch) -> content-range:416",
    "CAUGHT render_GET: self.open() instead of self.openForReading() -> response-stream:*, never-finishes:* (the end-of-file guard also sits on "
    "FilePath.open: without it this mutant spins inside MultipleRangeStaticProducer.resumeProducing and the run never ends)",
    "NOT CAUGHT, OUTSIDE THE STATEMENT: seeded C25-r5b (_doMultipleRangeRequest sorts the parts by file offset).  Every part still carries "
    "its own matching Content-Range and bytes, the parts are exactly the satisfiable requested ranges, Content-Length is right.  The statement "
    "asks for 'exactly the requested byte ranges and matching Content-Range ... per RFC 9110' and is silent about a sequence; RFC 9110 15.3.7.2 "
    "makes request order a SHOULD and tells clients they 'cannot rely on receiving the same ranges ... nor the same order'.  A clause on the order "
    "would raise an alarm on a conforming implementation; the workload does reach the trigger (probe multipart_for_ranges_not_in_ascending_order)",
    # -- round 6: the file changed under a response in production
    "GENUINE, repaired in /repo 36cba82 (found by a seed author reading the code, confirmed by the new fault family; knob AVOID_SHRINK_UNDER_RESPONSE; "
    "CAUGHT again when the fix commit is reverted) "
    "file truncated / emptied in place between two pulls of one response: MultipleRangeStaticProducer.resumeProducing never returned "
    "(`while dataLength < self.bufferSize`: read() == b'' for ever, neither counter moves) -> pull-never-returns:file-shrunk-under-response; "
    "SingleRangeStaticProducer reads b'', bytesWritten never reaches size, the channel's cooperator polls it for as long as the client stays "
    "-> never-finishes:file-shrunk-under-response.  NoRangeStaticProducer ends the response at end of file (short of its Content-Length): no verdict",
    "PASSES with the repair of /repo 36cba82 (Single: an empty read before `size` bytes ends the response; Multiple: `if wanted and not p: done = True; break`) "
    "also at AVOID_SHRINK_UNDER_RESPONSE = 0: the relaxed verdict accepts a response ended short",
    "CAUGHT seeded C25-r6a (rebased onto 36cba82: the repaired guard with the condition `if not p and written < size` instead of `if wanted and not p`, "
    "which also fires on the legitimate zero-byte read after a separator that filled the buffer) -> content-length:206, multipart:unparseable, "
    "response-incomplete:*",
    "GENUINE (repaired in /repo 08bfbf2; direct family) MultipleRangeStaticProducer: consumer pulls from inside the write that "
    "carries the close-delimiter (or the empty body of a multi-range 416) -> raised:direct-reentrant:AttributeError "
    "('NoneType' object has no attribute 'unregisterProducer', static.py resumeProducing `if done:`)",
]
