"""C05 — inlineCallbacks / coroutines match synchronous execution, incl. cancellation.

Engine E1 (tasks): a tape-generated *program tree* (sequence, await Deferred,
await plain value, try/except/finally, bounded loop, return, raise, return or
raise inside finally, call of a nested function that is itself an
inlineCallbacks generator or a coroutine) is interpreted three ways over the
same pool of <=10 real Deferreds:

  * as a generator driven by the real @inlineCallbacks,
  * as a coroutine driven by the real ensureDeferred / Deferred.__await__,
  * synchronously (reference): `await d_k` simply returns / raises d_k's outcome.

The tape chooses which Deferreds are pre-fired, the order in which the others
fire while the program is suspended, and at which suspension points the returned
Deferred is cancelled.  Oracle: the observation log written by the program
itself and the final outcome equal those of the synchronous reference (with a
cancelled await's outcome replaced by what its canceller produces,
CancelledError by default); cancel() reaches exactly the currently awaited
Deferred; the returned Deferred fires exactly once - as soon as the function has
run to its end, whatever the type of its uncaught exception.

Exception types: the program's raise nodes, the failures of the awaited
Deferreds and what a failing canceller produces are drawn (per-run weight, 0 in a
third of the runs) also from BaseException subclasses that are NOT Exception
subclasses - a harness-defined one (Stop) and the two real ones, KeyboardInterrupt
and SystemExit; handlers may name them or BaseException.  The synchronous
reference treats them like any other exception.  Every call into the code under
test sits in an `Escape` block that turns an exception of ANY type escaping from
it into a violation (a leaked SystemExit must not end the worker process).

Who cancels, and when (round 6): besides the scheduler cancelling between two steps, the returned Deferred is cancelled
  * by application code running INSIDE the program ("app" leaves of the tree): a nested function, resumed beneath the
    suspended top-level function, cancels the top-level Deferred and then goes on - to its end or to its next await.  The
    top-level function waits (on the nested function's Deferred) at that moment, so the statement applies: it observes the
    nested function's outcome and the returned Deferred fires once, at the end;
  * from inside the last callback of the awaited Deferred, i.e. while that Deferred is already firing: cancel() reaches it
    (and nothing else) and the function observes the outcome it already has.
The caller may also pause() the returned Deferred for a stretch: a result that arrives meanwhile is delivered at unpause().
Two further families are gated by module constants: cancelling WHILE the returned Deferred is paused
(CANCEL_WHILE_RETURNED_PAUSED_P, a small share of the runs: known finding, not repaired, listed in known_findings.json; every violation of such a run
is reported under the clause `cancel-while-returned-paused` of its own) and awaited Deferreds whose canceller raises
(RAISING_CANCELLER_P; the defect this family found is repaired in /repo, 99d1188).
"""
from twisted.internet import defer
from twisted.python.failure import Failure

from detsim.sim import StepLimit, Violation

ID = "C05"
ENGINE = "tasks"
LEVEL = "exploration"
TECHNIQUE = "deterministic simulation: random program trees run by real inlineCallbacks/ensureDeferred under seeded firing order and cancellation points vs synchronous reference interpreter"
QUICK_RUNS = 60000
TWIN_P = 0.08   # this share of the runs drives two independent instances of the scenario one after the other (detsim.runner._run_scenario)
BATCH = 400
RUN_WALL_LIMIT_S = 120   # runs take milliseconds; generous because whole-machine stalls >20 s were seen under load
COMPONENTS = {"real": ["twisted.internet.defer.inlineCallbacks", "twisted.internet.defer._inlineCallbacks",
                       "twisted.internet.defer._cancellableInlineCallbacks", "twisted.internet.defer._handleCancelInlineCallbacks",
                       "twisted.internet.defer.ensureDeferred", "twisted.internet.defer.Deferred.__await__",
                       "twisted.python.failure.Failure.throwExceptionIntoGenerator"],
              "stub": ["order in which awaited Deferreds fire and points at which the returned Deferred is cancelled (tape)"]}
RULE = ("run = one random program tree (<=40 nodes, function nesting <=3, mixed generator/coroutine nesting) over a pool of 1..10 Deferreds "
        "(each: success or failure outcome, pre-fired or not, canceller in {none, noop, fires success, fires failure}; in 60% of the runs also a shape: "
        "plain / already called back but waiting on another Deferred / called back while paused, and optionally a last callback that transforms the value); "
        "exception types of raise nodes, Deferred failures, canceller failures and handlers include (weight knob, off in 1/3 of the runs) BaseException "
        "subclasses outside Exception: a harness-defined Stop, KeyboardInterrupt, SystemExit (handlers also `except BaseException`); "
        "while the program is suspended the tape fires the awaited Deferred, fires it from inside the last callback of the Deferred the program awaits next, "
        "fires another pool Deferred early, cancels the returned Deferred, fires the awaited Deferred with cancel() of the returned Deferred issued "
        "from inside its last callback, or pauses the returned Deferred (unpaused a few steps later, at the latest when the function has ended); "
        "'app' leaves of the program (weight knob 0/2/4) are application code inside the program: when one runs in a nested function that was "
        "resumed beneath the suspended top-level function, it cancels the returned Deferred from there with p=0.4; "
        "non-trivial = the program suspended at least once AND (a cancellation hit a suspension, or an exception was observed at an await, "
        "or a nested function was called)")
ASSUMPTIONS = ["each Deferred is awaited at most once (the k-th executed await uses pool Deferred k)",
               "cancellers act only on their own Deferred; in a RAISING_CANCELLER_P share of the runs a canceller may raise and leave its Deferred as "
               "it was: the function then goes on waiting and later observes the Deferred's natural outcome (no verdict on whether what it raised "
               "comes out of cancel(); the defect found by this family is repaired in /repo, 99d1188)",
               "cancel() while the caller has the returned Deferred paused is drawn only in a CANCEL_WHILE_RETURNED_PAUSED_P share of the runs "
               "(known finding of the unchanged tree, not repaired): from the first such cancel() on, whatever the run reports carries the clause "
               "`cancel-while-returned-paused` with the original clause and witness as witness, so the listed signature prefix "
               "C05:cancel-while-returned-paused:* cannot match a violation of any other run; pausing as such is part of the workload everywhere",
               "a cancel() issued from inside a running nested function is only drawn while the top-level function waits (never during the "
               "synchronous start, never once the top-level function has been resumed in the current step); no verdict on the cancel() calls "
               "that reach Deferreds the running nested function awaited earlier (they have fired: no effect), nor on a cancel() issued by "
               "application code while another cancel() of the same Deferred is still on the stack",
               "a Deferred is never awaited a second time: the statement gives each Deferred one outcome, and what a second `yield d` / "
               "`await d` observes is not defined by it (the unchanged tree gives None after a `yield` or a suspended `await`, the value "
               "again after an `await` that did not suspend)",
               "KeyboardInterrupt / SystemExit raised by the function or carried by an awaited Deferred's failure are outcomes of the function like any "
               "other exception (the statement says 'uncaught exception' without restriction, and the unchanged code has a single `except BaseException`); "
               "GeneratorExit and StopIteration are never used as program exceptions",
               "in coroutine form 'await plain value' is written `await succeed(value)` (a coroutine cannot await a non-awaitable)"]

MAX_POOL = 10

# Share of the runs in which the returned Deferred may be cancelled WHILE ITS CALLER HAS IT PAUSED (pause() ... unpause()).  On the
# unchanged tree the cancellation is carried out by an errback of the returned Deferred itself, which a paused Deferred does not run:
# the awaited Deferred is not cancelled, and if the function ends before unpause() its outcome is lost (AlreadyCalledError inside
# _inlineCallbacks, the returned Deferred never fires) - KNOWN FINDING, not repaired (see MUTANTS; known_findings.json lists the signature
# prefix C05:cancel-while-returned-paused:*).  A small share keeps the check reaching it; in such a run every violation from the first
# cancel-while-paused on is reported under the clause `cancel-while-returned-paused` (class Verdict).  Pausing the returned Deferred as
# such (results arriving meanwhile are delivered at unpause()) is exercised in all runs.
CANCEL_WHILE_RETURNED_PAUSED_P = 0.03

# Share of the runs in which awaited Deferreds may have a canceller that RAISES (and leaves its Deferred as it was).  On the tree as
# first examined what it raised became, at once, the result of the returned Deferred although the function went on waiting, and the
# function's eventual outcome went to a Deferred nobody holds - genuine defect found by this family, REPAIRED in /repo 99d1188 ("fix: an
# inlineCallbacks function keeps waiting when the canceller of the Deferred it awaits raises"); see MUTANTS.  The precondition is let
# into this share of the runs; 0 is only for dev-time comparison.
RAISING_CANCELLER_P = 0.4


class E1(Exception):
    pass


class E2(Exception):
    pass


class Stop(BaseException):
    """Harness-defined exception deriving from BaseException but NOT from Exception (an application-level "stop" class)."""


class Ret(BaseException):
    """Implements `return` of the interpreted program (unwinds to the function boundary)."""

    def __init__(self, value):
        BaseException.__init__(self, value)
        self.value = value


class CountingDeferred(defer.Deferred):
    def __init__(self, canceller=None):
        defer.Deferred.__init__(self, canceller)
        self.cancel_calls = 0

    def cancel(self):
        self.cancel_calls += 1
        defer.Deferred.cancel(self)


EXC = {"E1": E1, "E2": E2, "Cancelled": defer.CancelledError, "Exception": Exception,
       # exception types outside the Exception hierarchy: a harness-defined one and the two real ones an application meets
       "Stop": Stop, "KeyboardInterrupt": KeyboardInterrupt, "SystemExit": SystemExit, "BaseException": BaseException}
BARE = ("Stop", "KeyboardInterrupt", "SystemExit")      # BaseException subclasses that are not Exception subclasses


def program_exc(e):
    """True for an exception that belongs to the interpreted program (raised by one of its raise nodes, the failure of an
    awaited Deferred, or what the code under test makes of them), as opposed to the interpreter's own machinery (`return`,
    close of an abandoned generator) - a synchronous program's try statements see exactly these."""
    return not isinstance(e, (Ret, GeneratorExit))


def _ours(e):
    # every exception the scenario creates carries a tag as first argument; a watchdog of the runner or a real Ctrl-C does not
    return bool(e.args) and e.args[0] in ("p", "e", "ce", "cx")


class Verdict:
    """What run() and its helpers report violations through (same call as sim.check).  Once `family` is set - a cancel() has
    arrived while the caller had the returned Deferred paused: the known finding - every violation is reported under that
    clause, with the original clause and witness as its witness."""

    def __init__(self, sim):
        self.sim = sim
        self.family = None

    def check(self, clause, cond, witness="", detail=""):
        if cond:
            return
        if self.family is not None:
            clause, witness = self.family, "%s:%s" % (clause, witness) if witness else clause
        self.sim.check(clause, False, witness, detail)


class Escape:
    """`with Escape(sim, clause, witness):` around EVERY call into the code under test: an exception that escapes from it -
    including a BaseException that is not an Exception, e.g. a SystemExit or KeyboardInterrupt of the program that should have
    gone into the returned Deferred - is the violation `clause` and the run ends normally (sim.guard lets those pass, and a
    leaked SystemExit would silently end the worker process)."""

    def __init__(self, sim, clause, witness, passes=()):
        # passes: tags of scenario exceptions on which there is no verdict here (they are swallowed)
        self.sim, self.clause, self.witness, self.passes = sim, clause, witness, passes

    def __enter__(self):
        return self

    def __exit__(self, et, ev, tb):
        if et is None or issubclass(et, (Violation, StepLimit)):
            return False
        if self.passes and _ours(ev) and ev.args[0] in self.passes:
            return True
        if not issubclass(et, Exception) and not _ours(ev):
            return False            # the runner's watchdogs
        self.sim.check(self.clause, False, "%s:%s" % (self.witness, et.__name__),
                       "%s%r escaped from the code under test" % (et.__name__, ev.args))
        return False


# --------------------------------------------------------------------------- program generation

def gen_tree(sim, st, depth, fdepth):
    """Return a node.  st = {'nodes': count, 'id': counter, 'bare_w': weight of the non-Exception exception types}."""
    st["nodes"] += 1
    st["id"] += 1
    nid = st["id"]
    deep = depth >= 4 or st["nodes"] > 40
    kinds = [("await", 8), ("value", 1), ("return", 1), ("raise", 2), ("app", st.get("app_w", 0))]
    if not deep:
        kinds += [("seq", 6), ("try", 5), ("loop", 2), ("call", 3 if fdepth < 2 else 0)]
    if depth == 0:
        kinds = [("seq", 3), ("try", 2)]          # a function body is never a bare leaf
    k = sim.draw_weighted(kinds, "node")
    if k == "await":
        return ("await", nid)
    if k == "value":
        return ("value", nid)
    if k == "app":
        return ("app", nid)
    if k == "return":
        return ("return", nid)
    if k == "raise":
        return ("raise", nid, sim.draw_weighted([("E1", 4), ("E2", 4)] + [(t, st["bare_w"]) for t in BARE], "exc"))
    if k == "seq":
        return ("seq", nid, [gen_tree(sim, st, depth + 1, fdepth) for _ in range(sim.draw_int(2, 3, "seqlen"))])
    if k == "loop":
        return ("loop", nid, sim.draw_int(1, 3, "iters"), gen_tree(sim, st, depth + 1, fdepth))
    if k == "call":
        return ("call", nid, sim.draw_choice(["gen", "coro"], "fkind"), sim.draw_choice(["raw", "ensure", "from"], "variant"),
                gen_tree(sim, st, 0 if depth < 3 else depth + 1, fdepth + 1))
    body = gen_tree(sim, st, depth + 1, fdepth)
    handlers = []
    for _ in range(sim.draw_int(0, 2, "nhandlers")):
        htype = sim.draw_weighted([("E1", 4), ("E2", 4), ("Cancelled", 4), ("Exception", 4), ("BaseException", st["bare_w"])]
                                  + [(t, st["bare_w"]) for t in BARE], "htype")
        handlers.append((htype, gen_tree(sim, st, depth + 1, fdepth)))
    fin = None
    if sim.draw_bool(0.5, "finally") or not handlers:
        fin = gen_tree(sim, st, depth + 1, fdepth)
    return ("try", nid, body, handlers, fin)


def show(node):
    k = node[0]
    if k in ("await", "value", "return", "app"):
        return "%s#%d" % (k, node[1])
    if k == "raise":
        return "raise#%d(%s)" % (node[1], node[2])
    if k == "seq":
        return "seq[" + "; ".join(show(c) for c in node[2]) + "]"
    if k == "loop":
        return "loop%d{%s}" % (node[2], show(node[3]))
    if k == "call":
        return "call:%s/%s(%s)" % (node[2], node[3], show(node[4]))
    s = "try{%s}" % show(node[2])
    for (t, h) in node[3]:
        s += " except %s{%s}" % (t, show(h))
    if node[4] is not None:
        s += " finally{%s}" % show(node[4])
    return s


def _match(handlers, e):
    for (t, body) in handlers:
        if isinstance(e, EXC[t]):
            return t, body
    return None, None


# --------------------------------------------------------------------------- the three interpreters

class Interp:
    """Interprets a tree as generator (g), coroutine (c) or synchronously (s).
    `world` supplies awaitables / outcomes and receives the observation log."""

    def __init__(self, world):
        self.w = world
        self.gfn = defer.inlineCallbacks(self._gfn)

    # -- shared observation points
    def _raise(self, node):
        self.w.log(("raise", node[1], node[2]))
        raise EXC[node[2]]("p", node[1])

    def _return(self, node):
        self.w.log(("return", node[1]))
        raise Ret(("r", node[1]))

    # -- generator form (driven by inlineCallbacks)
    def _gfn(self, body):
        self.w.enter()
        try:
            yield from self.g(body)
        except Ret as r:
            return r.value
        finally:
            self.w.leave()
        return None

    def g(self, node):
        w = self.w
        k = node[0]
        if k == "await":
            idx = w.begin_await()
            try:
                v = yield w.awaitable(idx)
            except BaseException as e:
                if program_exc(e):
                    w.end_await(idx, ("raised", type(e).__name__, e.args))
                raise
            w.end_await(idx, ("got", v))
        elif k == "value":
            v = yield ("plain", node[1])
            w.log(("value", v))
        elif k == "app":
            w.app(node[1])
        elif k == "return":
            self._return(node)
        elif k == "raise":
            self._raise(node)
        elif k == "seq":
            for c in node[2]:
                yield from self.g(c)
        elif k == "loop":
            for i in range(node[2]):
                w.log(("iter", node[1], i))
                yield from self.g(node[3])
        elif k == "call":
            w.log(("call", node[1]))
            try:
                if node[2] == "gen":
                    r = yield self.gfn(node[4])
                elif node[3] == "raw":
                    r = yield self.cfn(node[4])         # a coroutine object yielded from a generator
                elif node[3] == "ensure":
                    r = yield defer.ensureDeferred(self.cfn(node[4]))
                else:
                    r = yield defer.Deferred.fromCoroutine(self.cfn(node[4]))
            except BaseException as e:
                if program_exc(e):
                    w.log(("callraised", node[1], type(e).__name__, e.args))
                raise
            w.log(("callret", node[1], r))
        else:
            try:
                yield from self.g(node[2])
            except BaseException as e:
                t, h = _match(node[3], e) if program_exc(e) else (None, None)
                if h is None:
                    raise
                w.log(("caught", node[1], t, type(e).__name__))
                yield from self.g(h)
            finally:
                if node[4] is not None:
                    w.log(("finally", node[1]))
                    yield from self.g(node[4])

    # -- coroutine form (driven by ensureDeferred)
    async def cfn(self, body):
        self.w.enter()
        try:
            await self.c(body)
        except Ret as r:
            return r.value
        finally:
            self.w.leave()
        return None

    async def c(self, node):
        w = self.w
        k = node[0]
        if k == "await":
            idx = w.begin_await()
            try:
                v = await w.awaitable(idx)
            except BaseException as e:
                if program_exc(e):
                    w.end_await(idx, ("raised", type(e).__name__, e.args))
                raise
            w.end_await(idx, ("got", v))
        elif k == "value":
            v = await defer.succeed(("plain", node[1]))
            w.log(("value", v))
        elif k == "app":
            w.app(node[1])
        elif k == "return":
            self._return(node)
        elif k == "raise":
            self._raise(node)
        elif k == "seq":
            for ch in node[2]:
                await self.c(ch)
        elif k == "loop":
            for i in range(node[2]):
                w.log(("iter", node[1], i))
                await self.c(node[3])
        elif k == "call":
            w.log(("call", node[1]))
            try:
                if node[2] == "gen":
                    r = await self.gfn(node[4])
                elif node[3] == "raw":
                    w.inline_next = True                # no driver of its own: it runs as part of the awaiting coroutine
                    r = await self.cfn(node[4])         # native coroutine-to-coroutine await
                elif node[3] == "ensure":
                    r = await defer.ensureDeferred(self.cfn(node[4]))
                else:
                    r = await defer.Deferred.fromCoroutine(self.cfn(node[4]))
            except BaseException as e:
                if program_exc(e):
                    w.log(("callraised", node[1], type(e).__name__, e.args))
                raise
            w.log(("callret", node[1], r))
        else:
            try:
                await self.c(node[2])
            except BaseException as e:
                t, h = _match(node[3], e) if program_exc(e) else (None, None)
                if h is None:
                    raise
                w.log(("caught", node[1], t, type(e).__name__))
                await self.c(h)
            finally:
                if node[4] is not None:
                    w.log(("finally", node[1]))
                    await self.c(node[4])

    # -- synchronous reference
    def sfn(self, body):
        self.w.enter()
        try:
            self.s(body)
        except Ret as r:
            return r.value
        finally:
            self.w.leave()
        return None

    def s(self, node):
        w = self.w
        k = node[0]
        if k == "await":
            idx = w.begin_await()
            try:
                v = w.outcome(idx)
            except BaseException as e:
                if program_exc(e):
                    w.end_await(idx, ("raised", type(e).__name__, e.args))
                raise
            w.end_await(idx, ("got", v))
        elif k == "value":
            w.log(("value", ("plain", node[1])))
        elif k == "app":
            w.app(node[1])
        elif k == "return":
            self._return(node)
        elif k == "raise":
            self._raise(node)
        elif k == "seq":
            for ch in node[2]:
                self.s(ch)
        elif k == "loop":
            for i in range(node[2]):
                w.log(("iter", node[1], i))
                self.s(node[3])
        elif k == "call":
            w.log(("call", node[1]))
            try:
                r = self.sfn(node[4])
            except BaseException as e:
                if program_exc(e):
                    w.log(("callraised", node[1], type(e).__name__, e.args))
                raise
            w.log(("callret", node[1], r))
        else:
            try:
                self.s(node[2])
            except BaseException as e:
                t, h = _match(node[3], e) if program_exc(e) else (None, None)
                if h is None:
                    raise
                w.log(("caught", node[1], t, type(e).__name__))
                self.s(h)
            finally:
                if node[4] is not None:
                    w.log(("finally", node[1]))
                    self.s(node[4])


class World:
    """Observation log + await numbering shared by both worlds."""

    def __init__(self):
        self.trace = []
        self.nawaits = 0
        self.awaiting = None
        self.active = 0        # functions of the program entered and not yet left
        self.entered = 0
        # one entry per function entered and not yet left: True = it has a driver (and a returned Deferred) of its own, False = a
        # coroutine awaited natively by another coroutine (it runs as part of its caller)
        self.frames = []
        self.inline_next = False
        self.low = 0           # smallest number of drivers since the harness last reset it (see RealWorld.app)

    def log(self, entry):
        self.trace.append(entry)

    def drivers(self):
        return sum(self.frames)

    def enter(self):
        self.active += 1
        self.entered += 1
        self.frames.append(not self.inline_next)
        self.inline_next = False

    def leave(self):
        self.active -= 1
        self.frames.pop()
        self.low = min(self.low, self.drivers())

    def app(self, nid):
        """A piece of application code inside the program (no effect on the program itself)."""
        self.trace.append(("app", nid))

    def ended(self):
        """The top-level function has run to its end (returned or let an exception out)."""
        return self.entered > 0 and self.active == 0

    def begin_await(self):
        idx = self.nawaits
        self.nawaits += 1
        self.trace.append(("await", idx))
        self.awaiting = idx
        return idx

    def end_await(self, idx, what):
        self.awaiting = None
        self.trace.append(("resumed", idx) + what)


class RealWorld(World):
    def __init__(self, sim, pool, fired):
        World.__init__(self)
        self.sim, self.pool, self.fired = sim, pool, fired

        self.on_app = None

    def awaitable(self, idx):
        if idx < len(self.pool):
            return self.pool[idx]
        return defer.succeed(("x", idx))

    def app(self, nid):
        World.app(self, nid)
        if self.on_app is not None:
            self.on_app(nid)

    def end_await(self, idx, what):
        if idx < len(self.pool):
            # the program may only see an outcome of a Deferred that has one
            self.sim.check("no-early-resume", idx in self.fired, "await", "await #%d resumed with %r before its Deferred fired" % (idx, what))
        World.end_await(self, idx, what)


class SyncWorld(World):
    def __init__(self, effective, npool):
        World.__init__(self)
        self.effective, self.npool = effective, npool

    def outcome(self, idx):
        if idx >= self.npool:
            return ("x", idx)
        kind, payload = self.effective(idx)
        if kind == "ok":
            return payload
        raise payload[0](*payload[1])


def outcome_of(call):
    """Run a synchronous callable, return ('ok', value) / ('err', typename, args)."""
    try:
        return ("ok", call())
    except BaseException as e:     # a synchronous caller gets a KeyboardInterrupt/SystemExit of the function like any other exception
        if not (isinstance(e, Exception) or _ours(e)):
            raise
        return ("err", type(e).__name__, e.args)


def run(sim):
    verdict = Verdict(sim)
    npool = sim.draw_int(1, MAX_POOL, "npool")
    top_kind = sim.draw_choice(["gen", "coro"], "top")
    cancel_w = sim.draw_choice([0, 2, 6], "cancel_weight")
    early_w = sim.draw_choice([0, 2], "early_weight")
    shapes_on = sim.draw_bool(0.6, "deferred_shapes")
    # weight of the exception types outside the Exception hierarchy (a harness-defined BaseException subclass, KeyboardInterrupt,
    # SystemExit) among the program's raise nodes / handler types and among the failures of the awaited Deferreds; 0 = none
    bare_w = sim.draw_choice([0, 1, 3], "bare_exception_weight")
    # weight of "application code" leaves in the program: places where code running INSIDE the program calls back into the harness,
    # which may then cancel the returned Deferred from there (only while the top-level function really waits, see on_app)
    app_w = sim.draw_choice([0, 2, 4], "app_node_weight")
    inside_w = sim.draw_choice([0, 3], "cancel_inside_weight")
    # the caller pauses the returned Deferred for a stretch of the run (pause() ... unpause(), both public)
    pause_w = sim.draw_choice([0, 0, 2], "pause_returned_weight")
    cancel_paused_ok = sim.draw_bool(CANCEL_WHILE_RETURNED_PAUSED_P, "cancel_while_returned_paused")
    raise_w = 2 if sim.draw_bool(RAISING_CANCELLER_P, "raising_cancellers") else 0
    plan = []
    for k in range(npool):
        out = sim.draw_weighted([("ok", 10), ("E1", 4), ("E2", 2)] + [(t, bare_w) for t in BARE], "outcome")
        canc = sim.draw_weighted([("none", 4), ("noop", 2), ("succ", 2), ("fail", 2), ("raise", raise_w)], "canceller")
        # what a failing canceller fails its Deferred with / what a raising canceller raises
        cexc = sim.draw_weighted([("E2", 6)] + [(t, bare_w) for t in BARE], "canceller_exc") if canc in ("fail", "raise") else "E2"
        pre = sim.draw_bool(0.3, "prefire")
        # how the Deferred looks to the function that awaits it before it has an outcome: plain = never called back;
        # chained = already called back, but one of its callbacks returned a Deferred that has not fired (`called` is true,
        # there is no result yet); paused = called back while paused.  xform = its owner gave it a last callback that
        # maps a success v to ("t", v): the Deferred's outcome is what comes out of its whole callback chain.
        shape = sim.draw_weighted([("plain", 6), ("chained", 2), ("paused", 1)], "shape") if shapes_on else "plain"
        xform = shapes_on and sim.draw_bool(0.3, "xform")
        plan.append((out, canc, pre, shape, xform, cexc))
    st = {"nodes": 0, "id": 0, "bare_w": bare_w, "app_w": app_w}
    tree = gen_tree(sim, st, 0, 0)
    sim.config = {"npool": npool, "top": top_kind, "cancel_w": cancel_w, "early_w": early_w, "bare_w": bare_w,
                  "app_w": app_w, "inside_w": inside_w, "pause_w": pause_w, "cancel_paused_ok": cancel_paused_ok, "raise_w": raise_w,
                  "plan": [list(p) for p in plan], "program": show(tree)}
    sim.event("program", top_kind, show(tree))

    fired = set()          # pool indexes that have an outcome (harness knowledge)
    cancelled = {}         # pool index -> True when the harness cancelled while that await was pending
    canceller_calls = [0] * npool

    def natural(k):
        out = plan[k][0]
        if out == "ok":
            return ("ok", ("t", ("v", k)) if plan[k][4] else ("v", k))
        return ("err", (EXC[out], ("e", k)))

    def raw_value(k):
        return ("v", k)

    def after_cancel(k):
        c = plan[k][1]
        if c == "succ":
            return ("ok", ("t", ("cv", k)) if plan[k][4] else ("cv", k))
        if c == "fail":
            return ("err", (EXC[plan[k][5]], ("ce", k)))
        return ("err", (defer.CancelledError, ()))

    def effective(k):
        return after_cancel(k) if k in cancelled else natural(k)

    def make_canceller(k):
        c = plan[k][1]
        if c == "none":
            return None

        def canceller(d):
            canceller_calls[k] += 1
            sim.event("canceller", k, c)
            if c == "raise":
                # a canceller that fails to cancel: it raises and leaves its Deferred as it was (Deferred.cancel() passes the
                # exception on to its caller); the operation goes on and ends with its natural outcome
                sim.fault("canceller_raised")
                raise EXC[plan[k][5]]("cx", k)
            fired.add(k)
            kind, payload = after_cancel(k)
            if c == "succ":
                d.callback(("cv", k))
            elif c == "fail":
                d.errback(payload[0](*payload[1]))
        return canceller

    hooks = {}             # pool index -> callable run inside that Deferred's last (transforming) callback
    inner = {}             # chained shape: the unfired Deferred the outer one is waiting for

    def make_pool_deferred(k):
        shape, xform = plan[k][3], plan[k][4]
        if shape == "chained":
            inner[k] = defer.Deferred(make_canceller(k))
            d = CountingDeferred(None)
            d.addCallback(lambda _ignored: inner[k])
        else:
            d = CountingDeferred(make_canceller(k))
        if xform:
            def last(res):
                h = hooks.pop(k, None)
                if h is not None:
                    h()
                return res if isinstance(res, Failure) else ("t", res)
            d.addBoth(last)
        if shape == "chained":
            sim.probe("awaited_deferred_called_but_waiting_on_another")
            d.callback("pre")
        elif shape == "paused":
            sim.probe("awaited_deferred_called_while_paused")
            d.pause()
            if plan[k][0] == "ok":
                d.callback(raw_value(k))
            else:
                d.errback(EXC[plan[k][0]]("e", k))
        return d

    pool = [make_pool_deferred(k) for k in range(npool)]

    def fire(k):
        fired.add(k)
        kind, payload = natural(k)
        sim.event("fire", k, kind)
        shape = plan[k][3]
        if shape == "paused":
            pool[k].unpause()
            return
        target = inner[k] if shape == "chained" else pool[k]
        if kind == "ok":
            target.callback(raw_value(k))
        else:
            target.errback(payload[0](*payload[1]))

    for k in range(npool):
        if plan[k][2]:
            fire(k)

    world = RealWorld(verdict, pool, fired)
    interp = Interp(world)
    results = []

    def on_result(res):
        results.append(res)
        sim.event("result", "err:" + res.type.__name__ if isinstance(res, Failure) else "ok")
        return None

    stats = {"suspensions": 0, "cancels": 0}
    live = {"top": None, "paused": False}
    unattributed = [0] * npool     # cancel() calls the pool Deferreds received during a cancel-from-inside (no verdict on those)

    def calls(j):
        return pool[j].cancel_calls - unattributed[j]

    def cancel_arrives():
        if live["paused"]:
            # the known finding's precondition: whatever this run reports from here on belongs to that family
            sim.fault("cancel_while_returned_deferred_paused")
            verdict.family = "cancel-while-returned-paused"

    def on_app(nid):
        """Application code running inside the program.  It may cancel the returned Deferred from there - but only while the
        top-level function WAITS (the statement's precondition): the harness is past the start, and ever since it last touched
        anything a nested function with a driver of its own has been running beneath the suspended top-level function (the
        top-level function has not been resumed in between)."""
        top = live["top"]
        if top is None or results or world.low < 2 or world.drivers() < 2:
            return
        if live["paused"] and not cancel_paused_ok:
            return
        if not sim.draw_bool(0.4, "cancel_from_inside"):
            return
        stats["cancels"] += 1
        sim.fault("cancel_from_inside_running_nested_function")
        cancel_arrives()
        sim.event("cancel-from-inside", nid)
        # the awaited Deferred is the nested function's: its outcome is that function's outcome, and the nested function itself
        # is running, not waiting - so nothing changes for the program: no verdict here beyond "cancel() returns", the rest is
        # decided by the comparison with the synchronous reference and by the returned Deferred firing at the function's end
        before = [d.cancel_calls for d in pool]
        with Escape(verdict, "cancel-raised", top_kind + "+from-inside", passes=("cx",)):
            top.cancel()
        for j in range(npool):
            unattributed[j] += pool[j].cancel_calls - before[j]

    with Escape(verdict, "start-raised", top_kind):
        if top_kind == "gen":
            top = interp.gfn(tree)
        else:
            top = defer.ensureDeferred(interp.cfn(tree))
    verdict.check("returns-deferred", isinstance(top, defer.Deferred), top_kind, "got %r" % (type(top).__name__,))
    top.addBoth(on_result)
    live["top"] = top
    world.on_app = on_app

    while not results:
        sim.step(600)
        if live["paused"] and (world.ended() or sim.draw_bool(0.35, "unpause_returned")):
            # callbacks of the returned Deferred run again; a result that arrived meanwhile is delivered now
            sim.event("unpause-returned")
            live["paused"] = False
            with Escape(verdict, "unpause-raised", top_kind):
                top.unpause()
            if world.ended():
                sim.probe("function_ended_while_returned_deferred_paused")
            continue
        k = world.awaiting
        # the function's end (return or uncaught exception of any type) is what fires the returned Deferred
        verdict.check("fires-when-function-ends", not world.ended(), top_kind,
                  lambda: "the function has run to its end but the returned Deferred has not fired; log tail %r" % (world.trace[-3:],))
        # the function has not finished, so it must be waiting on an unfired pool Deferred
        verdict.check("suspended-on-unfired", k is not None and k < npool and k not in fired, top_kind,
                  lambda: "returned Deferred unfired, program awaiting %r, fired=%r; log tail %r" % (k, sorted(fired), world.trace[-3:]))
        stats["suspensions"] += 1
        others = [j for j in range(npool) if j not in fired and j != k]
        # a called-back-but-paused Deferred ignores cancel() (documented: cancel after callback is a no-op); no verdict there
        can_cancel = plan[k][3] != "paused"
        # the awaited Deferred is fired from inside the last callback of the Deferred the function will await next
        reentrant_ok = k + 1 < npool and (k + 1) not in fired and plan[k + 1][4] and plan[k + 1][0] == "ok"
        may_cancel = can_cancel and (cancel_paused_ok or not live["paused"])
        # cancel() of the returned Deferred arrives while the awaited Deferred is already firing: from inside its last callback
        inside_ok = may_cancel and plan[k][4]
        op = sim.draw_weighted([("fire", 6), ("early", early_w if others else 0), ("cancel", cancel_w if may_cancel else 0),
                                ("fire_inside_next", 3 if reentrant_ok else 0), ("cancel_inside_fire", inside_w if inside_ok else 0),
                                ("pause", 0 if live["paused"] else pause_w)], "op")
        mark = len(world.trace)
        world.low = world.drivers()
        if op == "pause":
            sim.fault("returned_deferred_paused_by_caller")
            sim.event("pause-returned")
            live["paused"] = True
            with Escape(verdict, "pause-raised", top_kind):
                top.pause()
            continue
        if op == "cancel_inside_fire":
            cc = [calls(j) for j in range(npool)]
            sim.fault("cancel_while_awaited_is_firing")
            cancel_arrives()
            sim.event("cancel-inside-fire", k)
            stats["cancels"] += 1

            def inside_cancel():
                with Escape(verdict, "cancel-raised", top_kind + "+awaited-firing"):
                    top.cancel()
            hooks[k] = inside_cancel
            with Escape(verdict, "fire-raised", "awaited"):
                fire(k)
            # the awaited Deferred already has its outcome: that (not a cancellation) is what the function observes
            wrong = [j for j in range(npool) if j != k and calls(j) != cc[j]]
            verdict.check("cancels-only-awaited", not wrong, top_kind + "+awaited-firing",
                      lambda: "cancel while #%d was firing also cancelled %r" % (k, wrong))
            verdict.check("cancels-awaited", hooks.get(k) is None and calls(k) == cc[k] + 1, top_kind + "+awaited-firing",
                      lambda: "cancel while #%d was firing: that Deferred received %d cancel() calls" % (k, calls(k) - cc[k]))
            verdict.check("resumes-on-fire", len(world.trace) > mark and world.trace[mark][:2] == ("resumed", k), top_kind,
                      lambda: "await #%d fired (cancel arrived inside its callback) but the program did not observe it; log tail %r"
                      % (k, world.trace[-3:]))
            sim.state((top_kind, min(world.nawaits, 12), len(fired), op))
            continue
        if op == "fire_inside_next":
            sim.probe("resumed_inside_callback_of_next_awaited")
            sim.event("fire-inside-callback-of", k + 1)

            def inside(k=k):
                with Escape(verdict, "fire-raised", "awaited-from-inside-callback"):
                    fire(k)
            hooks[k + 1] = inside
            with Escape(verdict, "fire-raised", "next"):
                fire(k + 1)
            verdict.check("resumes-on-fire", len(world.trace) > mark and world.trace[mark][:2] == ("resumed", k), top_kind,
                      lambda: "await #%d fired (from inside a callback) but the program did not observe it; log tail %r" % (k, world.trace[-3:]))
        elif op == "fire":
            with Escape(verdict, "fire-raised", "awaited"):
                fire(k)
            verdict.check("resumes-on-fire", len(world.trace) > mark and world.trace[mark][:2] == ("resumed", k), top_kind,
                      lambda: "await #%d fired but the program did not observe it; log tail %r" % (k, world.trace[-3:]))
        elif op == "early":
            j = sim.draw_choice(others, "which")
            sim.probe("fired_before_awaited")
            if plan[j][3] != "paused" and sim.draw_bool(0.25, "early_by_cancel"):
                # the owner of d_j cancels it before the program gets to it: its outcome is the canceller's
                # (a canceller that raises leaves d_j as it was)
                if plan[j][1] != "raise":
                    cancelled[j] = True
                    fired.add(j)
                sim.event("cancel-early", j, plan[j][1])
                with Escape(verdict, "fire-raised", "other", passes=("cx",)):
                    pool[j].cancel()
            else:
                with Escape(verdict, "fire-raised", "other"):
                    fire(j)
            verdict.check("no-spurious-resume", len(world.trace) == mark, top_kind,
                      lambda: "firing un-awaited #%d made the program advance: %r" % (j, world.trace[mark:mark + 3]))
        else:
            cc = [calls(j) for j in range(npool)]
            refused = plan[k][1] == "raise"     # the canceller raises: the awaited Deferred stays as it was, the function goes on waiting
            wit = top_kind + ("+canceller-raises" if refused else "")
            if not refused:
                cancelled[k] = True
            stats["cancels"] += 1
            sim.fault("cancel_at_suspension")
            cancel_arrives()
            sim.event("cancel", k, plan[k][1])
            if plan[k][1] in ("none", "noop"):
                fired.add(k)   # Deferred.cancel() itself fails it with CancelledError
            # no verdict on whether what a raising canceller raises comes out of cancel() (it does for a plain Deferred)
            with Escape(verdict, "cancel-raised", top_kind, passes=("cx",)):
                top.cancel()
            wrong = [j for j in range(npool) if j != k and calls(j) != cc[j]]
            verdict.check("cancels-only-awaited", not wrong, wit,
                      lambda: "cancel while awaiting #%d also cancelled %r" % (k, wrong))
            verdict.check("cancels-awaited", calls(k) == cc[k] + 1, wit,
                      lambda: "cancel while awaiting #%d: that Deferred received %d cancel() calls" % (k, calls(k) - cc[k]))
            if refused:
                verdict.check("no-spurious-resume", len(world.trace) == mark, wit,
                          lambda: "the canceller of #%d raised, yet the program advanced: %r" % (k, world.trace[mark:mark + 3]))
            else:
                verdict.check("cancel-outcome-observed", len(world.trace) > mark and world.trace[mark][:2] == ("resumed", k), wit,
                          lambda: "cancelled await #%d was not observed by the program; log tail %r" % (k, world.trace[-3:]))
        sim.state((top_kind, min(world.nawaits, 12), len(fired), op))

    # the returned Deferred carries the function's return value or uncaught exception: there is none before the function's end
    verdict.check("fires-only-when-function-ends", world.ended(), top_kind,
              lambda: "the returned Deferred fired while the function had not run to its end; log tail %r" % (world.trace[-3:],))

    # ---- synchronous reference over the effective outcomes
    sworld = SyncWorld(effective, npool)
    sint = Interp(sworld)
    expected = outcome_of(lambda: sint.sfn(tree))
    res = results[0]
    got = ("err", res.type.__name__, res.value.args) if isinstance(res, Failure) else ("ok", res)
    sim.event("expected", expected[0], expected[1] if expected[0] == "err" else "")
    n = min(len(world.trace), len(sworld.trace))
    div = next((i for i in range(n) if world.trace[i] != sworld.trace[i]), None)
    if div is None and len(world.trace) != len(sworld.trace):
        div = n
    verdict.check("observations-equal", div is None, top_kind,
              lambda: "first divergence at log entry %d: real %r reference %r" % (
                  div, world.trace[div:div + 2], sworld.trace[div:div + 2]))
    verdict.check("outcome-equal", got == expected, top_kind, "returned Deferred fired with %r, synchronous reference gives %r" % (got, expected))
    # nothing fires the returned Deferred again
    for k in range(npool):
        if k not in fired:
            with Escape(verdict, "fire-raised", "after-the-end"):
                fire(k)
    verdict.check("fires-once", len(results) == 1, top_kind, "returned Deferred's callback ran %d times" % len(results))
    for d in pool:
        d.addErrback(lambda f: None)
    if bare_w:
        for e in world.trace:
            if e[0] == "raise" and e[2] in BARE:
                sim.probe("program_raised_" + e[2])
            elif e[0] == "resumed" and e[2] == "raised" and e[3] in BARE:
                sim.probe("await_raised_" + e[3])
            elif e[0] == "callraised" and e[2] in BARE:
                sim.probe("nested_function_ended_with_non_Exception")
            elif e[0] == "caught" and e[3] in BARE:
                sim.probe("non_Exception_caught_by_program")
        if got[0] == "err" and got[1] in BARE:
            sim.probe("function_outcome_" + got[1])
    saw_exc = any(e[0] == "resumed" and e[2] == "raised" for e in world.trace)
    called = any(e[0] == "call" for e in world.trace)
    sim.nontrivial = stats["suspensions"] > 0 and (stats["cancels"] > 0 or saw_exc or called)


MUTANTS = [
    "defer.py _inlineCallbacks: status.waitingOn only set the first time (cancel reaches a stale, wrong Deferred): CAUGHT (cancels-only-awaited / cancels-awaited)",
    "defer.py _inlineCallbacks: 'waiting[0] = True' reset dropped after a synchronously available result: CAUGHT",
    "defer.py _inlineCallbacks: a CancelledError failure is sent into the generator as a value instead of thrown: CAUGHT (observations-equal)",
    "defer.py _handleCancelInlineCallbacks: awaited.cancel() called twice: CAUGHT (cancels-awaited)",
    "defer.py Deferred.__await__: an already-failed Deferred with CancelledError is returned as a value: CAUGHT after adding the 'cancel-early' operation (survived before)",
    "defer.py Deferred.__await__: result.raiseException() -> return result (failure delivered as value): CAUGHT",
    "defer.py _inlineCallbacks: StopIteration value dropped (callbackValue = None): CAUGHT (outcome-equal)",
    "defer.py _inlineCallbacks: uncaught exception turned into callback(None): CAUGHT",
    "defer.py _handleCancelInlineCallbacks: replacement status.deferred created without canceller (second cancel lost): CAUGHT",
    "defer.py _addCancelCallbackToDeferred: existing callbacks not re-appended: CAUGHT",
    "defer.py _gotResultInlineCallbacks: waiting[0] not cleared: CAUGHT",
    # round 4: exception types outside the Exception hierarchy
    "defer.py _inlineCallbacks: `except (KeyboardInterrupt, SystemExit): raise` before the catch-all (seeded): CAUGHT (fires-when-function-ends / start-raised:*:SystemExit / start-raised:*:KeyboardInterrupt); survived before - all program exceptions were Exception subclasses",
    "defer.py _inlineCallbacks: catch-all `except BaseException` -> `except Exception`: CAUGHT (fires-when-function-ends / start-raised)",
    "defer.py _inlineCallbacks: a Failure whose value is not an Exception is sent into the generator as a value: CAUGHT (observations-equal)",
    "defer.py _inlineCallbacks: `except SystemExit: status.deferred.callback(None)` (sys.exit() treated as a clean return): CAUGHT (outcome-equal / observations-equal)",
    # round 6: cancel() issued from inside the running program / from inside the awaited Deferred's callback; caller pauses the returned Deferred
    "defer.py _inlineCallbacks: status.deferred read once per call, before the loop (seeded C05-r6a): CAUGHT (suspended-on-unfired:gen / :coro) - the "
    "replacement Deferred installed by a cancel() that arrives while this very call is on the stack never fires; survived before (every cancel() "
    "came from the scheduler, with no _inlineCallbacks frame on the stack)",
    "defer.py Deferred.__await__: `self.result = None` before handing the result over (seeded C05-r6b): NOT CAUGHT, deliberately - visible only to a "
    "second consumer of an already awaited Deferred, which the statement does not cover (see ASSUMPTIONS)",
    "KNOWN FINDING (unchanged tree, not repaired, listed in known_findings.json; reached in a CANCEL_WHILE_RETURNED_PAUSED_P = 0.03 share of the runs, signature family "
    "C05:cancel-while-returned-paused:*) it = f(); it.pause(); it.cancel(): the awaited "
    "Deferred is NOT cancelled (cancel-while-returned-paused:cancels-awaited:*) because _addCancelCallbackToDeferred hands the work to an errback of `it`, which a "
    "paused Deferred does not run; if the awaited Deferred then fires and the function ends, _inlineCallbacks raises AlreadyCalledError into the "
    "awaited Deferred's chain (status.deferred is still `it`, already errbacked with the internal marker), and after it.unpause() `it` waits for a "
    "replacement that never fires.  Candidate fix: create the replacement, set status.deferred and call status.waitingOn.cancel() in "
    "_addCancelCallbackToDeferred itself, the errback only trapping the marker and returning the replacement (check passes with it when the cancel "
    "while paused is the first cancel; a SECOND cancel() while paused is still lost, because Deferred.cancel() of a called, paused Deferred whose "
    "result is the unprocessed marker does nothing)",
    "GENUINE DEFECT, REPAIRED in /repo by 99d1188 (found with RAISING_CANCELLER_P > 0, now 0.4) the awaited Deferred's canceller raises: the exception left "
    "_handleCancelInlineCallbacks and becomes at once the result of the returned Deferred, while the function goes on waiting "
    "(fires-only-when-function-ends:*, no-spurious-resume:*+canceller-raises for a nested function); the function's eventual outcome goes to the "
    "orphaned replacement Deferred.  Repair: contained as DeferredList.cancel does (try: awaited.cancel() except BaseException: "
    "log.failure(...)); the check passes on the repaired tree with the family on",
]
