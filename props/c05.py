"""C05 — inlineCallbacks / coroutines match synchronous execution, incl. cancellation.

Engine E1 (tasks): a tape-generated *program tree* (sequence, await Deferred,
await plain value, try/except/finally, bounded loop, return, raise, return or
raise inside finally, call of a nested function that is itself an
inlineCallbacks generator or a coroutine) is interpreted three ways over the
same pool of <=10 real Deferreds:

  * as a generator driven by the real @inlineCallbacks,
  * as a coroutine driven by the real ensureDeferred / Deferred.__await__,
  * synchronously (reference): `await d_k` simply returns / raises d_k's outcome.

The tape chooses which Deferreds are pre-fired, the order in which the others
fire while the program is suspended, and at which suspension points the returned
Deferred is cancelled.  Oracle: the observation log written by the program
itself and the final outcome equal those of the synchronous reference (with a
cancelled await's outcome replaced by what its canceller produces,
CancelledError by default); cancel() reaches exactly the currently awaited
Deferred; the returned Deferred fires exactly once.
"""
from twisted.internet import defer
from twisted.python.failure import Failure

ID = "C05"
ENGINE = "tasks"
LEVEL = "exploration"
TECHNIQUE = "deterministic simulation: random program trees run by real inlineCallbacks/ensureDeferred under seeded firing order and cancellation points vs synchronous reference interpreter"
QUICK_RUNS = 60000
TWIN_P = 0.08   # this share of the runs drives two independent instances of the scenario one after the other (detsim.runner._run_scenario)
BATCH = 400
RUN_WALL_LIMIT_S = 120   # runs take milliseconds; generous because whole-machine stalls >20 s were seen under load
COMPONENTS = {"real": ["twisted.internet.defer.inlineCallbacks", "twisted.internet.defer._inlineCallbacks",
                       "twisted.internet.defer._cancellableInlineCallbacks", "twisted.internet.defer._handleCancelInlineCallbacks",
                       "twisted.internet.defer.ensureDeferred", "twisted.internet.defer.Deferred.__await__",
                       "twisted.python.failure.Failure.throwExceptionIntoGenerator"],
              "stub": ["order in which awaited Deferreds fire and points at which the returned Deferred is cancelled (tape)"]}
RULE = ("run = one random program tree (<=40 nodes, function nesting <=3, mixed generator/coroutine nesting) over a pool of 1..10 Deferreds "
        "(each: success or failure outcome, pre-fired or not, canceller in {none, noop, fires success, fires failure}; in 60% of the runs also a shape: "
        "plain / already called back but waiting on another Deferred / called back while paused, and optionally a last callback that transforms the value); "
        "while the program is suspended the tape fires the awaited Deferred, fires it from inside the last callback of the Deferred the program awaits next, "
        "fires another pool Deferred early, or cancels the returned Deferred; "
        "non-trivial = the program suspended at least once AND (a cancellation hit a suspension, or an exception was observed at an await, "
        "or a nested function was called)")
ASSUMPTIONS = ["each Deferred is awaited at most once (the k-th executed await uses pool Deferred k)",
               "cancellers act only on their own Deferred and do not raise",
               "in coroutine form 'await plain value' is written `await succeed(value)` (a coroutine cannot await a non-awaitable)"]

MAX_POOL = 10


class E1(Exception):
    pass


class E2(Exception):
    pass


class Ret(BaseException):
    """Implements `return` of the interpreted program (unwinds to the function boundary)."""

    def __init__(self, value):
        BaseException.__init__(self, value)
        self.value = value


class CountingDeferred(defer.Deferred):
    def __init__(self, canceller=None):
        defer.Deferred.__init__(self, canceller)
        self.cancel_calls = 0

    def cancel(self):
        self.cancel_calls += 1
        defer.Deferred.cancel(self)


EXC = {"E1": E1, "E2": E2, "Cancelled": defer.CancelledError, "Exception": Exception}


# --------------------------------------------------------------------------- program generation

def gen_tree(sim, st, depth, fdepth):
    """Return a node.  st = {'nodes': count, 'id': counter}."""
    st["nodes"] += 1
    st["id"] += 1
    nid = st["id"]
    deep = depth >= 4 or st["nodes"] > 40
    kinds = [("await", 8), ("value", 1), ("return", 1), ("raise", 2)]
    if not deep:
        kinds += [("seq", 6), ("try", 5), ("loop", 2), ("call", 3 if fdepth < 2 else 0)]
    if depth == 0:
        kinds = [("seq", 3), ("try", 2)]          # a function body is never a bare leaf
    k = sim.draw_weighted(kinds, "node")
    if k == "await":
        return ("await", nid)
    if k == "value":
        return ("value", nid)
    if k == "return":
        return ("return", nid)
    if k == "raise":
        return ("raise", nid, sim.draw_choice(["E1", "E2"], "exc"))
    if k == "seq":
        return ("seq", nid, [gen_tree(sim, st, depth + 1, fdepth) for _ in range(sim.draw_int(2, 3, "seqlen"))])
    if k == "loop":
        return ("loop", nid, sim.draw_int(1, 3, "iters"), gen_tree(sim, st, depth + 1, fdepth))
    if k == "call":
        return ("call", nid, sim.draw_choice(["gen", "coro"], "fkind"), sim.draw_choice(["raw", "ensure", "from"], "variant"),
                gen_tree(sim, st, 0 if depth < 3 else depth + 1, fdepth + 1))
    body = gen_tree(sim, st, depth + 1, fdepth)
    handlers = []
    for _ in range(sim.draw_int(0, 2, "nhandlers")):
        handlers.append((sim.draw_choice(["E1", "E2", "Cancelled", "Exception"], "htype"), gen_tree(sim, st, depth + 1, fdepth)))
    fin = None
    if sim.draw_bool(0.5, "finally") or not handlers:
        fin = gen_tree(sim, st, depth + 1, fdepth)
    return ("try", nid, body, handlers, fin)


def show(node):
    k = node[0]
    if k in ("await", "value", "return"):
        return "%s#%d" % (k, node[1])
    if k == "raise":
        return "raise#%d(%s)" % (node[1], node[2])
    if k == "seq":
        return "seq[" + "; ".join(show(c) for c in node[2]) + "]"
    if k == "loop":
        return "loop%d{%s}" % (node[2], show(node[3]))
    if k == "call":
        return "call:%s/%s(%s)" % (node[2], node[3], show(node[4]))
    s = "try{%s}" % show(node[2])
    for (t, h) in node[3]:
        s += " except %s{%s}" % (t, show(h))
    if node[4] is not None:
        s += " finally{%s}" % show(node[4])
    return s


def _match(handlers, e):
    for (t, body) in handlers:
        if isinstance(e, EXC[t]):
            return t, body
    return None, None


# --------------------------------------------------------------------------- the three interpreters

class Interp:
    """Interprets a tree as generator (g), coroutine (c) or synchronously (s).
    `world` supplies awaitables / outcomes and receives the observation log."""

    def __init__(self, world):
        self.w = world
        self.gfn = defer.inlineCallbacks(self._gfn)

    # -- shared observation points
    def _raise(self, node):
        self.w.log(("raise", node[1], node[2]))
        raise EXC[node[2]]("p", node[1])

    def _return(self, node):
        self.w.log(("return", node[1]))
        raise Ret(("r", node[1]))

    # -- generator form (driven by inlineCallbacks)
    def _gfn(self, body):
        try:
            yield from self.g(body)
        except Ret as r:
            return r.value
        return None

    def g(self, node):
        w = self.w
        k = node[0]
        if k == "await":
            idx = w.begin_await()
            try:
                v = yield w.awaitable(idx)
            except Exception as e:
                w.end_await(idx, ("raised", type(e).__name__, e.args))
                raise
            w.end_await(idx, ("got", v))
        elif k == "value":
            v = yield ("plain", node[1])
            w.log(("value", v))
        elif k == "return":
            self._return(node)
        elif k == "raise":
            self._raise(node)
        elif k == "seq":
            for c in node[2]:
                yield from self.g(c)
        elif k == "loop":
            for i in range(node[2]):
                w.log(("iter", node[1], i))
                yield from self.g(node[3])
        elif k == "call":
            w.log(("call", node[1]))
            try:
                if node[2] == "gen":
                    r = yield self.gfn(node[4])
                elif node[3] == "raw":
                    r = yield self.cfn(node[4])         # a coroutine object yielded from a generator
                elif node[3] == "ensure":
                    r = yield defer.ensureDeferred(self.cfn(node[4]))
                else:
                    r = yield defer.Deferred.fromCoroutine(self.cfn(node[4]))
            except Exception as e:
                w.log(("callraised", node[1], type(e).__name__, e.args))
                raise
            w.log(("callret", node[1], r))
        else:
            try:
                yield from self.g(node[2])
            except Exception as e:
                t, h = _match(node[3], e)
                if h is None:
                    raise
                w.log(("caught", node[1], t, type(e).__name__))
                yield from self.g(h)
            finally:
                if node[4] is not None:
                    w.log(("finally", node[1]))
                    yield from self.g(node[4])

    # -- coroutine form (driven by ensureDeferred)
    async def cfn(self, body):
        try:
            await self.c(body)
        except Ret as r:
            return r.value
        return None

    async def c(self, node):
        w = self.w
        k = node[0]
        if k == "await":
            idx = w.begin_await()
            try:
                v = await w.awaitable(idx)
            except Exception as e:
                w.end_await(idx, ("raised", type(e).__name__, e.args))
                raise
            w.end_await(idx, ("got", v))
        elif k == "value":
            v = await defer.succeed(("plain", node[1]))
            w.log(("value", v))
        elif k == "return":
            self._return(node)
        elif k == "raise":
            self._raise(node)
        elif k == "seq":
            for ch in node[2]:
                await self.c(ch)
        elif k == "loop":
            for i in range(node[2]):
                w.log(("iter", node[1], i))
                await self.c(node[3])
        elif k == "call":
            w.log(("call", node[1]))
            try:
                if node[2] == "gen":
                    r = await self.gfn(node[4])
                elif node[3] == "raw":
                    r = await self.cfn(node[4])         # native coroutine-to-coroutine await
                elif node[3] == "ensure":
                    r = await defer.ensureDeferred(self.cfn(node[4]))
                else:
                    r = await defer.Deferred.fromCoroutine(self.cfn(node[4]))
            except Exception as e:
                w.log(("callraised", node[1], type(e).__name__, e.args))
                raise
            w.log(("callret", node[1], r))
        else:
            try:
                await self.c(node[2])
            except Exception as e:
                t, h = _match(node[3], e)
                if h is None:
                    raise
                w.log(("caught", node[1], t, type(e).__name__))
                await self.c(h)
            finally:
                if node[4] is not None:
                    w.log(("finally", node[1]))
                    await self.c(node[4])

    # -- synchronous reference
    def sfn(self, body):
        try:
            self.s(body)
        except Ret as r:
            return r.value
        return None

    def s(self, node):
        w = self.w
        k = node[0]
        if k == "await":
            idx = w.begin_await()
            try:
                v = w.outcome(idx)
            except Exception as e:
                w.end_await(idx, ("raised", type(e).__name__, e.args))
                raise
            w.end_await(idx, ("got", v))
        elif k == "value":
            w.log(("value", ("plain", node[1])))
        elif k == "return":
            self._return(node)
        elif k == "raise":
            self._raise(node)
        elif k == "seq":
            for ch in node[2]:
                self.s(ch)
        elif k == "loop":
            for i in range(node[2]):
                w.log(("iter", node[1], i))
                self.s(node[3])
        elif k == "call":
            w.log(("call", node[1]))
            try:
                r = self.sfn(node[4])
            except Exception as e:
                w.log(("callraised", node[1], type(e).__name__, e.args))
                raise
            w.log(("callret", node[1], r))
        else:
            try:
                self.s(node[2])
            except Exception as e:
                t, h = _match(node[3], e)
                if h is None:
                    raise
                w.log(("caught", node[1], t, type(e).__name__))
                self.s(h)
            finally:
                if node[4] is not None:
                    w.log(("finally", node[1]))
                    self.s(node[4])


class World:
    """Observation log + await numbering shared by both worlds."""

    def __init__(self):
        self.trace = []
        self.nawaits = 0
        self.awaiting = None

    def log(self, entry):
        self.trace.append(entry)

    def begin_await(self):
        idx = self.nawaits
        self.nawaits += 1
        self.trace.append(("await", idx))
        self.awaiting = idx
        return idx

    def end_await(self, idx, what):
        self.awaiting = None
        self.trace.append(("resumed", idx) + what)


class RealWorld(World):
    def __init__(self, sim, pool, fired):
        World.__init__(self)
        self.sim, self.pool, self.fired = sim, pool, fired

    def awaitable(self, idx):
        if idx < len(self.pool):
            return self.pool[idx]
        return defer.succeed(("x", idx))

    def end_await(self, idx, what):
        if idx < len(self.pool):
            # the program may only see an outcome of a Deferred that has one
            self.sim.check("no-early-resume", idx in self.fired, "await", "await #%d resumed with %r before its Deferred fired" % (idx, what))
        World.end_await(self, idx, what)


class SyncWorld(World):
    def __init__(self, effective, npool):
        World.__init__(self)
        self.effective, self.npool = effective, npool

    def outcome(self, idx):
        if idx >= self.npool:
            return ("x", idx)
        kind, payload = self.effective(idx)
        if kind == "ok":
            return payload
        raise payload[0](*payload[1])


def outcome_of(call):
    """Run a synchronous callable, return ('ok', value) / ('err', typename, args)."""
    try:
        return ("ok", call())
    except Exception as e:
        return ("err", type(e).__name__, e.args)


def run(sim):
    npool = sim.draw_int(1, MAX_POOL, "npool")
    top_kind = sim.draw_choice(["gen", "coro"], "top")
    cancel_w = sim.draw_choice([0, 2, 6], "cancel_weight")
    early_w = sim.draw_choice([0, 2], "early_weight")
    shapes_on = sim.draw_bool(0.6, "deferred_shapes")
    plan = []
    for k in range(npool):
        out = sim.draw_weighted([("ok", 5), ("E1", 2), ("E2", 1)], "outcome")
        canc = sim.draw_weighted([("none", 4), ("noop", 2), ("succ", 2), ("fail", 2)], "canceller")
        pre = sim.draw_bool(0.3, "prefire")
        # how the Deferred looks to the function that awaits it before it has an outcome: plain = never called back;
        # chained = already called back, but one of its callbacks returned a Deferred that has not fired (`called` is true,
        # there is no result yet); paused = called back while paused.  xform = its owner gave it a last callback that
        # maps a success v to ("t", v): the Deferred's outcome is what comes out of its whole callback chain.
        shape = sim.draw_weighted([("plain", 6), ("chained", 2), ("paused", 1)], "shape") if shapes_on else "plain"
        xform = shapes_on and sim.draw_bool(0.3, "xform")
        plan.append((out, canc, pre, shape, xform))
    st = {"nodes": 0, "id": 0}
    tree = gen_tree(sim, st, 0, 0)
    sim.config = {"npool": npool, "top": top_kind, "cancel_w": cancel_w, "early_w": early_w,
                  "plan": [list(p) for p in plan], "program": show(tree)}
    sim.event("program", top_kind, show(tree))

    fired = set()          # pool indexes that have an outcome (harness knowledge)
    cancelled = {}         # pool index -> True when the harness cancelled while that await was pending
    canceller_calls = [0] * npool

    def natural(k):
        out = plan[k][0]
        if out == "ok":
            return ("ok", ("t", ("v", k)) if plan[k][4] else ("v", k))
        return ("err", (EXC[out], ("e", k)))

    def raw_value(k):
        return ("v", k)

    def after_cancel(k):
        c = plan[k][1]
        if c == "succ":
            return ("ok", ("t", ("cv", k)) if plan[k][4] else ("cv", k))
        if c == "fail":
            return ("err", (E2, ("ce", k)))
        return ("err", (defer.CancelledError, ()))

    def effective(k):
        return after_cancel(k) if k in cancelled else natural(k)

    def make_canceller(k):
        c = plan[k][1]
        if c == "none":
            return None

        def canceller(d):
            canceller_calls[k] += 1
            fired.add(k)
            sim.event("canceller", k, c)
            kind, payload = after_cancel(k)
            if c == "succ":
                d.callback(("cv", k))
            elif c == "fail":
                d.errback(payload[0](*payload[1]))
        return canceller

    hooks = {}             # pool index -> callable run inside that Deferred's last (transforming) callback
    inner = {}             # chained shape: the unfired Deferred the outer one is waiting for

    def make_pool_deferred(k):
        shape, xform = plan[k][3], plan[k][4]
        if shape == "chained":
            inner[k] = defer.Deferred(make_canceller(k))
            d = CountingDeferred(None)
            d.addCallback(lambda _ignored: inner[k])
        else:
            d = CountingDeferred(make_canceller(k))
        if xform:
            def last(res):
                h = hooks.pop(k, None)
                if h is not None:
                    h()
                return res if isinstance(res, Failure) else ("t", res)
            d.addBoth(last)
        if shape == "chained":
            sim.probe("awaited_deferred_called_but_waiting_on_another")
            d.callback("pre")
        elif shape == "paused":
            sim.probe("awaited_deferred_called_while_paused")
            d.pause()
            if plan[k][0] == "ok":
                d.callback(raw_value(k))
            else:
                d.errback(EXC[plan[k][0]]("e", k))
        return d

    pool = [make_pool_deferred(k) for k in range(npool)]

    def fire(k):
        fired.add(k)
        kind, payload = natural(k)
        sim.event("fire", k, kind)
        shape = plan[k][3]
        if shape == "paused":
            pool[k].unpause()
            return
        target = inner[k] if shape == "chained" else pool[k]
        if kind == "ok":
            target.callback(raw_value(k))
        else:
            target.errback(payload[0](*payload[1]))

    for k in range(npool):
        if plan[k][2]:
            fire(k)

    world = RealWorld(sim, pool, fired)
    interp = Interp(world)
    results = []

    def on_result(res):
        results.append(res)
        sim.event("result", "err:" + res.type.__name__ if isinstance(res, Failure) else "ok")
        return None

    with sim.guard("start-raised", top_kind):
        if top_kind == "gen":
            top = interp.gfn(tree)
        else:
            top = defer.ensureDeferred(interp.cfn(tree))
    sim.check("returns-deferred", isinstance(top, defer.Deferred), top_kind, "got %r" % (type(top).__name__,))
    top.addBoth(on_result)

    stats = {"suspensions": 0, "cancels": 0}
    while not results:
        sim.step(600)
        k = world.awaiting
        # the function has not finished, so it must be waiting on an unfired pool Deferred
        sim.check("suspended-on-unfired", k is not None and k < npool and k not in fired, top_kind,
                  lambda: "returned Deferred unfired, program awaiting %r, fired=%r; log tail %r" % (k, sorted(fired), world.trace[-3:]))
        stats["suspensions"] += 1
        others = [j for j in range(npool) if j not in fired and j != k]
        # a called-back-but-paused Deferred ignores cancel() (documented: cancel after callback is a no-op); no verdict there
        can_cancel = plan[k][3] != "paused"
        # the awaited Deferred is fired from inside the last callback of the Deferred the function will await next
        reentrant_ok = k + 1 < npool and (k + 1) not in fired and plan[k + 1][4] and plan[k + 1][0] == "ok"
        op = sim.draw_weighted([("fire", 6), ("early", early_w if others else 0), ("cancel", cancel_w if can_cancel else 0),
                                ("fire_inside_next", 3 if reentrant_ok else 0)], "op")
        mark = len(world.trace)
        if op == "fire_inside_next":
            sim.probe("resumed_inside_callback_of_next_awaited")
            sim.event("fire-inside-callback-of", k + 1)

            def inside(k=k):
                with sim.guard("fire-raised", "awaited-from-inside-callback"):
                    fire(k)
            hooks[k + 1] = inside
            with sim.guard("fire-raised", "next"):
                fire(k + 1)
            sim.check("resumes-on-fire", len(world.trace) > mark and world.trace[mark][:2] == ("resumed", k), top_kind,
                      lambda: "await #%d fired (from inside a callback) but the program did not observe it; log tail %r" % (k, world.trace[-3:]))
        elif op == "fire":
            with sim.guard("fire-raised", "awaited"):
                fire(k)
            sim.check("resumes-on-fire", len(world.trace) > mark and world.trace[mark][:2] == ("resumed", k), top_kind,
                      lambda: "await #%d fired but the program did not observe it; log tail %r" % (k, world.trace[-3:]))
        elif op == "early":
            j = sim.draw_choice(others, "which")
            sim.probe("fired_before_awaited")
            if plan[j][3] != "paused" and sim.draw_bool(0.25, "early_by_cancel"):
                # the owner of d_j cancels it before the program gets to it: its outcome is the canceller's
                cancelled[j] = True
                fired.add(j)
                sim.event("cancel-early", j, plan[j][1])
                with sim.guard("fire-raised", "other"):
                    pool[j].cancel()
            else:
                with sim.guard("fire-raised", "other"):
                    fire(j)
            sim.check("no-spurious-resume", len(world.trace) == mark, top_kind,
                      lambda: "firing un-awaited #%d made the program advance: %r" % (j, world.trace[mark:mark + 3]))
        else:
            cc = [d.cancel_calls for d in pool]
            cancelled[k] = True
            stats["cancels"] += 1
            sim.fault("cancel_at_suspension")
            sim.event("cancel", k, plan[k][1])
            if plan[k][1] in ("none", "noop"):
                fired.add(k)   # Deferred.cancel() itself fails it with CancelledError
            with sim.guard("cancel-raised", top_kind):
                top.cancel()
            wrong = [j for j in range(npool) if j != k and pool[j].cancel_calls != cc[j]]
            sim.check("cancels-only-awaited", not wrong, top_kind,
                      lambda: "cancel while awaiting #%d also cancelled %r" % (k, wrong))
            sim.check("cancels-awaited", pool[k].cancel_calls == cc[k] + 1, top_kind,
                      lambda: "cancel while awaiting #%d: that Deferred received %d cancel() calls" % (k, pool[k].cancel_calls - cc[k]))
            sim.check("cancel-outcome-observed", len(world.trace) > mark and world.trace[mark][:2] == ("resumed", k), top_kind,
                      lambda: "cancelled await #%d was not observed by the program; log tail %r" % (k, world.trace[-3:]))
        sim.state((top_kind, min(world.nawaits, 12), len(fired), op))

    # ---- synchronous reference over the effective outcomes
    sworld = SyncWorld(effective, npool)
    sint = Interp(sworld)
    expected = outcome_of(lambda: sint.sfn(tree))
    res = results[0]
    got = ("err", res.type.__name__, res.value.args) if isinstance(res, Failure) else ("ok", res)
    sim.event("expected", expected[0], expected[1] if expected[0] == "err" else "")
    n = min(len(world.trace), len(sworld.trace))
    div = next((i for i in range(n) if world.trace[i] != sworld.trace[i]), None)
    if div is None and len(world.trace) != len(sworld.trace):
        div = n
    sim.check("observations-equal", div is None, top_kind,
              lambda: "first divergence at log entry %d: real %r reference %r" % (
                  div, world.trace[div:div + 2], sworld.trace[div:div + 2]))
    sim.check("outcome-equal", got == expected, top_kind, "returned Deferred fired with %r, synchronous reference gives %r" % (got, expected))
    # nothing fires the returned Deferred again
    for k in range(npool):
        if k not in fired:
            fire(k)
    sim.check("fires-once", len(results) == 1, top_kind, "returned Deferred's callback ran %d times" % len(results))
    for d in pool:
        d.addErrback(lambda f: None)
    saw_exc = any(e[0] == "resumed" and e[2] == "raised" for e in world.trace)
    called = any(e[0] == "call" for e in world.trace)
    sim.nontrivial = stats["suspensions"] > 0 and (stats["cancels"] > 0 or saw_exc or called)


MUTANTS = [
    "defer.py _inlineCallbacks: status.waitingOn only set the first time (cancel reaches a stale, wrong Deferred): CAUGHT (cancels-only-awaited / cancels-awaited)",
    "defer.py _inlineCallbacks: 'waiting[0] = True' reset dropped after a synchronously available result: CAUGHT",
    "defer.py _inlineCallbacks: a CancelledError failure is sent into the generator as a value instead of thrown: CAUGHT (observations-equal)",
    "defer.py _handleCancelInlineCallbacks: awaited.cancel() called twice: CAUGHT (cancels-awaited)",
    "defer.py Deferred.__await__: an already-failed Deferred with CancelledError is returned as a value: CAUGHT after adding the 'cancel-early' operation (survived before)",
    "defer.py Deferred.__await__: result.raiseException() -> return result (failure delivered as value): CAUGHT",
    "defer.py _inlineCallbacks: StopIteration value dropped (callbackValue = None): CAUGHT (outcome-equal)",
    "defer.py _inlineCallbacks: uncaught exception turned into callback(None): CAUGHT",
    "defer.py _handleCancelInlineCallbacks: replacement status.deferred created without canceller (second cancel lost): CAUGHT",
    "defer.py _addCancelCallbackToDeferred: existing callbacks not re-appended: CAUGHT",
    "defer.py _gotResultInlineCallbacks: waiting[0] not cleared: CAUGHT",
]
