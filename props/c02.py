"""C02 — Deferred chaining depth never exhausts the stack.

Engine E1 (tasks).  Four families (plus who consumes a chain and how it is completed), all on real Deferreds / inlineCallbacks /
coroutines with the default recursion limit:

* chain  — N Deferreds, d_k's first callback returns d_{k+1}; each d_k is
  pre-fired before the chain is built, or fired later in ascending, descending
  or a shuffled order; a subset is paused and unpaused later; own results and
  the 1..3 follow-up callbacks of each d_k produce successes, failures, raises
  and recoveries in tape-chosen periodic patterns - as plain return values /
  raises or, for a tape-chosen periodic subset, wrapped in an ALREADY-FIRED
  Deferred (succeed()/fail(), a hand-fired Deferred, or a fired Deferred that
  got its result by chaining itself), i.e. one more implicit chaining step per
  follow-up callback.
  The chain's head (and the pipeline Deferred below) may have a CONSUMER on top, the way application code waits for a result:
  a coroutine ``await d``, a generator ``yield from d`` (Deferred.fromCoroutine), an @inlineCallbacks generator ``yield d`` or
  ``yield from d``; it starts to wait at a tape-chosen point of the firing schedule - head not fired yet, head fired but waiting
  for a pending chain of some length, head finished.  The chain is COMPLETED by firing its tail or - the other public way to
  complete a pending chain - by a cancellation request (``cancel()`` or an ``addTimeout`` running out on a clock) applied to a
  link near the tail or to the head, which Deferred.cancel forwards link by link to the outstanding tail (tail without a
  canceller: CancelledError; with a canceller that fires its own result).
* pipe   — ONE Deferred with N callbacks (the callback-style twin of the loops
  below): every step returns a plain value / raises, an already-fired Deferred
  (success or failure), or its own Deferred u_k that is pre-fired, fired later
  in tape order, or fired-but-paused and unpaused later; the pipeline Deferred
  is fired before or after its callbacks are added.
* inline — an @inlineCallbacks generator awaiting M Deferreds (pre-fired subset,
  rest fired later in tape order), including yields of nested already-finished
  generators/coroutines and, for a periodic subset, yields of plain
  (non-Deferred) values.  The RESULTS of the awaited Deferreds, the return
  values of the nested computations and the plain yielded values follow a
  tape-chosen pattern of value shapes: ints, None, 0, False/True, 0.0, empty
  str/bytes/tuple/list/dict, strings, tuples, plain objects, an exception
  instance handed over as a success value, a class.  A pre-fired Deferred got
  its result from callback()/errback(), succeed()/fail(), from what its last
  callback returned / raised, or by chaining itself to a fired Deferred.
* coro   — the same loop as an ``async def`` run by ensureDeferred (no plain
  values: ``await 3`` is a TypeError).
  In both loops a periodic subset of the waits for not-yet-fired Deferreds may be CANCELLED through the loop's own Deferred
  while the loop is suspended on them; the loop swallows the CancelledError and goes on (the implementation answers each such
  cancel with a fresh result Deferred the old one chains to - a chain that grows with the number of swallowed cancels).

N, M are drawn log-uniformly by size class from 10 up to 10^5 (the top class is
rare so that the quick tier stays inside its budget; the thorough tier simply
sees more of them).  Oracle: a trivial sequential loop predicts every callback
input, every value a ``yield`` / ``await`` evaluates to, and the final result; no RecursionError; and a stack probe — every user
callback / loop body walks ``sys._getframe`` — whose maximum must not exceed the
maximum of the SAME shape run at length 12 by more than a small slack.  For a suspended consumer the same comparison is made
for the number of generator / coroutine objects it delegates through (cr_await / gi_yieldfrom walk): these are frames every
resumption passes through, i.e. stack used by firing the chain, which no user callback runs inside of.
"""
import random
import sys
import zlib

from twisted.internet import defer
from twisted.internet.task import Clock
from twisted.python.failure import Failure

ID = "C02"
ENGINE = "tasks"
LEVEL = "exploration"
TECHNIQUE = ("deterministic simulation: seeded chain shape / firing order / pause pattern on real Deferred chains, callback pipelines, inlineCallbacks "
             "and coroutines (also as consumers on top of a chain; completion by firing or by a forwarded cancel / timeout), with a frame-walking stack "
             "probe and a delegation-depth probe compared against the same shape at length 12")
QUICK_RUNS = 1600
TWIN_P = 0.08   # this share of the runs drives two independent instances of the scenario one after the other (detsim.runner._run_scenario)
BATCH = 12
RUN_WALL_LIMIT_S = 120
COMPONENTS = {"real": ["twisted.internet.defer.Deferred._runCallbacks", "twisted.internet.defer._inlineCallbacks / inlineCallbacks",
                       "twisted.internet.defer.ensureDeferred / Deferred.__await__", "twisted.python.failure.Failure"],
              "stub": ["firing order / pause pattern of the program (tape)"]}
RULE = ("run = one chain of N Deferreds (d_k's callback returns d_k+1, followed by 1..3 follow-up callbacks per link), one pipeline (ONE Deferred with N "
        "callbacks) or one inlineCallbacks/async loop over M awaits, N,M in 10..10^5 "
        "(size classes 10-200 / 200-2000 / 2000-20000 / 20000-100000 with weights 60/30/9/1), firing order, pre-fired subset, paused subset, "
        "success/failure patterns chosen by the tape; a tape-chosen periodic subset of chain follow-ups / pipeline steps returns an ALREADY-FIRED Deferred "
        "(success or failure; succeed()/fail(), hand-fired, or fired-by-chaining) instead of a plain value, and a periodic subset of pipeline steps returns "
        "its own Deferred that is pre-fired, fired later or fired-but-paused; in the inlineCallbacks/async loops the results of the awaited Deferreds, the "
        "return values of nested finished generators/coroutines and (generator only) a periodic subset of plain non-Deferred yields take a tape-chosen "
        "pattern of value shapes (int only / None only / int+None / falsy scalars and empty containers / objects, strings, tuples, exception instance "
        "as a value, class / all 16 shapes), and a pre-fired Deferred obtained its result via callback()/errback(), succeed()/fail(), its last "
        "callback's return value or raise, or chaining to a fired Deferred; chains and pipelines get, in 2/3 of the runs, a consumer on top of their "
        "head (coroutine await / generator yield from / inlineCallbacks yield / inlineCallbacks yield from) that starts waiting at one of 9 "
        "points of the firing schedule; a chain is completed by firing its tail (8), by cancel() (3) or by an addTimeout on a clock (1), the "
        "request entering near the tail (7) or at the head (3, it then travels the whole chain), tail with or without a canceller; the loops "
        "cancel-and-swallow a periodic subset of their pending waits (weight 2x2 against 9, at most the first 2500 items; the weights are the "
        "module constants CANCEL_COMPLETION_W, TIMEOUT_COMPLETION_W, CANCEL_FROM_HEAD_W, LOOP_CANCEL_W, LOOP_CANCEL_CAP); non-trivial = length >= 100 "
        "(a recursive implementation would already exceed "
        "the stack bound)")
ASSUMPTIONS = ["CPython default recursion limit (1000) is left untouched", "operations are issued from outside callbacks",
               "the top size class (2*10^4..10^5) is drawn in about 1% of runs in either tier",
               "'chain' is read as: every implicit chaining step (a callback returning a Deferred, fired or not) of a program whose number of such "
               "steps is N - links of a chain, steps of a pipeline on one Deferred, or both mixed; each follow-up / step outcome equals the plain-value "
               "outcome whether or not it is wrapped in an already-fired Deferred (documented Deferred chaining semantics)",
               "'already-fired Deferreds' is read without restriction on their results: any Python object that is not a Deferred / Failure is an "
               "ordinary success result (None, falsy values, empty containers, an exception instance passed to callback(), a class); a generator "
               "yielding a non-Deferred, non-coroutine value gets that very value back (inlineCallbacks documentation) and such yields count as steps "
               "of the loop; the loop body must see a value of the same type and content (identity is not demanded)",
               "'completes' is read without restriction on WHO observes the completion and HOW the outstanding tail gets its result: a coroutine / "
               "generator waiting for the head is a user of the chain like a callback is, and Deferred.cancel() (documented: 'if this Deferred is "
               "waiting on another Deferred, forward the cancellation to the other Deferred') / addTimeout are public ways to complete a pending chain, "
               "the tail being fired from inside the cancel() call - so the frames cancel() itself stacks up are stack used by firing the chain.  Runs "
               "in which a cancellation request has to travel a distance that grows with the length carry their own witnesses "
               "('chain/cancel-whole-chain', '<loop>/cancelled-waits'); the constants CANCEL_FROM_HEAD_W / LOOP_CANCEL_W set to 0 remove exactly them",
               "a consumer's own Deferred is compared with the model's final result of the head; what the head is left with afterwards is not judged",
               "a swallowed cancel resumes the loop a fixed number of frames deeper than a firing does (CANCEL_PATH_FRAMES allowance when only "
               "the long run contains one)"]

SLACK = 6
BASELINE_LEN = 12
MOD = 1000003
AWAIT_SAMPLES = 48          # how often per run the suspended consumer's delegation depth is measured
# Knobs of the completion-by-cancellation families (module-level constants; a weight of 0 switches the sub-family off).
CANCEL_COMPLETION_W = 3     # chain: weight of "the pending chain is completed by cancel()" against 8 for "its tail is fired"
TIMEOUT_COMPLETION_W = 1    # chain: the same through addTimeout() and a clock
CANCEL_FROM_HEAD_W = 3      # of those: weight of "cancel() is called on the head, the request travels the WHOLE chain" against 7 for
                            # "called on a link 1..4 steps from the tail" (a forwarded cancel whose length does not depend on N)
LOOP_CANCEL_W = 2           # loops: weight of "waits on unfired Deferreds are cancelled through the loop's own Deferred and swallowed" against 9
CANCEL_PATH_FRAMES = 16     # a swallowed cancellation resumes the loop from inside cancel() -> canceller -> errback -> cancel() of the awaited
                            # Deferred: a FIXED number of frames deeper than a firing does.  Where the length-12 baseline happens to contain
                            # no such resumption while the long run does, the bound is widened by this constant.
LOOP_CANCEL_CAP = 2500      # only items below this index are cancelled (every swallowed cancel is re-walked by the next one: quadratic)


class Boom(Exception):
    pass


def depth():
    f = sys._getframe(1)
    n = 0
    while f is not None:
        n += 1
        f = f.f_back
    return n


def absval(res):
    if isinstance(res, Failure):
        v = res.value
        if isinstance(v, Boom):
            return ("F", v.args[0])
        return ("F", type(v).__name__)
    if res is None or type(res) is int:
        return res
    return "<%s>" % type(res).__name__


def order_of(items, how, seed):
    items = list(items)
    if how == "desc":
        items.reverse()
    elif how == "perm":
        random.Random(seed).shuffle(items)   # pure function of a tape value
    return items


# ---------------------------------------------------------------- shared: step outcomes

def is_ready(key, cfg):
    """Does follow-up callback `key` hand its outcome back wrapped in an already-fired Deferred?"""
    rd = cfg.get("ready_mod", 0)
    return bool(rd) and key % rd == 0


def ready_deferred(outcome, cfg, out):
    """An ALREADY-FIRED Deferred carrying `outcome` (a plain value, a Failure or an exception instance)."""
    out["ready"] = out.get("ready", 0) + 1
    kind = cfg.get("ready_kind", "helper")
    failing = isinstance(outcome, (Failure, BaseException))
    if failing:
        out["ready_failed"] = out.get("ready_failed", 0) + 1
    if kind == "manual":
        d = defer.Deferred()
        if failing:
            d.errback(outcome)
        else:
            d.callback(outcome)
        return d
    inner = defer.fail(outcome) if failing else defer.succeed(outcome)
    if kind == "chained":
        # a fired Deferred that obtained its result by chaining itself to a fired Deferred
        return defer.succeed(None).addCallback(lambda _: inner)
    return inner


def step_outcome(res, key, cfg, out):
    """What follow-up callback `key` does with its input (the real-side twin of b_model): returns / raises."""
    rm, rz = cfg["recover_mod"], cfg["raise_mod"]
    if isinstance(res, Failure):
        r = key if (rm and key % rm == 0) else res
    elif rz and key % rz == 0:
        if is_ready(key, cfg):
            return ready_deferred(Boom(key), cfg, out)
        raise Boom(key)
    else:
        r = (res + 1) % MOD
    if is_ready(key, cfg):
        return ready_deferred(r, cfg, out)
    return r


def fire(d, v):
    if isinstance(v, tuple):
        d.errback(Boom(v[1]))
    else:
        d.callback(v)


# ---------------------------------------------------------------- shared: a coroutine / generator consumer on top of a Deferred

CONSUMERS = ("none", "await", "yield-from", "inline-yield", "inline-yield-from")


def await_depth(g, cap=5000):
    """Through how many generator / coroutine objects the suspended consumer `g` delegates (cr_await / gi_yieldfrom walk): every
    level is a frame that each resumption has to pass through, i.e. stack used by firing what the consumer waits for."""
    n = 0
    x = g
    while n < cap:
        x = getattr(x, "cr_await", None) if hasattr(x, "cr_await") else getattr(x, "gi_yieldfrom", None)
        if x is None:
            break
        n += 1
    return n


def attach_consumer(kind, d, out, base):
    """Start a coroutine / generator that waits for `d` the way application code does; returns (outcomes, sample)."""
    got = []
    holder = []
    out["consumer_at"] = "unfired" if not d.called else ("fired-waiting" if d.paused else "finished")

    def note():
        x = depth() - base
        if x > out["maxdepth"]:
            out["maxdepth"] = x
        out["consumer_resumed"] = out.get("consumer_resumed", 0) + 1

    if kind == "await":
        async def consumer():
            try:
                return await d
            finally:
                note()
        g = consumer()
        holder.append(g)
        cd = defer.ensureDeferred(g)
    elif kind == "yield-from":
        def consumer():
            try:
                v = yield from d
            finally:
                note()
            return v
        g = consumer()
        holder.append(g)
        cd = defer.Deferred.fromCoroutine(g)
    else:
        if kind == "inline-yield":
            def consumer():
                try:
                    v = yield d
                finally:
                    note()
                return v
        else:
            def consumer():
                try:
                    v = yield from d
                finally:
                    note()
                return v

        def make():
            g = consumer()
            holder.append(g)
            return g
        cd = defer.inlineCallbacks(make)()
    cd.addBoth(lambda r: got.append(absval(r)))
    samples = [0]

    def sample():
        if got or samples[0] >= AWAIT_SAMPLES:
            return
        samples[0] += 1
        x = await_depth(holder[0])
        if x > out.get("maxawait", 0):
            out["maxawait"] = x
    sample()
    return got, sample


def consumer_result(got):
    return got[0] if len(got) == 1 else "<consumer completed %d times>" % len(got)


# ---------------------------------------------------------------- family: chain

def cancel_target(n, cfg):
    """Index of the link cancel() / the timeout is applied to when the chain is completed by cancellation (else None)."""
    if cfg.get("completion", "fire") == "fire":
        return None
    if cfg["cancel_from"] == "head":
        return 0
    return max(0, n - 1 - cfg["cancel_span"])


def chain_model(n, cfg):
    """Trivial sequential model: value threaded from d_{n-1} back to d_0 through the w follow-up callbacks of each link.  When
    the chain is completed by cancellation the tail's own result is what its canceller gives it (its ordinary own value) or, without a
    canceller, a CancelledError failure; a timed-out link turns a CancelledError that reaches the end of its callbacks into TimeoutError."""
    w = cfg.get("per_link", 1)
    exp_in = [None] * (n * w)
    tk = cancel_target(n, cfg)
    if tk is not None and cfg["tail_canceller"] == "none":
        x = ("F", "CancelledError")
    else:
        x = own_value(n - 1, cfg)
    for k in range(n - 1, -1, -1):
        for key in range(k * w, k * w + w):
            exp_in[key] = x
            x = b_model(key, x, cfg)
        if k == tk and cfg["completion"] == "timeout" and x == ("F", "CancelledError"):
            x = ("F", "TimeoutError")
    return exp_in, x


def own_value(k, cfg):
    fm = cfg["fail_mod"]
    if fm and k % fm == 0:
        return ("F", -k - 1)
    return k


def b_model(k, x, cfg):
    if isinstance(x, tuple):
        rm = cfg["recover_mod"]
        if rm and k % rm == 0:
            return k
        return x
    rz = cfg["raise_mod"]
    if rz and k % rz == 0:
        return ("F", k)
    return (x + 1) % MOD


def run_chain(n, cfg, out):
    """Build and fire one chain; out collects depth / mismatches.  Returns (d_0, expected final)."""
    exp_in, final = chain_model(n, cfg)
    w = cfg.get("per_link", 1)
    seen = bytearray(n * w)
    bad = out["bad"]
    base = depth()

    def nxt(res, k):
        return ds[k + 1]

    def body(res, key):
        x = depth() - base
        if x > out["maxdepth"]:
            out["maxdepth"] = x
        seen[key] += 1
        got = absval(res)
        if got != exp_in[key] and len(bad) < 5:
            bad.append((key, got, exp_in[key]))
        return step_outcome(res, key, cfg, out)

    pm, zm = cfg["prefire_mod"], cfg["pause_mod"]
    prefired = [bool(pm) and k % pm == 0 for k in range(n)]
    paused = [bool(zm) and k % zm == 1 for k in range(n)]
    tk = cancel_target(n, cfg)
    clock = None
    if tk is not None:
        prefired[n - 1] = False             # the tail stays outstanding: the chain is completed by cancelling it through link tk

    def tail_canceller(d):
        out["tail_canceller_ran"] = out.get("tail_canceller_ran", 0) + 1
        fire(d, own_value(n - 1, cfg))

    ds = [None] * n
    for k in range(n - 1, -1, -1):          # built from the far end so that pre-fired heads find a complete tail
        if k == n - 1 and tk is not None and cfg["tail_canceller"] == "own":
            d = ds[k] = defer.Deferred(tail_canceller)
        else:
            d = ds[k] = defer.Deferred()
        if prefired[k]:
            fire(d, own_value(k, cfg))
        if paused[k]:
            d.pause()
        if k < n - 1:
            d.addBoth(nxt, k)
        for key in range(k * w, k * w + w):
            d.addBoth(body, key)
        if k == tk and cfg["completion"] == "timeout":
            clock = Clock()
            d.addTimeout(5.0, clock)        # covers the callbacks added so far, i.e. all of this link's
    ops = [("fire", k) for k in order_of([k for k in range(n) if not prefired[k] and not (tk is not None and k == n - 1)],
                                         cfg["fire_order"], cfg["shuffle_seed"])]
    lm = cfg.get("late_mod", 0)
    if lm:
        # a pass-through callback added to d_{k} AFTER d_{k-1} has (possibly) started waiting on it: it lands behind the
        # continuation entry, sees None and changes no result - but the chain must still be unwound iteratively
        def late(res, k):
            x = depth() - base
            if x > out["maxdepth"]:
                out["maxdepth"] = x
            out["late_ran"] = out.get("late_ran", 0) + 1
            return res
        withlate = []
        for op, k in ops:
            withlate.append((op, k))
            if k + 1 < n and (k + 1) % lm == 0:
                withlate.append(("late", k + 1))
        ops = withlate
    unp = [("unpause", k) for k in order_of([k for k in range(n) if paused[k]], cfg["unpause_order"], cfg["shuffle_seed"] + 1)]
    if cfg["merge"] == "after":
        ops += unp
    else:
        ops += unp
        random.Random(cfg["shuffle_seed"] + 2).shuffle(ops)
    ckind = cfg.get("consumer", "none")
    attach_at = len(ops) * cfg.get("consumer_pos", 0) // 8 if ckind != "none" else -1
    cgot = sample = None
    for i, (op, k) in enumerate(ops):
        if i == attach_at:
            cgot, sample = attach_consumer(ckind, ds[0], out, base)
        if op == "fire":
            fire(ds[k], own_value(k, cfg))
        elif op == "late":
            ds[k].addBoth(late, k)
        else:
            ds[k].unpause()
        if sample is not None:
            sample()
    if tk is not None:
        # every link but the tail is fired and running by now: d_tk waits (through n-1-tk links) for the tail
        out["cancel_travels"] = n - 1 - tk
        if clock is not None:
            clock.advance(6.0)
        else:
            ds[tk].cancel()
        if sample is not None:
            sample()
    if ckind != "none" and cgot is None:
        cgot, sample = attach_consumer(ckind, ds[0], out, base)
    out["calls_wrong"] = [key for key in range(n * w) if seen[key] != 1][:5]
    out["unfinished"] = [k for k in range(n) if not ds[k].called or ds[k].paused or ds[k].callbacks][:5]
    d0 = ds[0]
    if cgot is not None:
        # the consumer was the last to look at d_0's result; d_0 itself is left with None
        res = consumer_result(cgot)
    else:
        res = absval(getattr(d0, "result", "<no-result>"))
    # consume failures so that garbage collection of 10^5 Deferreds stays quiet
    for d in ds:
        r = getattr(d, "result", None)
        if isinstance(r, Failure):
            d.addErrback(lambda f: None)
    return res, final


# ---------------------------------------------------------------- family: pipe

def pipe_waits(n, cfg):
    wm = cfg["wait_mod"]
    return [k for k in range(n) if wm and k % wm == 1]


def pipe_model(n, cfg):
    """Trivial sequential model of ONE Deferred with n callbacks: step k maps its input like a chain follow-up, except a
    'wait' step, whose outcome is the result its own Deferred u_k is fired with."""
    waits = set(pipe_waits(n, cfg))
    exp_in = [None] * n
    x = own_value(n, cfg)
    for k in range(n):
        exp_in[k] = x
        x = own_value(k, cfg) if k in waits else b_model(k, x, cfg)
    return exp_in, x


def run_pipe(n, cfg, out):
    exp_in, final = pipe_model(n, cfg)
    seen = bytearray(n)
    bad = out["bad"]
    base = depth()
    pm, zm = cfg["prefire_mod"], cfg["pause_mod"]
    waits = pipe_waits(n, cfg)
    us, later, paused = {}, [], []
    for i, k in enumerate(waits):
        u = us[k] = defer.Deferred()
        if pm and i % pm == 0:
            fire(u, own_value(k, cfg))
        else:
            later.append(k)
        if zm and i % zm == 1:
            u.pause()
            paused.append(k)

    out["paused_n"] = len(paused)

    def step(res, k):
        x = depth() - base
        if x > out["maxdepth"]:
            out["maxdepth"] = x
        seen[k] += 1
        got = absval(res)
        if got != exp_in[k] and len(bad) < 5:
            bad.append((k, got, exp_in[k]))
        u = us.get(k)
        if u is not None:
            if not u.called or u.paused:
                out["waited"] = out.get("waited", 0) + 1
            else:
                out["wait_ready"] = out.get("wait_ready", 0) + 1
            return u
        return step_outcome(res, k, cfg, out)

    d = defer.Deferred()
    if cfg["build"] == "fired-first":
        fire(d, own_value(n, cfg))
    for k in range(n):
        d.addBoth(step, k)
    if cfg["build"] != "fired-first":
        fire(d, own_value(n, cfg))
    ops = [("fire", k) for k in order_of(later, cfg["fire_order"], cfg["shuffle_seed"])]
    unp = [("unpause", k) for k in order_of(paused, cfg["unpause_order"], cfg["shuffle_seed"] + 1)]
    ops += unp
    if cfg["merge"] != "after":
        random.Random(cfg["shuffle_seed"] + 2).shuffle(ops)
    ckind = cfg.get("consumer", "none")
    attach_at = len(ops) * cfg.get("consumer_pos", 0) // 8 if ckind != "none" else -1
    cgot = sample = None
    for i, (op, k) in enumerate(ops):
        if i == attach_at:
            cgot, sample = attach_consumer(ckind, d, out, base)
        if op == "fire":
            fire(us[k], own_value(k, cfg))
        else:
            us[k].unpause()
        if sample is not None:
            sample()
    if ckind != "none" and cgot is None:
        cgot, sample = attach_consumer(ckind, d, out, base)
    out["calls_wrong"] = [k for k in range(n) if seen[k] != 1][:5]
    out["unfinished"] = [k for k in waits if not us[k].called or us[k].paused or us[k].callbacks][:5]
    if not d.called or d.paused or d.callbacks:
        out["unfinished"].append("pipeline")
    if cgot is not None:
        res = consumer_result(cgot)
    else:
        res = absval(getattr(d, "result", "<no-result>"))
    if isinstance(getattr(d, "result", None), Failure):
        d.addErrback(lambda f: None)
    return res, final


# ---------------------------------------------------------------- families: inline / coro

class Box:
    """A plain application object used as a Deferred result / yielded value."""

    def __init__(self, k):
        self.k = k


# The shapes a (success) result may take.  The statement quantifies over "already-fired Deferreds" without restricting their
# results, so the loops are fed every ordinary kind of Python value, in particular the ones that compare / test like "nothing".
VALUE_KINDS = ("int", "none", "zero", "false", "true", "float-zero", "empty-str", "empty-bytes", "empty-tuple", "empty-list", "empty-dict",
               "str", "tuple", "object", "exc-instance", "class")
VALUE_PATTERNS = [("int",),                                   # simplest first: what the loops awaited before values were varied
                  ("none",),
                  ("int", "none"),
                  ("zero", "false", "empty-str", "empty-tuple", "empty-list", "empty-dict", "float-zero", "empty-bytes"),
                  ("object", "str", "tuple", "exc-instance", "class", "true"),
                  VALUE_KINDS]


def kind_of(k, cfg):
    pat = VALUE_PATTERNS[cfg.get("value_pattern", 0)]
    return pat[(k + k // 7) % len(pat)]      # the k // 7 drift keeps the kinds from locking step with prefire_mod / nest_mod / plain_mod


def make_value(k, kind):
    """The real value of shape `kind` that carries the number k (where the shape can carry anything)."""
    if kind == "int":
        return k
    if kind == "none":
        return None
    if kind == "zero":
        return 0
    if kind == "false":
        return False
    if kind == "true":
        return True
    if kind == "float-zero":
        return 0.0
    if kind == "empty-str":
        return ""
    if kind == "empty-bytes":
        return b""
    if kind == "empty-tuple":
        return ()
    if kind == "empty-list":
        return []
    if kind == "empty-dict":
        return {}
    if kind == "str":
        return "s%d" % k
    if kind == "tuple":
        return (k, None)
    if kind == "object":
        return Box(k)
    if kind == "exc-instance":
        return Boom(k)          # an exception INSTANCE handed over as a success value (never raised, never wrapped in a Failure)
    if kind == "class":
        return Box
    raise AssertionError(kind)


def value_abs(v):
    """Abstract, hashable description of a value the loop body received (type name + content)."""
    t = type(v)
    if v is None or t in (int, bool, float, str, bytes):
        return (t.__name__, v)
    if t is tuple:
        return ("tuple",) + tuple(value_abs(x) for x in v)
    if t in (list, dict):
        return (t.__name__, len(v))
    if t is Box:
        return ("Box", v.k)
    if t is Boom:
        return ("Boom-instance", v.args)
    if t is type:
        return ("class", v.__name__)
    if isinstance(v, Failure):
        return ("Failure", type(v.value).__name__)
    return ("<%s>" % t.__name__,)


# model side: what value_abs() must report for the value of shape `kind` carrying k - written out, not computed from make_value
EXPECTED_ABS = {
    "int": lambda k: ("int", k), "none": lambda k: ("NoneType", None), "zero": lambda k: ("int", 0), "false": lambda k: ("bool", False),
    "true": lambda k: ("bool", True), "float-zero": lambda k: ("float", 0.0), "empty-str": lambda k: ("str", ""),
    "empty-bytes": lambda k: ("bytes", b""), "empty-tuple": lambda k: ("tuple",), "empty-list": lambda k: ("list", 0),
    "empty-dict": lambda k: ("dict", 0), "str": lambda k: ("str", "s%d" % k), "tuple": lambda k: ("tuple", ("int", k), ("NoneType", None)),
    "object": lambda k: ("Box", k), "exc-instance": lambda k: ("Boom-instance", (k,)), "class": lambda k: ("class", "Box"),
}


def weight(a):
    """Fold an abstract value into the accumulator (pure function of its canonical text)."""
    return zlib.crc32(repr(a).encode("ascii")) % MOD


def loop_items(m, cfg):
    """What the loop awaits at step k: ('nest', k, kind) | ('plain', k, kind) | ('d', k, prefired, failing, kind)."""
    pm, fm, nm, plm = cfg["prefire_mod"], cfg["fail_mod"], cfg["nest_mod"], cfg.get("plain_mod", 0)
    plain_ok = cfg["family"] == "inline"      # only a generator can be handed a non-awaitable back; `await 3` is a TypeError
    items = []
    for k in range(m):
        kind = kind_of(k, cfg)
        if nm and k % nm == 2:
            items.append(("nest", k, kind))
        elif plain_ok and plm and k % plm == plm - 1:
            items.append(("plain", k, kind))
        else:
            items.append(("d", k, bool(pm) and k % pm == 0, bool(fm) and k % fm == 0, kind))
    return items


def cancel_designated(it, cfg):
    """Is the wait for item `it` one that gets cancelled (if the loop is found waiting for it)?"""
    cm = cfg.get("cancel_mod", 0)
    return bool(cm) and it[0] == "d" and not it[2] and it[1] % cm == 1 and it[1] < LOOP_CANCEL_CAP


def loop_cancel_plan(items, order, cfg):
    """Model of the driver: before each of its firing steps it looks at the item the loop is waiting for (the first one that is
    neither ready nor cancelled yet); if that wait is designated, the loop's own Deferred is cancelled - the awaited Deferred has no
    canceller, so the wait ends with CancelledError, which the loop swallows - and the item is never fired."""
    m = len(items)
    done = bytearray(m)
    for it in items:
        if it[0] != "d" or it[2]:
            done[it[1]] = 1
    cancelled = set()
    p = 0
    while p < m and done[p]:
        p += 1
    for it in order:
        if p < m and cancel_designated(items[p], cfg):
            cancelled.add(p)
            done[p] = 1
            while p < m and done[p]:
                p += 1
        if it[1] not in cancelled:
            done[it[1]] = 1
            while p < m and done[p]:
                p += 1
    return cancelled


def loop_model(items, cfg, cancelled=()):
    """Trivial sequential model: (what every `yield` / `await` evaluates to or raises, final result)."""
    acc = 0
    exp = []
    for it in items:
        if it[1] in cancelled:
            exp.append(("C",))
            acc = (acc * 5 + 1) % MOD
            continue
        if it[0] == "nest":
            e = EXPECTED_ABS[it[2]](2 * it[1])
        elif it[0] == "plain":
            e = EXPECTED_ABS[it[2]](it[1])
        elif it[3]:
            e = ("F", it[1])
        else:
            e = EXPECTED_ABS[it[4]](it[1])
        exp.append(e)
        if e[0] == "F":
            acc = (acc * 3 + e[1]) % MOD
        else:
            acc = (acc + weight(e)) % MOD
    return exp, (("F", acc) if cfg["end_raises"] else acc)


def run_loop(family, m, cfg, out):
    items = loop_items(m, cfg)
    later = order_of([it for it in items if it[0] == "d" and not it[2]], cfg["fire_order"], cfg["shuffle_seed"])
    plan = loop_cancel_plan(items, later, cfg) if cfg.get("cancel_mod", 0) else set()
    exp, final = loop_model(items, cfg, plan)
    bad = out["bad"]
    base = depth()
    steps = [0]
    how = cfg.get("result_from", "callback")

    def probe():
        x = depth() - base
        if x > out["maxdepth"]:
            out["maxdepth"] = x
        steps[0] += 1

    def got_value(k, v):
        a = value_abs(v)
        if a != exp[k] and len(bad) < 5:
            bad.append((k, a, exp[k]))
        return weight(a)

    def got_boom(k, e):
        a = ("F", e.args[0])
        if a != exp[k] and len(bad) < 5:
            bad.append((k, a, exp[k]))
        return e.args[0]

    def got_cancelled(k):
        if ("C",) != exp[k] and len(bad) < 5:
            bad.append((k, ("C",), exp[k]))

    cur = [None]        # the item the loop went to wait for last

    def outcome_of(it):
        # -> the success value, or the exception the Deferred fails with
        return Boom(it[1]) if it[3] else make_value(it[1], it[4])

    def raiser(_, exc):
        raise exc

    def new_deferred(it):
        """Deferred for item `it`; with result_from == 'returned' its result will be what its last callback returns / raises."""
        d = defer.Deferred()
        if how == "returned":
            if it[3]:
                d.addCallback(raiser, outcome_of(it))
            else:
                d.addCallback(lambda _, v=outcome_of(it): v)
        return d

    def firenow(d, it):
        if how == "returned":
            d.callback(it[1])
        elif it[3]:
            d.errback(Boom(it[1]))
        else:
            d.callback(make_value(it[1], it[4]))

    def note_prefired(it):
        out["prefired"] = out.get("prefired", 0) + 1
        if it[3]:
            return
        kind = it[4]
        if kind == "none":
            out["pf_none"] = out.get("pf_none", 0) + 1
        elif kind in ("zero", "false", "float-zero") or kind.startswith("empty-"):
            out["pf_falsy"] = out.get("pf_falsy", 0) + 1
        elif kind != "int":
            out["pf_object"] = out.get("pf_object", 0) + 1

    ds = {}
    for it in items:
        if it[0] == "d":
            if it[2]:
                note_prefired(it)
                if how == "helper":
                    d = defer.fail(Boom(it[1])) if it[3] else defer.succeed(make_value(it[1], it[4]))
                elif how == "chained":
                    # a fired Deferred that obtained its result by chaining itself to a fired Deferred
                    inner = defer.fail(Boom(it[1])) if it[3] else defer.succeed(make_value(it[1], it[4]))
                    d = defer.succeed(None).addCallback(lambda _, inner=inner: inner)
                else:
                    d = new_deferred(it)
                    firenow(d, it)
                ds[it[1]] = d
            else:
                ds[it[1]] = new_deferred(it)

    @defer.inlineCallbacks
    def sub_gen(k, kind):
        v = yield defer.succeed(k)
        probe()
        return make_value(2 * v, kind)

    async def sub_coro(k, kind):
        v = await defer.succeed(k)
        probe()
        return make_value(2 * v, kind)

    nest_kind = cfg["nest_kind"]

    def nested(it):
        # an already-finished nested computation, in the forms the loop may yield/await
        if it[2] != "int":
            out["nest_shaped"] = out.get("nest_shaped", 0) + 1
        if nest_kind == "gen":
            return sub_gen(it[1], it[2])                       # fired Deferred from a nested inlineCallbacks
        if nest_kind == "coro-deferred":
            return defer.ensureDeferred(sub_coro(it[1], it[2]))  # fired Deferred from a nested coroutine
        return sub_coro(it[1], it[2])                          # bare coroutine object

    def plain(it):
        out["plain"] = out.get("plain", 0) + 1
        return make_value(it[1], it[2])

    if family == "inline":
        @defer.inlineCallbacks
        def main():
            acc = 0
            for it in items:
                try:
                    if it[0] == "nest":
                        v = yield nested(it)
                    elif it[0] == "plain":
                        v = yield plain(it)        # not a Deferred: the generator gets the very value back
                    else:
                        cur[0] = it[1]
                        v = yield ds[it[1]]
                except Boom as e:
                    acc = (acc * 3 + got_boom(it[1], e)) % MOD
                except defer.CancelledError:
                    got_cancelled(it[1])
                    acc = (acc * 5 + 1) % MOD
                else:
                    acc = (acc + got_value(it[1], v)) % MOD
                probe()
            if cfg["end_raises"]:
                raise Boom(acc)
            return acc
        result = main()
    else:
        async def amain():
            acc = 0
            for it in items:
                try:
                    if it[0] == "nest":
                        v = await nested(it)
                    else:
                        cur[0] = it[1]
                        v = await ds[it[1]]
                except Boom as e:
                    acc = (acc * 3 + got_boom(it[1], e)) % MOD
                except defer.CancelledError:
                    got_cancelled(it[1])
                    acc = (acc * 5 + 1) % MOD
                else:
                    acc = (acc + got_value(it[1], v)) % MOD
                probe()
            if cfg["end_raises"]:
                raise Boom(acc)
            return acc
        result = defer.ensureDeferred(amain())

    fired = []

    def done(res):
        probe()
        fired.append(absval(res))
        return None

    result.addBoth(done)
    early = None
    cancelled = set()
    for it in later:
        c = cur[0]
        if not fired and c is not None and c not in cancelled and cancel_designated(items[c], cfg) and not ds[c].called:
            # the loop is suspended on ds[c]: give up that wait through the loop's own Deferred; the loop swallows it and goes on
            cancelled.add(c)
            result.cancel()
        if it[1] not in cancelled:
            if fired and early is None:
                early = it[1]
            firenow(ds[it[1]], it)
    out["early"] = early
    out["cancelled"] = len(cancelled)
    if cancelled != plan:
        out["bad"].append(("cancel-plan", sorted(cancelled)[:3], sorted(plan)[:3]))
    out["fired"] = fired
    out["steps"] = steps[0]
    return (fired[0] if fired else "<unfired>"), final


# ---------------------------------------------------------------- scenario

def run(sim):
    family = sim.draw_weighted([("chain", 6), ("inline", 2), ("coro", 2), ("pipe", 3)], "family")
    cls = sim.draw_weighted([(0, 60), (1, 30), (2, 9), (3, 1)], "size_class")
    lo, hi = [(10, 200), (200, 2000), (2000, 20000), (20000, 100000)][cls]
    n = sim.draw_int(lo, hi, "length")
    cfg = {"family": family, "length": n,
           "fire_order": sim.draw_choice(["asc", "desc", "perm"], "fire_order"),
           "prefire_mod": sim.draw_choice([0, 1, 2, 5], "prefire_mod"),
           "fail_mod": sim.draw_choice([0, 4, 1, 3], "fail_mod"),
           "shuffle_seed": sim.draw_int(0, 2 ** 30, "shuffle_seed")}
    if family == "chain":
        cfg.update(pause_mod=sim.draw_choice([0, 3, 2], "pause_mod"),
                   unpause_order=sim.draw_choice(["asc", "desc", "perm"], "unpause_order"),
                   merge=sim.draw_choice(["after", "shuffled"], "merge"),
                   raise_mod=sim.draw_choice([0, 7, 2], "raise_mod"),
                   recover_mod=sim.draw_choice([3, 1, 0], "recover_mod"),
                   late_mod=sim.draw_choice([0, 1, 3], "late_mod"),
                   per_link=sim.draw_choice([1, 2, 3], "per_link"),
                   ready_mod=sim.draw_choice([0, 1, 2, 5], "ready_mod"),
                   ready_kind=sim.draw_choice(["helper", "manual", "chained"], "ready_kind"),
                   consumer=sim.draw_weighted([(c, 4 if c == "none" else 2) for c in CONSUMERS], "consumer"),
                   consumer_pos=sim.draw_int(0, 8, "consumer_pos"),
                   completion=sim.draw_weighted([("fire", 8), ("cancel", CANCEL_COMPLETION_W), ("timeout", TIMEOUT_COMPLETION_W)], "completion"),
                   cancel_from=sim.draw_weighted([("near-tail", 7), ("head", CANCEL_FROM_HEAD_W)], "cancel_from"),
                   cancel_span=sim.draw_int(1, 4, "cancel_span"),
                   tail_canceller=sim.draw_choice(["none", "own"], "tail_canceller"))
    elif family == "pipe":
        cfg.update(pause_mod=sim.draw_choice([0, 3, 2], "pause_mod"),
                   unpause_order=sim.draw_choice(["asc", "desc", "perm"], "unpause_order"),
                   merge=sim.draw_choice(["after", "shuffled"], "merge"),
                   raise_mod=sim.draw_choice([0, 7, 2], "raise_mod"),
                   recover_mod=sim.draw_choice([3, 1, 0], "recover_mod"),
                   build=sim.draw_choice(["then-fire", "fired-first"], "build"),
                   wait_mod=sim.draw_choice([0, 5, 2, 50], "wait_mod"),
                   ready_mod=sim.draw_choice([0, 1, 2, 5], "ready_mod"),
                   ready_kind=sim.draw_choice(["helper", "manual", "chained"], "ready_kind"),
                   consumer=sim.draw_weighted([(c, 4 if c == "none" else 2) for c in CONSUMERS], "consumer"),
                   consumer_pos=sim.draw_int(0, 8, "consumer_pos"))
    else:
        cfg.update(nest_mod=sim.draw_choice([0, 4, 9], "nest_mod"),
                   nest_kind=sim.draw_choice(["gen", "coro-deferred", "coro"], "nest_kind"),
                   end_raises=sim.draw_bool(0.3, "end_raises"),
                   value_pattern=sim.draw_weighted([(0, 3), (1, 2), (2, 2), (3, 2), (4, 2), (5, 3)], "value_pattern"),
                   plain_mod=sim.draw_choice([0, 3, 1, 6], "plain_mod"),
                   result_from=sim.draw_choice(["callback", "helper", "returned", "chained"], "result_from"),
                   cancel_mod=sim.draw_weighted([(0, 9), (2, LOOP_CANCEL_W), (5, LOOP_CANCEL_W)], "cancel_mod"))
    sim.config = cfg
    sim.event("config", sorted(cfg.items()))
    sim.check("recursion-limit-default", sys.getrecursionlimit() == 1000, "env", "recursion limit is %d" % sys.getrecursionlimit())

    # Runs whose completion depends on a cancellation request travelling a distance that grows with the length carry their own
    # witness, so that what they find is never mixed up with the firing paths.
    wit = family
    if family == "chain" and cfg["completion"] != "fire" and cfg["cancel_from"] == "head":
        wit = "chain/cancel-whole-chain"
    elif family in ("inline", "coro") and cfg["cancel_mod"]:
        wit = family + "/cancelled-waits"

    def one(length):
        out = {"maxdepth": 0, "bad": []}
        with sim.guard("raised", wit):
            if family == "chain":
                got, want = run_chain(length, cfg, out)
            elif family == "pipe":
                got, want = run_pipe(length, cfg, out)
            else:
                got, want = run_loop(family, length, cfg, out)
        return out, got, want

    base_out, bgot, bwant = one(min(n, BASELINE_LEN))
    out, got, want = one(n)
    sim.event("result", family, n, got, "maxdepth", out["maxdepth"], "baseline", base_out["maxdepth"])
    sim.step(10)
    shape = "%s/%s" % (family, cfg["fire_order"])
    # 1. stack usage does not grow with the length
    slack = SLACK + (CANCEL_PATH_FRAMES if out.get("cancelled") and not base_out.get("cancelled") else 0)
    grows = out["maxdepth"] > base_out["maxdepth"] + slack
    if grows:
        # Two short lengths can differ by a FIXED number of frames when the drawn shape has a combination of features (a nested
        # consumer cancelled from inside a swallowed cancel, say) that first occurs at an index beyond the length-12 baseline:
        # that is not growth with the length.  Growth is decided at a third, longer run of the same shape: a path that recurses
        # per element adds at least 2n frames between n and 3n, a fixed offset adds none.  (one() draws nothing from the tape.)
        out3, _got3, _want3 = one(3 * n)
        sim.event("confirm", family, 3 * n, "maxdepth", out3["maxdepth"])
        sim.probe("depth_difference_rechecked_at_triple_length")
        grows = out3["maxdepth"] > out["maxdepth"] + SLACK
        if not grows:
            sim.probe("depth_difference_bounded_not_growth")
    sim.check("stack-grows-with-length", not grows, wit,
              "max relative frame depth %d at length %d vs %d at length %d (shape %s, cfg %r)"
              % (out["maxdepth"], n, base_out["maxdepth"], min(n, BASELINE_LEN), shape, cfg))
    # 1b. nor does what a suspended coroutine / generator consumer keeps stacked between itself and the Deferred it waits for
    sim.check("delegation-grows-with-length", out.get("maxawait", 0) <= base_out.get("maxawait", 0) + SLACK, wit,
              "the suspended consumer delegates through %d generator frames at length %d vs %d at length %d (shape %s, cfg %r)"
              % (out.get("maxawait", 0), n, base_out.get("maxawait", 0), min(n, BASELINE_LEN), shape, cfg))
    # 2. no RecursionError anywhere
    rec = [b for b in out["bad"] if b[1] == ("F", "RecursionError")] or (got == ("F", "RecursionError"))
    sim.check("recursion-error", not rec, wit, "RecursionError surfaced: %r final %r (length %d, cfg %r)" % (out["bad"][:2], got, n, cfg))
    # 3. the computation is the one the trivial model predicts
    sim.check("callback-inputs", not out["bad"], wit, "(k, got, expected): %r (length %d, cfg %r)" % (out["bad"], n, cfg))
    if family in ("chain", "pipe"):
        sim.check("each-callback-once", not out["calls_wrong"], wit, "callbacks not run exactly once at k=%r (length %d, cfg %r)" % (out["calls_wrong"], n, cfg))
        sim.check("chain-completes", not out["unfinished"], wit, "Deferreds left unfired/paused/with callbacks at k=%r (length %d)" % (out["unfinished"], n))
    else:
        sim.check("completes-once", len(out["fired"]) == 1, wit, "result Deferred fired %d times (length %d, cfg %r)" % (len(out["fired"]), n, cfg))
        sim.check("not-before-last-await", out["early"] is None, wit, "completed before Deferred %r was fired" % (out["early"],))
    sim.check("final-result", got == want, wit, "got %r expected %r (length %d, cfg %r)" % (got, want, n, cfg))
    sim.check("baseline-result", bgot == bwant and not base_out["bad"], wit, "length-%d baseline got %r expected %r" % (min(n, BASELINE_LEN), bgot, bwant))
    sim.probe("family_" + family)
    sim.probe("size_class_%d" % cls)
    if cfg["prefire_mod"] == 1:
        sim.probe("all_prefired")
    if (family == "chain" and cfg["pause_mod"]) or out.get("paused_n"):
        sim.fault("paused_subset")
    if out.get("ready"):
        sim.probe("fired_deferred_returned")
    if out.get("ready_failed"):
        sim.probe("failed_deferred_returned")
    if out.get("ready") and cfg.get("ready_kind") == "chained":
        sim.probe("fired_deferred_result_from_chaining")
    if family == "chain" and cfg["per_link"] > 1:
        sim.probe("several_followups_per_link")
    if out.get("waited"):
        sim.probe("pipe_step_waits_unfired")
    if out.get("wait_ready"):
        sim.probe("pipe_step_own_deferred_fired")
    if family == "pipe" and cfg["build"] == "fired-first":
        sim.probe("pipe_fired_before_built")
    if cfg["fail_mod"]:
        sim.fault("failure_results")
    if out.get("consumer_at"):
        sim.probe("consumer_%s_on_%s_head" % (cfg["consumer"], out["consumer_at"]))
        if out["consumer_at"] == "fired-waiting" and out.get("consumer_resumed"):
            sim.probe("consumer_resumed_after_pending_chain")
    if out.get("cancel_travels") is not None:
        sim.fault("chain_completed_by_%s" % cfg["completion"])
        sim.probe("cancel_from_" + cfg["cancel_from"])
        if out.get("tail_canceller_ran"):
            sim.probe("tail_canceller_fired_the_tail")
    if out.get("cancelled"):
        sim.fault("loop_wait_cancelled_and_swallowed")
    if out.get("pf_none"):
        sim.probe("loop_prefired_result_none")
    if out.get("pf_falsy"):
        sim.probe("loop_prefired_result_falsy")
    if out.get("pf_object"):
        sim.probe("loop_prefired_result_object")
    if out.get("plain"):
        sim.probe("loop_plain_value_yield")
    if out.get("plain") and out["plain"] == n:
        sim.probe("loop_only_plain_value_yields")
    if out.get("nest_shaped"):
        sim.probe("loop_nested_returns_non_int")
    if out.get("prefired") and cfg.get("result_from") == "returned":
        sim.probe("loop_prefired_result_from_last_callback")
    if out.get("prefired") and cfg.get("result_from") == "chained":
        sim.probe("loop_prefired_result_from_chaining")
    sim.state((family, cls, cfg["fire_order"], cfg["prefire_mod"], cfg["fail_mod"], cfg.get("pause_mod"), cfg.get("nest_mod"), cfg.get("merge"),
               cfg.get("ready_mod"), cfg.get("per_link"), cfg.get("wait_mod"), cfg.get("build"), cfg.get("value_pattern"), cfg.get("plain_mod"),
               cfg.get("result_from"), cfg.get("consumer"), cfg.get("completion"), cfg.get("cancel_from"), cfg.get("cancel_mod")))
    sim.nontrivial = n >= 100


# Sensitivity (tools/mutate.py C02, src/twisted/internet/defer.py)
MUTANTS = [
    "_CONTINUE hand-over replaced by recursion (`chain.append(chainee)` -> `chainee._runCallbacks(); continue`): CAUGHT (stack-grows-with-length:chain, raised:chain:RecursionError)",
    "recursion reintroduced only for failure results (`if isinstance(chainee.result, Failure): chainee._runCallbacks(); continue`): CAUGHT (stack-grows-with-length:chain, raised:chain:RecursionError)",
    "in-place take-over of an already-fired returned Deferred replaced by pause + continuation + nested `currentResult._runCallbacks()` "
    "(seeded C02-r3-no-steal-nested-run): CAUGHT (stack-grows-with-length:chain, stack-grows-with-length:pipe)",
    "the same nested run only when the taken-over result is a Failure (`if isinstance(resultResult, Failure): currentResult.result = resultResult; "
    "current.pause(); currentResult.callbacks.append(current._continuation()); currentResult._runCallbacks(); break`): CAUGHT "
    "(stack-grows-with-length:chain, stack-grows-with-length:pipe)",
    "loop unfolding skipped when the yielded fired Deferred's result is None (`if getattr(result, 'result', None) is None: waiting[0] = False; "
    "status.waitingOn = result; result.addBoth(_gotResultInlineCallbacks, ...); return` taken for 'not fired yet'; seeded "
    "C02-r4b-inline-none-result-fastpath): was MISSED while every awaited result was an int or a failure; CAUGHT (stack-grows-with-length:inline) "
    "since result values are varied",
    "result parked for the loop only when truthy (`if waiting[0]:` -> `if waiting[0] and r:` in _gotResultInlineCallbacks, so None / 0 / False / empty "
    "results recurse): CAUGHT (stack-grows-with-length:inline)",
    "the same for falsy results other than None (`if waiting[0] and (r or r is None):`): CAUGHT (stack-grows-with-length:inline)",
    "plain (non-Deferred) yields handled by a tail call (`if not isDeferred: return _inlineCallbacks(result, gen, status, context)` before "
    "`if isDeferred:`): CAUGHT (stack-grows-with-length:inline)",
    "_inlineCallbacks loop unfolding removed (`if waiting[0]:` -> `if False:` in _gotResultInlineCallbacks, so every ready yield recurses): CAUGHT (stack-grows-with-length:inline)",
    "Deferred.__iter__/__await__ of a fired Deferred that waits for another one delegates to it (`yield from self._chainedTo` instead of `yield self`; seeded "
    "C02-r6a-await-delegates-to-chained-deferred), so a coroutine awaiting the head of a pending chain stacks one generator frame per link: was MISSED "
    "while nothing but callbacks ever consumed a chain; CAUGHT (delegation-grows-with-length:chain, recursion-error:chain) since chains and pipelines "
    "get coroutine / generator consumers that start waiting in the middle of the firing schedule",
    "Deferred.cancel() forwarding a cancellation along a pending chain by recursion (`self.result.cancel()`), which is what the tree had when the "
    "cancellation families were added: genuine defect of the tree as first examined, REPAIRED in /repo 90524fc (raised:chain/cancel-whole-chain:RecursionError, "
    "stack-grows-with-length:chain/cancel-whole-chain, stack-grows-with-length:inline/cancelled-waits, ...:coro/cancelled-waits; witness: a chain of "
    "n=1200 links d[i] -> d[i+1], d[0].cancel(): RecursionError reaches the caller and the chain is left pending); repair: the forwarding is "
    "written as a loop, the same families (CANCEL_COMPLETION_W = 3, CANCEL_FROM_HEAD_W = 3, LOOP_CANCEL_W = 2; 0 only for dev-time comparison) run clean",
]
