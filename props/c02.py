"""C02 — Deferred chaining depth never exhausts the stack.

Engine E1 (tasks).  Four families, all on real Deferreds / inlineCallbacks /
coroutines with the default recursion limit:

* chain  — N Deferreds, d_k's first callback returns d_{k+1}; each d_k is
  pre-fired before the chain is built, or fired later in ascending, descending
  or a shuffled order; a subset is paused and unpaused later; own results and
  the 1..3 follow-up callbacks of each d_k produce successes, failures, raises
  and recoveries in tape-chosen periodic patterns - as plain return values /
  raises or, for a tape-chosen periodic subset, wrapped in an ALREADY-FIRED
  Deferred (succeed()/fail(), a hand-fired Deferred, or a fired Deferred that
  got its result by chaining itself), i.e. one more implicit chaining step per
  follow-up callback.
* pipe   — ONE Deferred with N callbacks (the callback-style twin of the loops
  below): every step returns a plain value / raises, an already-fired Deferred
  (success or failure), or its own Deferred u_k that is pre-fired, fired later
  in tape order, or fired-but-paused and unpaused later; the pipeline Deferred
  is fired before or after its callbacks are added.
* inline — an @inlineCallbacks generator awaiting M Deferreds (pre-fired subset,
  rest fired later in tape order), including yields of nested already-finished
  generators/coroutines and, for a periodic subset, yields of plain
  (non-Deferred) values.  The RESULTS of the awaited Deferreds, the return
  values of the nested computations and the plain yielded values follow a
  tape-chosen pattern of value shapes: ints, None, 0, False/True, 0.0, empty
  str/bytes/tuple/list/dict, strings, tuples, plain objects, an exception
  instance handed over as a success value, a class.  A pre-fired Deferred got
  its result from callback()/errback(), succeed()/fail(), from what its last
  callback returned / raised, or by chaining itself to a fired Deferred.
* coro   — the same loop as an ``async def`` run by ensureDeferred (no plain
  values: ``await 3`` is a TypeError).

N, M are drawn log-uniformly by size class from 10 up to 10^5 (the top class is
rare so that the quick tier stays inside its budget; the thorough tier simply
sees more of them).  Oracle: a trivial sequential loop predicts every callback
input, every value a ``yield`` / ``await`` evaluates to, and the final result; no RecursionError; and a stack probe — every user
callback / loop body walks ``sys._getframe`` — whose maximum must not exceed the
maximum of the SAME shape run at length 12 by more than a small slack.
"""
import random
import sys
import zlib

from twisted.internet import defer
from twisted.python.failure import Failure

ID = "C02"
ENGINE = "tasks"
LEVEL = "exploration"
TECHNIQUE = ("deterministic simulation: seeded chain shape / firing order / pause pattern on real Deferred chains, callback pipelines, inlineCallbacks "
             "and coroutines, with a frame-walking stack probe compared against the same shape at length 12")
QUICK_RUNS = 1600
TWIN_P = 0.08   # this share of the runs drives two independent instances of the scenario one after the other (detsim.runner._run_scenario)
BATCH = 12
RUN_WALL_LIMIT_S = 120
COMPONENTS = {"real": ["twisted.internet.defer.Deferred._runCallbacks", "twisted.internet.defer._inlineCallbacks / inlineCallbacks",
                       "twisted.internet.defer.ensureDeferred / Deferred.__await__", "twisted.python.failure.Failure"],
              "stub": ["firing order / pause pattern of the program (tape)"]}
RULE = ("run = one chain of N Deferreds (d_k's callback returns d_k+1, followed by 1..3 follow-up callbacks per link), one pipeline (ONE Deferred with N "
        "callbacks) or one inlineCallbacks/async loop over M awaits, N,M in 10..10^5 "
        "(size classes 10-200 / 200-2000 / 2000-20000 / 20000-100000 with weights 60/30/9/1), firing order, pre-fired subset, paused subset, "
        "success/failure patterns chosen by the tape; a tape-chosen periodic subset of chain follow-ups / pipeline steps returns an ALREADY-FIRED Deferred "
        "(success or failure; succeed()/fail(), hand-fired, or fired-by-chaining) instead of a plain value, and a periodic subset of pipeline steps returns "
        "its own Deferred that is pre-fired, fired later or fired-but-paused; in the inlineCallbacks/async loops the results of the awaited Deferreds, the "
        "return values of nested finished generators/coroutines and (generator only) a periodic subset of plain non-Deferred yields take a tape-chosen "
        "pattern of value shapes (int only / None only / int+None / falsy scalars and empty containers / objects, strings, tuples, exception instance "
        "as a value, class / all 16 shapes), and a pre-fired Deferred obtained its result via callback()/errback(), succeed()/fail(), its last "
        "callback's return value or raise, or chaining to a fired Deferred; non-trivial = length >= 100 (a recursive implementation would already exceed "
        "the stack bound)")
ASSUMPTIONS = ["CPython default recursion limit (1000) is left untouched", "operations are issued from outside callbacks",
               "the top size class (2*10^4..10^5) is drawn in about 1% of runs in either tier",
               "'chain' is read as: every implicit chaining step (a callback returning a Deferred, fired or not) of a program whose number of such "
               "steps is N - links of a chain, steps of a pipeline on one Deferred, or both mixed; each follow-up / step outcome equals the plain-value "
               "outcome whether or not it is wrapped in an already-fired Deferred (documented Deferred chaining semantics)",
               "'already-fired Deferreds' is read without restriction on their results: any Python object that is not a Deferred / Failure is an "
               "ordinary success result (None, falsy values, empty containers, an exception instance passed to callback(), a class); a generator "
               "yielding a non-Deferred, non-coroutine value gets that very value back (inlineCallbacks documentation) and such yields count as steps "
               "of the loop; the loop body must see a value of the same type and content (identity is not demanded)"]

SLACK = 6
BASELINE_LEN = 12
MOD = 1000003


class Boom(Exception):
    pass


def depth():
    f = sys._getframe(1)
    n = 0
    while f is not None:
        n += 1
        f = f.f_back
    return n


def absval(res):
    if isinstance(res, Failure):
        v = res.value
        if isinstance(v, Boom):
            return ("F", v.args[0])
        return ("F", type(v).__name__)
    if res is None or type(res) is int:
        return res
    return "<%s>" % type(res).__name__


def order_of(items, how, seed):
    items = list(items)
    if how == "desc":
        items.reverse()
    elif how == "perm":
        random.Random(seed).shuffle(items)   # pure function of a tape value
    return items


# ---------------------------------------------------------------- shared: step outcomes

def is_ready(key, cfg):
    """Does follow-up callback `key` hand its outcome back wrapped in an already-fired Deferred?"""
    rd = cfg.get("ready_mod", 0)
    return bool(rd) and key % rd == 0


def ready_deferred(outcome, cfg, out):
    """An ALREADY-FIRED Deferred carrying `outcome` (a plain value, a Failure or an exception instance)."""
    out["ready"] = out.get("ready", 0) + 1
    kind = cfg.get("ready_kind", "helper")
    failing = isinstance(outcome, (Failure, BaseException))
    if failing:
        out["ready_failed"] = out.get("ready_failed", 0) + 1
    if kind == "manual":
        d = defer.Deferred()
        if failing:
            d.errback(outcome)
        else:
            d.callback(outcome)
        return d
    inner = defer.fail(outcome) if failing else defer.succeed(outcome)
    if kind == "chained":
        # a fired Deferred that obtained its result by chaining itself to a fired Deferred
        return defer.succeed(None).addCallback(lambda _: inner)
    return inner


def step_outcome(res, key, cfg, out):
    """What follow-up callback `key` does with its input (the real-side twin of b_model): returns / raises."""
    rm, rz = cfg["recover_mod"], cfg["raise_mod"]
    if isinstance(res, Failure):
        r = key if (rm and key % rm == 0) else res
    elif rz and key % rz == 0:
        if is_ready(key, cfg):
            return ready_deferred(Boom(key), cfg, out)
        raise Boom(key)
    else:
        r = (res + 1) % MOD
    if is_ready(key, cfg):
        return ready_deferred(r, cfg, out)
    return r


def fire(d, v):
    if isinstance(v, tuple):
        d.errback(Boom(v[1]))
    else:
        d.callback(v)


# ---------------------------------------------------------------- family: chain

def chain_model(n, cfg):
    """Trivial sequential model: value threaded from d_{n-1} back to d_0 through the w follow-up callbacks of each link."""
    w = cfg.get("per_link", 1)
    exp_in = [None] * (n * w)
    x = own_value(n - 1, cfg)
    for k in range(n - 1, -1, -1):
        for key in range(k * w, k * w + w):
            exp_in[key] = x
            x = b_model(key, x, cfg)
    return exp_in, x


def own_value(k, cfg):
    fm = cfg["fail_mod"]
    if fm and k % fm == 0:
        return ("F", -k - 1)
    return k


def b_model(k, x, cfg):
    if isinstance(x, tuple):
        rm = cfg["recover_mod"]
        if rm and k % rm == 0:
            return k
        return x
    rz = cfg["raise_mod"]
    if rz and k % rz == 0:
        return ("F", k)
    return (x + 1) % MOD


def run_chain(n, cfg, out):
    """Build and fire one chain; out collects depth / mismatches.  Returns (d_0, expected final)."""
    exp_in, final = chain_model(n, cfg)
    w = cfg.get("per_link", 1)
    seen = bytearray(n * w)
    bad = out["bad"]
    base = depth()

    def nxt(res, k):
        return ds[k + 1]

    def body(res, key):
        x = depth() - base
        if x > out["maxdepth"]:
            out["maxdepth"] = x
        seen[key] += 1
        got = absval(res)
        if got != exp_in[key] and len(bad) < 5:
            bad.append((key, got, exp_in[key]))
        return step_outcome(res, key, cfg, out)

    pm, zm = cfg["prefire_mod"], cfg["pause_mod"]
    prefired = [bool(pm) and k % pm == 0 for k in range(n)]
    paused = [bool(zm) and k % zm == 1 for k in range(n)]

    ds = [None] * n
    for k in range(n - 1, -1, -1):          # built from the far end so that pre-fired heads find a complete tail
        d = ds[k] = defer.Deferred()
        if prefired[k]:
            fire(d, own_value(k, cfg))
        if paused[k]:
            d.pause()
        if k < n - 1:
            d.addBoth(nxt, k)
        for key in range(k * w, k * w + w):
            d.addBoth(body, key)
    ops = [("fire", k) for k in order_of([k for k in range(n) if not prefired[k]], cfg["fire_order"], cfg["shuffle_seed"])]
    lm = cfg.get("late_mod", 0)
    if lm:
        # a pass-through callback added to d_{k} AFTER d_{k-1} has (possibly) started waiting on it: it lands behind the
        # continuation entry, sees None and changes no result - but the chain must still be unwound iteratively
        def late(res, k):
            x = depth() - base
            if x > out["maxdepth"]:
                out["maxdepth"] = x
            out["late_ran"] = out.get("late_ran", 0) + 1
            return res
        withlate = []
        for op, k in ops:
            withlate.append((op, k))
            if k + 1 < n and (k + 1) % lm == 0:
                withlate.append(("late", k + 1))
        ops = withlate
    unp = [("unpause", k) for k in order_of([k for k in range(n) if paused[k]], cfg["unpause_order"], cfg["shuffle_seed"] + 1)]
    if cfg["merge"] == "after":
        ops += unp
    else:
        ops += unp
        random.Random(cfg["shuffle_seed"] + 2).shuffle(ops)
    for op, k in ops:
        if op == "fire":
            fire(ds[k], own_value(k, cfg))
        elif op == "late":
            ds[k].addBoth(late, k)
        else:
            ds[k].unpause()
    out["calls_wrong"] = [key for key in range(n * w) if seen[key] != 1][:5]
    out["unfinished"] = [k for k in range(n) if not ds[k].called or ds[k].paused or ds[k].callbacks][:5]
    d0 = ds[0]
    res = absval(getattr(d0, "result", "<no-result>"))
    # consume failures so that garbage collection of 10^5 Deferreds stays quiet
    for d in ds:
        r = getattr(d, "result", None)
        if isinstance(r, Failure):
            d.addErrback(lambda f: None)
    return res, final


# ---------------------------------------------------------------- family: pipe

def pipe_waits(n, cfg):
    wm = cfg["wait_mod"]
    return [k for k in range(n) if wm and k % wm == 1]


def pipe_model(n, cfg):
    """Trivial sequential model of ONE Deferred with n callbacks: step k maps its input like a chain follow-up, except a
    'wait' step, whose outcome is the result its own Deferred u_k is fired with."""
    waits = set(pipe_waits(n, cfg))
    exp_in = [None] * n
    x = own_value(n, cfg)
    for k in range(n):
        exp_in[k] = x
        x = own_value(k, cfg) if k in waits else b_model(k, x, cfg)
    return exp_in, x


def run_pipe(n, cfg, out):
    exp_in, final = pipe_model(n, cfg)
    seen = bytearray(n)
    bad = out["bad"]
    base = depth()
    pm, zm = cfg["prefire_mod"], cfg["pause_mod"]
    waits = pipe_waits(n, cfg)
    us, later, paused = {}, [], []
    for i, k in enumerate(waits):
        u = us[k] = defer.Deferred()
        if pm and i % pm == 0:
            fire(u, own_value(k, cfg))
        else:
            later.append(k)
        if zm and i % zm == 1:
            u.pause()
            paused.append(k)

    out["paused_n"] = len(paused)

    def step(res, k):
        x = depth() - base
        if x > out["maxdepth"]:
            out["maxdepth"] = x
        seen[k] += 1
        got = absval(res)
        if got != exp_in[k] and len(bad) < 5:
            bad.append((k, got, exp_in[k]))
        u = us.get(k)
        if u is not None:
            if not u.called or u.paused:
                out["waited"] = out.get("waited", 0) + 1
            else:
                out["wait_ready"] = out.get("wait_ready", 0) + 1
            return u
        return step_outcome(res, k, cfg, out)

    d = defer.Deferred()
    if cfg["build"] == "fired-first":
        fire(d, own_value(n, cfg))
    for k in range(n):
        d.addBoth(step, k)
    if cfg["build"] != "fired-first":
        fire(d, own_value(n, cfg))
    ops = [("fire", k) for k in order_of(later, cfg["fire_order"], cfg["shuffle_seed"])]
    unp = [("unpause", k) for k in order_of(paused, cfg["unpause_order"], cfg["shuffle_seed"] + 1)]
    ops += unp
    if cfg["merge"] != "after":
        random.Random(cfg["shuffle_seed"] + 2).shuffle(ops)
    for op, k in ops:
        if op == "fire":
            fire(us[k], own_value(k, cfg))
        else:
            us[k].unpause()
    out["calls_wrong"] = [k for k in range(n) if seen[k] != 1][:5]
    out["unfinished"] = [k for k in waits if not us[k].called or us[k].paused or us[k].callbacks][:5]
    if not d.called or d.paused or d.callbacks:
        out["unfinished"].append("pipeline")
    res = absval(getattr(d, "result", "<no-result>"))
    if isinstance(getattr(d, "result", None), Failure):
        d.addErrback(lambda f: None)
    return res, final


# ---------------------------------------------------------------- families: inline / coro

class Box:
    """A plain application object used as a Deferred result / yielded value."""

    def __init__(self, k):
        self.k = k


# The shapes a (success) result may take.  The statement quantifies over "already-fired Deferreds" without restricting their
# results, so the loops are fed every ordinary kind of Python value, in particular the ones that compare / test like "nothing".
VALUE_KINDS = ("int", "none", "zero", "false", "true", "float-zero", "empty-str", "empty-bytes", "empty-tuple", "empty-list", "empty-dict",
               "str", "tuple", "object", "exc-instance", "class")
VALUE_PATTERNS = [("int",),                                   # simplest first: what the loops awaited before values were varied
                  ("none",),
                  ("int", "none"),
                  ("zero", "false", "empty-str", "empty-tuple", "empty-list", "empty-dict", "float-zero", "empty-bytes"),
                  ("object", "str", "tuple", "exc-instance", "class", "true"),
                  VALUE_KINDS]


def kind_of(k, cfg):
    pat = VALUE_PATTERNS[cfg.get("value_pattern", 0)]
    return pat[(k + k // 7) % len(pat)]      # the k // 7 drift keeps the kinds from locking step with prefire_mod / nest_mod / plain_mod


def make_value(k, kind):
    """The real value of shape `kind` that carries the number k (where the shape can carry anything)."""
    if kind == "int":
        return k
    if kind == "none":
        return None
    if kind == "zero":
        return 0
    if kind == "false":
        return False
    if kind == "true":
        return True
    if kind == "float-zero":
        return 0.0
    if kind == "empty-str":
        return ""
    if kind == "empty-bytes":
        return b""
    if kind == "empty-tuple":
        return ()
    if kind == "empty-list":
        return []
    if kind == "empty-dict":
        return {}
    if kind == "str":
        return "s%d" % k
    if kind == "tuple":
        return (k, None)
    if kind == "object":
        return Box(k)
    if kind == "exc-instance":
        return Boom(k)          # an exception INSTANCE handed over as a success value (never raised, never wrapped in a Failure)
    if kind == "class":
        return Box
    raise AssertionError(kind)


def value_abs(v):
    """Abstract, hashable description of a value the loop body received (type name + content)."""
    t = type(v)
    if v is None or t in (int, bool, float, str, bytes):
        return (t.__name__, v)
    if t is tuple:
        return ("tuple",) + tuple(value_abs(x) for x in v)
    if t in (list, dict):
        return (t.__name__, len(v))
    if t is Box:
        return ("Box", v.k)
    if t is Boom:
        return ("Boom-instance", v.args)
    if t is type:
        return ("class", v.__name__)
    if isinstance(v, Failure):
        return ("Failure", type(v.value).__name__)
    return ("<%s>" % t.__name__,)


# model side: what value_abs() must report for the value of shape `kind` carrying k - written out, not computed from make_value
EXPECTED_ABS = {
    "int": lambda k: ("int", k), "none": lambda k: ("NoneType", None), "zero": lambda k: ("int", 0), "false": lambda k: ("bool", False),
    "true": lambda k: ("bool", True), "float-zero": lambda k: ("float", 0.0), "empty-str": lambda k: ("str", ""),
    "empty-bytes": lambda k: ("bytes", b""), "empty-tuple": lambda k: ("tuple",), "empty-list": lambda k: ("list", 0),
    "empty-dict": lambda k: ("dict", 0), "str": lambda k: ("str", "s%d" % k), "tuple": lambda k: ("tuple", ("int", k), ("NoneType", None)),
    "object": lambda k: ("Box", k), "exc-instance": lambda k: ("Boom-instance", (k,)), "class": lambda k: ("class", "Box"),
}


def weight(a):
    """Fold an abstract value into the accumulator (pure function of its canonical text)."""
    return zlib.crc32(repr(a).encode("ascii")) % MOD


def loop_items(m, cfg):
    """What the loop awaits at step k: ('nest', k, kind) | ('plain', k, kind) | ('d', k, prefired, failing, kind)."""
    pm, fm, nm, plm = cfg["prefire_mod"], cfg["fail_mod"], cfg["nest_mod"], cfg.get("plain_mod", 0)
    plain_ok = cfg["family"] == "inline"      # only a generator can be handed a non-awaitable back; `await 3` is a TypeError
    items = []
    for k in range(m):
        kind = kind_of(k, cfg)
        if nm and k % nm == 2:
            items.append(("nest", k, kind))
        elif plain_ok and plm and k % plm == plm - 1:
            items.append(("plain", k, kind))
        else:
            items.append(("d", k, bool(pm) and k % pm == 0, bool(fm) and k % fm == 0, kind))
    return items


def loop_model(items, cfg):
    """Trivial sequential model: (what every `yield` / `await` evaluates to or raises, final result)."""
    acc = 0
    exp = []
    for it in items:
        if it[0] == "nest":
            e = EXPECTED_ABS[it[2]](2 * it[1])
        elif it[0] == "plain":
            e = EXPECTED_ABS[it[2]](it[1])
        elif it[3]:
            e = ("F", it[1])
        else:
            e = EXPECTED_ABS[it[4]](it[1])
        exp.append(e)
        if e[0] == "F":
            acc = (acc * 3 + e[1]) % MOD
        else:
            acc = (acc + weight(e)) % MOD
    return exp, (("F", acc) if cfg["end_raises"] else acc)


def run_loop(family, m, cfg, out):
    items = loop_items(m, cfg)
    exp, final = loop_model(items, cfg)
    bad = out["bad"]
    base = depth()
    steps = [0]
    how = cfg.get("result_from", "callback")

    def probe():
        x = depth() - base
        if x > out["maxdepth"]:
            out["maxdepth"] = x
        steps[0] += 1

    def got_value(k, v):
        a = value_abs(v)
        if a != exp[k] and len(bad) < 5:
            bad.append((k, a, exp[k]))
        return weight(a)

    def got_boom(k, e):
        a = ("F", e.args[0])
        if a != exp[k] and len(bad) < 5:
            bad.append((k, a, exp[k]))
        return e.args[0]

    def outcome_of(it):
        # -> the success value, or the exception the Deferred fails with
        return Boom(it[1]) if it[3] else make_value(it[1], it[4])

    def raiser(_, exc):
        raise exc

    def new_deferred(it):
        """Deferred for item `it`; with result_from == 'returned' its result will be what its last callback returns / raises."""
        d = defer.Deferred()
        if how == "returned":
            if it[3]:
                d.addCallback(raiser, outcome_of(it))
            else:
                d.addCallback(lambda _, v=outcome_of(it): v)
        return d

    def firenow(d, it):
        if how == "returned":
            d.callback(it[1])
        elif it[3]:
            d.errback(Boom(it[1]))
        else:
            d.callback(make_value(it[1], it[4]))

    def note_prefired(it):
        out["prefired"] = out.get("prefired", 0) + 1
        if it[3]:
            return
        kind = it[4]
        if kind == "none":
            out["pf_none"] = out.get("pf_none", 0) + 1
        elif kind in ("zero", "false", "float-zero") or kind.startswith("empty-"):
            out["pf_falsy"] = out.get("pf_falsy", 0) + 1
        elif kind != "int":
            out["pf_object"] = out.get("pf_object", 0) + 1

    ds = {}
    for it in items:
        if it[0] == "d":
            if it[2]:
                note_prefired(it)
                if how == "helper":
                    d = defer.fail(Boom(it[1])) if it[3] else defer.succeed(make_value(it[1], it[4]))
                elif how == "chained":
                    # a fired Deferred that obtained its result by chaining itself to a fired Deferred
                    inner = defer.fail(Boom(it[1])) if it[3] else defer.succeed(make_value(it[1], it[4]))
                    d = defer.succeed(None).addCallback(lambda _, inner=inner: inner)
                else:
                    d = new_deferred(it)
                    firenow(d, it)
                ds[it[1]] = d
            else:
                ds[it[1]] = new_deferred(it)

    @defer.inlineCallbacks
    def sub_gen(k, kind):
        v = yield defer.succeed(k)
        probe()
        return make_value(2 * v, kind)

    async def sub_coro(k, kind):
        v = await defer.succeed(k)
        probe()
        return make_value(2 * v, kind)

    nest_kind = cfg["nest_kind"]

    def nested(it):
        # an already-finished nested computation, in the forms the loop may yield/await
        if it[2] != "int":
            out["nest_shaped"] = out.get("nest_shaped", 0) + 1
        if nest_kind == "gen":
            return sub_gen(it[1], it[2])                       # fired Deferred from a nested inlineCallbacks
        if nest_kind == "coro-deferred":
            return defer.ensureDeferred(sub_coro(it[1], it[2]))  # fired Deferred from a nested coroutine
        return sub_coro(it[1], it[2])                          # bare coroutine object

    def plain(it):
        out["plain"] = out.get("plain", 0) + 1
        return make_value(it[1], it[2])

    if family == "inline":
        @defer.inlineCallbacks
        def main():
            acc = 0
            for it in items:
                try:
                    if it[0] == "nest":
                        v = yield nested(it)
                    elif it[0] == "plain":
                        v = yield plain(it)        # not a Deferred: the generator gets the very value back
                    else:
                        v = yield ds[it[1]]
                except Boom as e:
                    acc = (acc * 3 + got_boom(it[1], e)) % MOD
                else:
                    acc = (acc + got_value(it[1], v)) % MOD
                probe()
            if cfg["end_raises"]:
                raise Boom(acc)
            return acc
        result = main()
    else:
        async def amain():
            acc = 0
            for it in items:
                try:
                    if it[0] == "nest":
                        v = await nested(it)
                    else:
                        v = await ds[it[1]]
                except Boom as e:
                    acc = (acc * 3 + got_boom(it[1], e)) % MOD
                else:
                    acc = (acc + got_value(it[1], v)) % MOD
                probe()
            if cfg["end_raises"]:
                raise Boom(acc)
            return acc
        result = defer.ensureDeferred(amain())

    fired = []

    def done(res):
        probe()
        fired.append(absval(res))
        return None

    result.addBoth(done)
    later = [it for it in items if it[0] == "d" and not it[2]]
    early = None
    for it in order_of(later, cfg["fire_order"], cfg["shuffle_seed"]):
        if fired and early is None:
            early = it[1]
        firenow(ds[it[1]], it)
    out["early"] = early
    out["fired"] = fired
    out["steps"] = steps[0]
    return (fired[0] if fired else "<unfired>"), final


# ---------------------------------------------------------------- scenario

def run(sim):
    family = sim.draw_weighted([("chain", 6), ("inline", 2), ("coro", 2), ("pipe", 3)], "family")
    cls = sim.draw_weighted([(0, 60), (1, 30), (2, 9), (3, 1)], "size_class")
    lo, hi = [(10, 200), (200, 2000), (2000, 20000), (20000, 100000)][cls]
    n = sim.draw_int(lo, hi, "length")
    cfg = {"family": family, "length": n,
           "fire_order": sim.draw_choice(["asc", "desc", "perm"], "fire_order"),
           "prefire_mod": sim.draw_choice([0, 1, 2, 5], "prefire_mod"),
           "fail_mod": sim.draw_choice([0, 4, 1, 3], "fail_mod"),
           "shuffle_seed": sim.draw_int(0, 2 ** 30, "shuffle_seed")}
    if family == "chain":
        cfg.update(pause_mod=sim.draw_choice([0, 3, 2], "pause_mod"),
                   unpause_order=sim.draw_choice(["asc", "desc", "perm"], "unpause_order"),
                   merge=sim.draw_choice(["after", "shuffled"], "merge"),
                   raise_mod=sim.draw_choice([0, 7, 2], "raise_mod"),
                   recover_mod=sim.draw_choice([3, 1, 0], "recover_mod"),
                   late_mod=sim.draw_choice([0, 1, 3], "late_mod"),
                   per_link=sim.draw_choice([1, 2, 3], "per_link"),
                   ready_mod=sim.draw_choice([0, 1, 2, 5], "ready_mod"),
                   ready_kind=sim.draw_choice(["helper", "manual", "chained"], "ready_kind"))
    elif family == "pipe":
        cfg.update(pause_mod=sim.draw_choice([0, 3, 2], "pause_mod"),
                   unpause_order=sim.draw_choice(["asc", "desc", "perm"], "unpause_order"),
                   merge=sim.draw_choice(["after", "shuffled"], "merge"),
                   raise_mod=sim.draw_choice([0, 7, 2], "raise_mod"),
                   recover_mod=sim.draw_choice([3, 1, 0], "recover_mod"),
                   build=sim.draw_choice(["then-fire", "fired-first"], "build"),
                   wait_mod=sim.draw_choice([0, 5, 2, 50], "wait_mod"),
                   ready_mod=sim.draw_choice([0, 1, 2, 5], "ready_mod"),
                   ready_kind=sim.draw_choice(["helper", "manual", "chained"], "ready_kind"))
    else:
        cfg.update(nest_mod=sim.draw_choice([0, 4, 9], "nest_mod"),
                   nest_kind=sim.draw_choice(["gen", "coro-deferred", "coro"], "nest_kind"),
                   end_raises=sim.draw_bool(0.3, "end_raises"),
                   value_pattern=sim.draw_weighted([(0, 3), (1, 2), (2, 2), (3, 2), (4, 2), (5, 3)], "value_pattern"),
                   plain_mod=sim.draw_choice([0, 3, 1, 6], "plain_mod"),
                   result_from=sim.draw_choice(["callback", "helper", "returned", "chained"], "result_from"))
    sim.config = cfg
    sim.event("config", sorted(cfg.items()))
    sim.check("recursion-limit-default", sys.getrecursionlimit() == 1000, "env", "recursion limit is %d" % sys.getrecursionlimit())

    def one(length):
        out = {"maxdepth": 0, "bad": []}
        with sim.guard("raised", family):
            if family == "chain":
                got, want = run_chain(length, cfg, out)
            elif family == "pipe":
                got, want = run_pipe(length, cfg, out)
            else:
                got, want = run_loop(family, length, cfg, out)
        return out, got, want

    base_out, bgot, bwant = one(min(n, BASELINE_LEN))
    out, got, want = one(n)
    sim.event("result", family, n, got, "maxdepth", out["maxdepth"], "baseline", base_out["maxdepth"])
    sim.step(10)
    shape = "%s/%s" % (family, cfg["fire_order"])
    # 1. stack usage does not grow with the length
    sim.check("stack-grows-with-length", out["maxdepth"] <= base_out["maxdepth"] + SLACK, family,
              "max relative frame depth %d at length %d vs %d at length %d (shape %s, cfg %r)"
              % (out["maxdepth"], n, base_out["maxdepth"], min(n, BASELINE_LEN), shape, cfg))
    # 2. no RecursionError anywhere
    rec = [b for b in out["bad"] if b[1] == ("F", "RecursionError")] or (got == ("F", "RecursionError"))
    sim.check("recursion-error", not rec, family, "RecursionError surfaced: %r final %r (length %d, cfg %r)" % (out["bad"][:2], got, n, cfg))
    # 3. the computation is the one the trivial model predicts
    sim.check("callback-inputs", not out["bad"], family, "(k, got, expected): %r (length %d, cfg %r)" % (out["bad"], n, cfg))
    if family in ("chain", "pipe"):
        sim.check("each-callback-once", not out["calls_wrong"], family, "callbacks not run exactly once at k=%r (length %d, cfg %r)" % (out["calls_wrong"], n, cfg))
        sim.check("chain-completes", not out["unfinished"], family, "Deferreds left unfired/paused/with callbacks at k=%r (length %d)" % (out["unfinished"], n))
    else:
        sim.check("completes-once", len(out["fired"]) == 1, family, "result Deferred fired %d times (length %d, cfg %r)" % (len(out["fired"]), n, cfg))
        sim.check("not-before-last-await", out["early"] is None, family, "completed before Deferred %r was fired" % (out["early"],))
    sim.check("final-result", got == want, family, "got %r expected %r (length %d, cfg %r)" % (got, want, n, cfg))
    sim.check("baseline-result", bgot == bwant and not base_out["bad"], family, "length-%d baseline got %r expected %r" % (min(n, BASELINE_LEN), bgot, bwant))
    sim.probe("family_" + family)
    sim.probe("size_class_%d" % cls)
    if cfg["prefire_mod"] == 1:
        sim.probe("all_prefired")
    if (family == "chain" and cfg["pause_mod"]) or out.get("paused_n"):
        sim.fault("paused_subset")
    if out.get("ready"):
        sim.probe("fired_deferred_returned")
    if out.get("ready_failed"):
        sim.probe("failed_deferred_returned")
    if out.get("ready") and cfg.get("ready_kind") == "chained":
        sim.probe("fired_deferred_result_from_chaining")
    if family == "chain" and cfg["per_link"] > 1:
        sim.probe("several_followups_per_link")
    if out.get("waited"):
        sim.probe("pipe_step_waits_unfired")
    if out.get("wait_ready"):
        sim.probe("pipe_step_own_deferred_fired")
    if family == "pipe" and cfg["build"] == "fired-first":
        sim.probe("pipe_fired_before_built")
    if cfg["fail_mod"]:
        sim.fault("failure_results")
    if out.get("pf_none"):
        sim.probe("loop_prefired_result_none")
    if out.get("pf_falsy"):
        sim.probe("loop_prefired_result_falsy")
    if out.get("pf_object"):
        sim.probe("loop_prefired_result_object")
    if out.get("plain"):
        sim.probe("loop_plain_value_yield")
    if out.get("plain") and out["plain"] == n:
        sim.probe("loop_only_plain_value_yields")
    if out.get("nest_shaped"):
        sim.probe("loop_nested_returns_non_int")
    if out.get("prefired") and cfg.get("result_from") == "returned":
        sim.probe("loop_prefired_result_from_last_callback")
    if out.get("prefired") and cfg.get("result_from") == "chained":
        sim.probe("loop_prefired_result_from_chaining")
    sim.state((family, cls, cfg["fire_order"], cfg["prefire_mod"], cfg["fail_mod"], cfg.get("pause_mod"), cfg.get("nest_mod"), cfg.get("merge"),
               cfg.get("ready_mod"), cfg.get("per_link"), cfg.get("wait_mod"), cfg.get("build"), cfg.get("value_pattern"), cfg.get("plain_mod"),
               cfg.get("result_from")))
    sim.nontrivial = n >= 100


# Sensitivity (tools/mutate.py C02, src/twisted/internet/defer.py)
MUTANTS = [
    "_CONTINUE hand-over replaced by recursion (`chain.append(chainee)` -> `chainee._runCallbacks(); continue`): CAUGHT (stack-grows-with-length:chain, raised:chain:RecursionError)",
    "recursion reintroduced only for failure results (`if isinstance(chainee.result, Failure): chainee._runCallbacks(); continue`): CAUGHT (stack-grows-with-length:chain, raised:chain:RecursionError)",
    "in-place take-over of an already-fired returned Deferred replaced by pause + continuation + nested `currentResult._runCallbacks()` "
    "(seeded C02-r3-no-steal-nested-run): CAUGHT (stack-grows-with-length:chain, stack-grows-with-length:pipe)",
    "the same nested run only when the taken-over result is a Failure (`if isinstance(resultResult, Failure): currentResult.result = resultResult; "
    "current.pause(); currentResult.callbacks.append(current._continuation()); currentResult._runCallbacks(); break`): CAUGHT "
    "(stack-grows-with-length:chain, stack-grows-with-length:pipe)",
    "loop unfolding skipped when the yielded fired Deferred's result is None (`if getattr(result, 'result', None) is None: waiting[0] = False; "
    "status.waitingOn = result; result.addBoth(_gotResultInlineCallbacks, ...); return` taken for 'not fired yet'; seeded "
    "C02-r4b-inline-none-result-fastpath): was MISSED while every awaited result was an int or a failure; CAUGHT (stack-grows-with-length:inline) "
    "since result values are varied",
    "result parked for the loop only when truthy (`if waiting[0]:` -> `if waiting[0] and r:` in _gotResultInlineCallbacks, so None / 0 / False / empty "
    "results recurse): CAUGHT (stack-grows-with-length:inline)",
    "the same for falsy results other than None (`if waiting[0] and (r or r is None):`): CAUGHT (stack-grows-with-length:inline)",
    "plain (non-Deferred) yields handled by a tail call (`if not isDeferred: return _inlineCallbacks(result, gen, status, context)` before "
    "`if isDeferred:`): CAUGHT (stack-grows-with-length:inline)",
    "_inlineCallbacks loop unfolding removed (`if waiting[0]:` -> `if False:` in _gotResultInlineCallbacks, so every ready yield recurses): CAUGHT (stack-grows-with-length:inline)",
]
