"""C13 — callFromThread runs each call once, in per-thread order, promptly.

Engines E5 + E4.  A real select / poll / epoll / asyncio reactor runs its real
`run()` main loop on one baton thread, over the fake kernel's pollers; 1..6
producer baton threads issue `callFromThread` calls.  The reactor waker keeps
its real OS pipe (asyncio: its real socketpair); the fake pollers test those
real fds with a zero-timeout select.  Pre-emption points: every poller
entry/exit and, with tape-drawn probability, every *line* executed inside
base.py, posixbase.py, _signals.py and asyncioreactor.py — so a producer can be
descheduled between `threadCallQueue.append` and `wakeUp`, the reactor between
draining the queue and deleting the drained slice, etc.

Two further families.  (1) callFromThread(f, *args, **kwargs): in half of the runs
a third of the issued calls carry keyword arguments (some or all of their
arguments), mixed with positional calls of the same thread.  (2) State carried
across uses: in four runs of ten the reactor is crash()ed - from a thread call,
a callWhenRunning hook, a timed call or the I/O callback of an inbound
connection, with unrelated short timers armed or not - and run() again, once or
twice, on the same thread (crash() + run() is the supported restart; a stop()ped
reactor is not restartable).  Producers keep issuing across the restart and
further producers start once the later run has started; every call, whichever
run it was issued in, is judged by the same clauses.

Two families about what "a reactor that runs" includes.  (3) Asynchronous shutdown: in three runs of five, one or two
"before shutdown" triggers return a Deferred (what a service does whose stopService() hands its clean-up to a thread);
after stop() the reactor keeps running until those fire, and each trigger's own thread issues 0..4 further calls and
then the call that fires its Deferred.  Those calls are judged by the same clauses as every other call - the reactor is
running, whatever flags stop() has set.  (4) Unrelated descriptors dying: in half of the runs one or two application
readers (idle listening sockets) have their fd closed behind the reactor's back - from another thread or from a call in
the reactor thread; fileno() answers -1 afterwards or keeps answering the stale number - while producers are issuing.
Every reactor is built to survive that (select probes its descriptors after EBADF / ValueError and drops the bad one,
poll gets POLLNVAL, epoll and the selector lose the fd silently); the calls issued afterwards are judged as before.

(5) More than one reactor in the process: in two runs of ten a second real reactor (any of the four kinds) runs its own main loop on a
thread of its own, started before or after the first one - so whatever the reactors keep in module-level state
(twisted.python.threadable's registered "I/O thread", base.py's shared logging handler ...) belongs to the one that touched it last.  It
is fed by producer threads of its own; half of the calls it runs, and its short timed calls, hand work to the first reactor with
callFromThread - a reactor's thread is a thread like any other to the reactor it calls - and a share of the first reactor's calls hand
work back.  Calls to either reactor are judged by the same clauses (once, on the thread of the reactor they were given to, in the order
the issuing thread issued them, promptly); a restart of the first reactor (family 2) re-registers it while the second keeps running.

Promptness is stated without timing: while an issued call is un-run, the
simulator must never have to advance simulated time (i.e. the reactor must not
be asleep in its poller with nothing ready and nobody else runnable); with an
infinite poll timeout that state is a deadlock (lost wake-up).
"""
from zope.interface import implementer

from twisted.internet import defer, protocol
from twisted.internet.interfaces import IReadDescriptor
from twisted.python import threadable

from detsim import kernel as K, reactors as R, threads as T

ID = "C13"
ENGINE = "threads+kernel"
LEVEL = "exploration"
TECHNIQUE = "deterministic simulation: real reactor main loop + producer threads as baton threads over fake pollers, tape-chosen interleaving incl. line-level pre-emption; lost wake-up = forced clock advance or deadlock"
QUICK_RUNS = 1400
BATCH = 20
COMPONENTS = {"real": ["twisted.internet.base.ReactorBase.callFromThread/runUntilCurrent/wakeUp/mainLoop", "twisted.internet.posixbase._UnixWaker (real OS pipe)",
                       "selectreactor/pollreactor/epollreactor doIteration", "asyncioreactor.AsyncioSelectorReactor.callFromThread/run + asyncio's SelectorEventLoop (real self-pipe)"],
              "stub": ["OS thread scheduling (detsim.threads baton)", "select/poll/epoll/selector syscalls (detsim.kernel pollers; real fds polled with zero timeout)", "wall clock"]}
RULE = ("run = one tape-chosen reactor running its real main loop, 1..6 producer threads each issuing 1..12 callFromThread calls (some calls re-issue callFromThread from the reactor thread; in half of the runs a fifth of the calls raise after doing their work; "
        "in half of the runs three calls of ten pass some or all of their arguments as keyword arguments), far-future timers and a listening socket present; "
        "in 4 runs of 10 the reactor is crash()ed once or twice - from a thread call, a callWhenRunning hook, a timed call or the I/O callback of an inbound connection, with or without "
        "a short unrelated timer armed - and run() again on the same thread, 1..2 more producers of 1..6 calls starting once that later run has started while the earlier ones carry on; "
        "in 3 runs of 5 the final stop() is asynchronous: 1..2 'before shutdown' triggers return a Deferred, each completed by the last of 1..5 callFromThread calls of the trigger's own thread, issued while the stopped-but-running reactor idles; "
        "in 2 runs of 10 a companion reactor (tape-chosen kind) runs on its own thread, started before or after the first, fed by 1..2 producers of 1..6 calls; half of the calls it runs and its 0..2 short timed calls "
        "hand a call to the first reactor from the companion's thread, 15% of the first reactor's calls hand one back; both reactors' calls are judged alike; "
        "in half of the runs 1..2 unrelated application readers have their fd closed behind the reactor's back (fileno() -1 or stale; from a thread or from the reactor thread) while producers are issuing; interleaving chosen at poller boundaries and at lines of the reactor source with probability p in {0, .05, .2} under a uniform scheduler, or under a PCT (priority) scheduler with few long-lasting pre-emptions; "
        "non-trivial = >= 2 producers and the reactor actually blocked in its poller at least once while producers were still running, or a line-level pre-emption fired")
ASSUMPTIONS = ["the reactor's clock is strictly increasing between two readings (monotonic clock with sub-call resolution)", "CPython list.append / slice deletion are atomic between trace 'line' events (the GIL guarantee the code relies on)",
               "quantifier's 10^4-call figure is not reached: <= 72 calls per run, + <= 24 in runs with restarts, + <= 26 in runs with a companion reactor (depth is bounded by baton hand-over cost, not soundness)",
               "restart family: a call issued by a still-running producer between crash() and the next run() is expected to run (once, in order) in that next run - the unchanged reactors queue it; "
               "nothing is demanded of its latency until the reactor sleeps in its poller again",
               "asynchronous shutdown: only calls issued before the call that completes the last outstanding 'before shutdown' Deferred are judged (all of them are: each trigger thread's completing call is its last); "
               "nothing is demanded of calls issued once the 'during shutdown' phase has begun",
               "an fd closed by another thread while the reactor sleeps in its poller makes the fake poller return (a real kernel may sleep on); either way the bad descriptor is reported at the poller's next entry",
               "nothing is demanded about the dead descriptor itself (whether / when it gets connectionLost is not part of C13)",
               "companion reactor: it is stopped (callFromThread(stop)) only after the first reactor has finished; its short timers are waited for before the first reactor is stopped, "
               "so no call is ever handed to a reactor that is no longer running; crash/restart, asynchronous shutdown and dying descriptors are applied to the first reactor only",
               "a call handed to a reactor before its first run() (the other reactor started earlier) is expected to run once it runs, like the calls producers issue before the first reactor's run()",
               "per-thread order is judged against the order in which the issuing thread made its callFromThread calls (for calls re-issued by running calls: the order in which those ran)",
               "twisted.python.threadable.ioThread is reset to None at the start of a run (the value a fresh process has) and restored afterwards",
               "short timers are 0..5e-6 s (0..50 clock readings): the poll reactor truncates timeouts to whole milliseconds and busy-polls the remainder one clock reading at a time"]
RUN_WALL_LIMIT_S = 60
# short timer delays, in units of the simulated clock's resolution (1e-7 s per reading): the poll reactor truncates its timeout to whole
# milliseconds and busy-polls for the rest, one clock reading at a time, so longer delays only buy thousands of empty iterations
DELAYS = (0, 1e-6, 5e-6)
CRASH_FROM = ("thread", "hook", "timer", "io")   # where reactor.crash() is called from: a thread call, a callWhenRunning hook, a timed call, an I/O callback
# how an application descriptor's fd dies behind the reactor's back: not at all / closed, fileno() says -1 from then on (Python sockets) /
# closed, fileno() keeps giving the number it cached (objects wrapping an OS-level fd) - and from where: another thread, or a call in the reactor thread
BAD_FD = ("closed", "stale")
BAD_FD_FROM = ("thread", "reactor")
# a second reactor running in the same process on a thread of its own (module-level state of twisted.python.threadable, twisted.internet.base ...
# is shared by both) is drawn per run: absent (8 in 10) / started after the first one / started before it
# share of the runs whose clock is coarse: `grain` consecutive readings give the same value (Windows' time.time() ticks every 1..16 ms).
# DISABLED (deliberately 0.0): on such a clock the unchanged asyncio reactor runs the calls of one thread out of order (callFromThread =
# callLater(0); equal DelayedCall.time values have no tie-break on the timed-call heap) - reported, examined and put aside as an OBSERVATION
# outside the statement (DESIGN 12.7; not repaired), see MUTANTS; the other clauses are exercised on a clock that never ties
COARSE_CLOCK_P = 0.0
COARSE_GRAINS = (4, 64)


@implementer(IReadDescriptor)
class AppReader:
    """An unrelated application descriptor watched for input by the reactor: a listening socket nobody connects to."""

    def __init__(self, sim, sock, name):
        self.sim, self.sock, self.name = sim, sock, name
        self.fd = sock.fileno()
        self.stale = False
        self.lost = 0

    def fileno(self):
        return self.fd if self.stale else self.sock.fileno()

    def doRead(self):
        self.sim.probe("app_reader_doRead")

    def connectionLost(self, reason):
        self.lost += 1
        self.sim.probe("app_reader_connection_lost")

    def logPrefix(self):
        return "app-" + self.name


def run(sim):
    kind = sim.draw_choice(list(R.KINDS), "reactor")
    nprod = sim.draw_int(1, 6, "producers")
    preempt = sim.draw_choice([0.0, 0.05, 0.2], "preempt_p")
    with_timer = sim.draw_bool(0.5, "far_timer")
    policy = sim.draw_choice(["uniform", "pct"], "sched_policy")
    if policy == "pct" and preempt:
        preempt = sim.draw_choice([0.004, 0.015], "pct_change_p")   # few, long-lasting pre-emptions (see detsim.threads.Scheduler)
    raising = sim.draw_bool(0.5, "raising_calls")
    kw_p = sim.draw_choice([0.0, 0.3], "keyword_calls_p")          # share of the issued calls that carry keyword arguments
    ncrash = sim.draw_weighted([(0, 6), (1, 3), (2, 1)], "restarts")   # the reactor is crash()ed and run() again this many times
    plan = [sim.draw_choice(CRASH_FROM, "crash_from") for _ in range(ncrash)]
    near_p = sim.draw_choice([0.0, 0.5], "near_timer_p")            # an unrelated short timer is armed before a run() with this probability
    # asynchronous shutdown: this many "before shutdown" triggers return a Deferred that a thread of theirs completes with its last callFromThread
    nasync = sim.draw_weighted([(0, 2), (1, 2), (2, 1)], "async_shutdown_triggers")
    # unrelated application descriptors whose fd dies behind the reactor's back while producers are issuing
    bad_fds = [(sim.draw_choice(BAD_FD, "bad_fd"), sim.draw_choice(BAD_FD_FROM, "bad_fd_from")) for _ in range(sim.draw_weighted([(0, 3), (1, 2), (2, 1)], "bad_fds"))]
    companion = sim.draw_weighted([(None, 8), ("after", 1), ("before", 1)], "companion_reactor")
    kind_b = sim.draw_choice(list(R.KINDS), "companion_kind") if companion else None
    grain = sim.draw_choice(COARSE_GRAINS, "clock_grain") if COARSE_CLOCK_P and sim.draw_bool(COARSE_CLOCK_P, "coarse_clock") else 1
    sim.config = {"reactor": kind, "producers": nprod, "preempt_p": preempt, "far_timer": with_timer, "policy": policy, "raising_calls": raising,
                  "keyword_calls_p": kw_p, "restarts": plan, "near_timer_p": near_p, "async_shutdown_triggers": nasync, "bad_fds": ["%s-from-%s" % b for b in bad_fds],
                  "companion": [companion, kind_b], "clock_grain": grain}
    now = [0.0]
    kern = K.Kernel(sim)
    kern.permute_ready = False
    files = ("internet/base.py", "internet/posixbase.py", "internet/_signals.py", "internet/asyncioreactor.py", "internet/selectreactor.py",
             "internet/pollreactor.py", "internet/epollreactor.py")
    sched = T.Scheduler(sim, trace_files=files if preempt else (), preempt_p=preempt, policy=policy)
    issued = []          # (reactor, producer, k) in issue order; reactor 0 is the one under the full workload, 1 its companion
    ran = []             # (reactor, producer, k) in run order
    ran_thread = []
    kinds = [kind, kind_b]
    st = {"asleep": {}, "producers_done": False, "blocked_while_producing": 0, "reactor_thread": [None, None], "stopping": False,
          "started": 0, "crashes": 0, "restart": False, "b_started": 0, "reads": 0, "hand_overs_due": 0}
    shut = {"begun": [False] * nasync, "d": [None] * nasync}

    def idle(timeout, scan):
        # called on the reactor thread when its poller found nothing ready
        deadline = None if timeout is None else now[0] + timeout
        me = sched.me()
        st["asleep"][me.serial] = deadline
        if me is not st["reactor_thread"][0]:
            sim.probe("companion_blocked_in_poller")
        elif not st["producers_done"]:
            st["blocked_while_producing"] += 1
            sim.probe("reactor_blocked_in_poller")
        if me is st["reactor_thread"][0] and st["stopping"] and any(shut["begun"]) and not all(d is not None and d.called for d in shut["d"]):
            sim.probe("reactor_blocked_during_async_shutdown")

        def ready():
            try:
                return scan()
            except (OSError, ValueError):
                # a watched fd was closed while the reactor slept: let the call return; its next entry reports the bad descriptor
                return True

        sched.block_until(lambda: ready() or (deadline is not None and now[0] >= deadline), "poll")
        del st["asleep"][me.serial]

    kern.idle = idle

    def pending_on():
        """Kinds of the reactors that have issued calls not run yet."""
        left = list(issued)
        for x in ran:
            if x in left:
                left.remove(x)
        return sorted(set(kinds[x[0]] for x in left))


    def advance_clock():
        """Scheduler idle hook: nobody is runnable.  If the reactor sleeps with a finite timeout the only way on is to
        advance simulated time — which must never be necessary while an issued call has not run."""
        finite = [d for d in st["asleep"].values() if d is not None]
        if not finite:
            return False
        pending = len(issued) - len(ran)
        sim.check("prompt-no-sleep-while-call-pending", pending == 0, "+".join(pending_on()) if pending else kind,
                  lambda: "reactor asleep in its poller with %d issued call(s) not run and no other runnable thread (only the passing of time would wake anybody): lost wake-up" % pending)
        now[0] = max(now[0], min(finite))
        sim.probe("clock_advanced_while_idle")
        return True

    sched.idle_hook = advance_clock
    r = rb = None
    io_thread = threadable.ioThread
    threadable.ioThread = None     # what a fresh process has; a worker process would carry the (recyclable) ident of an earlier run's thread
    with R.installed(kern):
        try:
            def clock_read():
                # a monotonic clock whose resolution is finer than the spacing of two readings (true of
                # CLOCK_MONOTONIC on Linux): every reading is strictly later than the previous one.  With a frozen
                # clock the asyncio reactor's callFromThread (implemented as callLater(0)) ties on the timed-call heap
                # and runs same-thread calls out of order - an artefact of a frozen clock, not claimed as a defect.
                # (COARSE_CLOCK_P, disabled, makes `grain` consecutive readings equal.)
                st["reads"] += 1
                if st["reads"] % grain == 0:
                    now[0] += 1e-7 * grain
                elif grain > 1:
                    sim.fault("clock_reading_tied")
                return now[0]

            r = R.make_reactor(kind, kern, clock_read, fake_select_module=True)
            reactors = [r]
            if companion:
                # a second reactor of the same process: it runs on a thread of its own, is fed by producer threads, and the calls it runs
                # hand work to the first one with callFromThread (and the other way round) - exactly what callFromThread is for
                rb = R.make_reactor(kind_b, kern, clock_read, fake_select_module=True)
                reactors.append(rb)

            def do_crash(how):
                # always runs on the reactor thread, inside run(): crash() + run() is the supported way to restart a reactor
                st["crashes"] += 1
                st["restart"] = True
                sim.fault("crash_from_" + how)
                sim.event("crash", how)
                r.crash()

            class Visitor(protocol.Protocol):
                def connectionMade(self):
                    do_crash("io")

            factory = protocol.Factory()
            factory.protocol = Visitor
            port = r.listenTCP(0, factory, interface="127.0.0.1")               # an unrelated descriptor, idle unless a run is crashed from its I/O callback
            addr = port.getHost()
            if with_timer:
                r.callLater(1000.0, lambda: None)                              # an unrelated, far timer

            # unrelated application descriptors, idle for ever; some have their fd closed behind the reactor's back later on
            apps = []
            for i in range(len(bad_fds)):
                ls = kern.socket()
                ls.bind(("127.0.0.1", 0))
                ls.listen(5)
                apps.append(AppReader(sim, ls, str(i)))
                r.addReader(apps[-1])

            def before_shutdown(i):
                # what a service does whose stopService() hands its clean-up to a thread (deferToThread): the reactor keeps running until the
                # returned Deferred fires - from that thread's last callFromThread
                shut["d"][i] = defer.Deferred()
                shut["begun"][i] = True
                sim.event("shutdown-begun", i)
                sim.probe("before_shutdown_trigger_waiting")
                return shut["d"][i]

            for i in range(nasync):
                r.addSystemEventTrigger("before", "shutdown", before_shutdown, i)

            def issue(name, k, again, boom, fire=None, t=0):
                """One callFromThread call to reactor number t; callFromThread(f, *args, **kwargs) accepts keyword arguments as well."""
                r = reactors[t]
                style = sim.draw_weighted([("positional", 2), ("keyword", 2), ("all-keyword", 1)], "call_style") if kw_p and sim.draw_bool(kw_p, "keyword_call") else "positional"
                issued.append((t, name, k))
                if t:
                    sim.probe("call_issued_to_companion")
                if st["started"] > 1:
                    sim.probe("call_issued_in_a_later_run")
                if st["stopping"]:
                    sim.probe("call_issued_during_async_shutdown")
                if style == "positional":
                    r.callFromThread(record, name, k, again, boom, fire, t)
                elif style == "keyword":
                    sim.probe("call_with_keyword_arguments")
                    r.callFromThread(record, name, k, boom=boom, t=t, fire=fire, again=again)
                else:
                    sim.probe("call_with_keyword_arguments")
                    r.callFromThread(record, again=again, k=k, fire=fire, p=name, t=t, boom=boom)

            def record(p, k, again=False, boom=False, fire=None, t=0):
                ran.append((t, p, k))
                ran_thread.append((t, sched.me()))
                if fire is not None:
                    # the clean-up thread's last call: its "before shutdown" trigger is complete
                    sim.event("shutdown-complete", fire)
                    shut["d"][fire].callback(None)
                if again == "other":
                    # a call running in one reactor's thread hands work to the other reactor
                    sim.fault("call_handed_to_the_other_reactor")
                    issue("x" + p, k, False, False, None, 1 - t)
                elif again:
                    # a call issued from the reactor thread itself
                    issue("r" + p, k, False, False, None, t)
                if boom:
                    # a call may fail; the reactor logs the failure and every other call still runs exactly once
                    sim.fault("call_raised")
                    raise RuntimeError("call %s/%d fails" % (p, k))

            def on_start():
                st["started"] += 1

            def near_timer_fired():
                sim.probe("near_timer_fired")

            def hand_over(i):
                # a timed call of the companion reactor hands work to the first one - which is idle more often than not by then
                sim.probe("companion_timer_hands_over")
                st["hand_overs_due"] -= 1
                sim.event("issue", "t%d" % i, 0)
                issue("t%d" % i, 0, False, False)

            def companion_main():
                st["reactor_thread"][1] = sched.me()
                if companion == "after":
                    sched.block_until(lambda: st["started"] > 0, "run-started")
                rb.callWhenRunning(lambda: st.__setitem__("b_started", st["b_started"] + 1))
                for i in range(sim.draw_int(0, 2, "companion_timers")):
                    st["hand_overs_due"] += 1
                    rb.callLater(sim.draw_choice(DELAYS, "hand_over_delay"), hand_over, i)
                rb.run(installSignalHandlers=False)

            def reactor_main():
                st["reactor_thread"][0] = sched.me()
                if companion == "before":
                    sched.block_until(lambda: st["b_started"] > 0, "companion-started")
                run_no = 0
                while True:
                    # what an application does between two run()s: startup hooks, timers
                    r.callWhenRunning(on_start)
                    if near_p and sim.draw_bool(near_p, "near_timer"):
                        r.callLater(sim.draw_choice(DELAYS, "near_delay"), near_timer_fired)   # an unrelated, short timer
                    how = plan[run_no] if run_no < ncrash else None
                    if how == "hook":
                        r.callWhenRunning(do_crash, "hook")
                    elif how == "timer":
                        r.callLater(sim.draw_choice(DELAYS, "crash_delay"), do_crash, "timer")
                    st["restart"] = False
                    r.run(installSignalHandlers=False)
                    if not st["restart"]:
                        return
                    run_no += 1
                    sim.probe("reactor_run_again_after_crash")

            def producer(p, n, group, t=0):
                if group:
                    # producers of a later group start once that run of the reactor has started
                    sched.block_until(lambda: st["started"] > group, "run-started")
                if t:
                    sched.block_until(lambda: st["b_started"] > 0, "companion-started")
                for k in range(n):
                    for _ in range(sim.draw_int(0, 2, "pause")):
                        sched.point("producer-pause")
                    again = sim.draw_bool(0.15, "again")
                    if companion and sim.draw_bool(0.5 if t else 0.15, "across"):
                        again = "other"
                    boom = raising and sim.draw_bool(0.2, "raises")
                    sim.event("issue", p, k)
                    issue("p%d" % p, k, again, boom, None, t)

            def crasher(g, how):
                # ends run number g of the reactor from a thread call, or from the I/O callback of an inbound connection
                sched.block_until(lambda: st["started"] > g, "run-started")
                for _ in range(sim.draw_int(0, 8, "crash_pause")):
                    sched.point("crasher-pause")
                if how == "thread":
                    r.callFromThread(do_crash, "thread")
                else:
                    c = kern.socket()
                    c.connect_ex((addr.host, addr.port))
                    sched.point("syn-sent")
                    kern.fire("connect", c)

            def closer(i, mode, where):
                # an application bug the reactors are built to survive: the fd of a descriptor the reactor still watches is closed
                sched.block_until(lambda: st["started"] > 0, "run-started")
                for _ in range(sim.draw_int(0, 6, "close_pause")):
                    sched.point("closer-pause")
                a = apps[i]

                def close():
                    sim.fault("fd_closed_behind_reactor_" + mode)
                    sim.event("fd-closed", i, mode, where)
                    a.stale = mode == "stale"
                    a.sock.close()

                if where == "thread":
                    close()
                else:
                    r.callFromThread(close)

            def shutdown_worker(i, n):
                # the clean-up thread of "before shutdown" trigger i: n calls, then the one that completes the trigger
                sched.block_until(lambda: shut["begun"][i], "shutdown-begun")
                for k in range(n + 1):
                    for _ in range(sim.draw_int(0, 2, "pause")):
                        sched.point("shutdown-worker-pause")
                    boom = raising and k < n and sim.draw_bool(0.2, "raises")
                    sim.event("issue", "s%d" % i, k)
                    issue("s%d" % i, k, False, boom, i if k == n else None)

            rt = sched.spawn("reactor", reactor_main)
            prods = [sched.spawn("prod%d" % p, producer, p, sim.draw_int(1, 12, "ncalls"), 0) for p in range(nprod)]
            if companion:
                rtb = sched.spawn("companion", companion_main)
                # the companion's own producers: most of what it runs hands work on to the first reactor
                for _ in range(sim.draw_int(1, 2, "companion_producers")):
                    prods.append(sched.spawn("prod%d" % len(prods), producer, len(prods), sim.draw_int(1, 6, "companion_ncalls"), 0, 1))
            for g in range(ncrash):
                if plan[g] in ("thread", "io"):
                    prods.append(sched.spawn("crasher%d" % g, crasher, g, plan[g]))
                for _ in range(sim.draw_int(1, 2, "late_producers")):
                    prods.append(sched.spawn("prod%d" % len(prods), producer, len(prods), sim.draw_int(1, 6, "late_ncalls"), g + 1))

            for i, (mode, where) in enumerate(bad_fds):
                prods.append(sched.spawn("closer%d" % i, closer, i, mode, where))

            def lost(e):
                pending = len(issued) - len(ran)
                sim.fail("lost-wakeup-deadlock" if pending else "deadlock", "+".join(pending_on()) if pending else kind,
                         "no runnable thread; reactor parked in its poller with %d issued call(s) not run: %s" % (pending, e))

            with sim.guard("thread-raised", kind):
                try:
                    sched.run(max_steps=400000, until=lambda: all(t.state == "done" for t in prods))
                    st["producers_done"] = True
                    # bounded liveness: once producers are done every issued call runs within a step budget
                    sched.run(max_steps=50000, until=lambda: len(ran) >= len(issued) and len(issued) > 0
                              and (not companion or (st["b_started"] > 0 and st["hand_overs_due"] == 0)))
                except T.Deadlock as e:
                    lost(e)
            sim.check("all-calls-ran-within-budget", len(ran) >= len(issued), kind,
                      lambda: "%d of %d issued calls ran within the step budget after the last producer finished" % (len(ran), len(issued)))
            # stop the reactor from a thread, as applications do
            st["stopping"] = True
            for i in range(nasync):
                sched.spawn("shutdown%d" % i, shutdown_worker, i, sim.draw_int(0, 4, "shutdown_ncalls"))
            stopper = sched.spawn("stopper", lambda: r.callFromThread(r.stop))
            with sim.guard("thread-raised", kind):
                try:
                    sched.run(max_steps=50000, until=lambda: rt.state == "done")
                except T.Deadlock as e:
                    if len(issued) > len(ran):
                        lost(e)      # a call issued while the reactor was waiting for its "before shutdown" triggers
                    else:
                        sim.fail("stop-not-delivered", kind, "reactor.stop issued with callFromThread never ran: %s" % e)
            sim.check("reactor-stopped", rt.state == "done", kind, "reactor main loop did not finish after callFromThread(stop)")
            if companion and sim.violation is None:
                # the companion outlives the first reactor and is stopped the same way
                sched.spawn("stopper-companion", lambda: rb.callFromThread(rb.stop))
                with sim.guard("thread-raised", kind_b):
                    try:
                        sched.run(max_steps=50000, until=lambda: rtb.state == "done")
                    except T.Deadlock as e:
                        sim.fail("stop-not-delivered", kind_b, "companion reactor: stop issued with callFromThread never ran: %s" % e)
                sim.check("reactor-stopped", rtb.state == "done", kind_b, "companion reactor's main loop did not finish after callFromThread(stop)")
        finally:
            sched.shutdown()
            if rb is not None:
                R.teardown(rb)
            if r is not None:
                R.teardown(r)
            threadable.ioThread = io_thread
    # history checks
    sim.check("each-call-exactly-once", sorted(ran) == sorted(issued) and len(set(ran)) == len(ran), kind,
              lambda: "issued %d calls, ran %d; duplicates=%r missing=%r" % (len(issued), len(ran), sorted(x for x in set(ran) if ran.count(x) > 1)[:3],
                                                                           sorted(set(issued) - set(ran))[:3]))
    sim.check("ran-on-reactor-thread", all(th is st["reactor_thread"][t] for t, th in ran_thread), kind, "a call ran outside its reactor's thread")
    per, want = {}, {}
    for t, p, k in ran:
        per.setdefault((t, p), []).append(k)
    for t, p, k in issued:
        want.setdefault((t, p), []).append(k)      # the order in which that thread issued them
    bad = sorted(tp for tp, ks in per.items() if ks != want.get(tp))
    sim.check("per-thread-order", not bad, "+".join(sorted(set(kinds[t] for t, p in bad))) if bad else kind,
              lambda: "calls of producer(s) %s ran out of issue order: %r" % ([p for t, p in bad], {b[1]: per.get(b) for b in bad[:2]}))
    sim.sim_time += now[0]
    sim.state((kind, nprod, preempt, min(st["blocked_while_producing"], 3)))
    sim.nontrivial = (nprod >= 2 and st["blocked_while_producing"] > 0) or sim.probes.get("line_preemption", 0) > 0


MUTANTS = [
    "base.callFromThread without self.wakeUp() -> CAUGHT lost-wakeup-deadlock / prompt-no-sleep-while-call-pending",
    "base.runUntilCurrent: del self.threadCallQueue[:] instead of [:count] (drops concurrently appended calls) -> CAUGHT lost-wakeup-deadlock / each-call-exactly-once",
    "base.runUntilCurrent without the re-wakeUp when calls remain -> survives: equivalent, the appending thread always calls wakeUp itself",
    "base.callFromThread: calls with keyword arguments are inserted at the head of threadCallQueue -> CAUGHT per-thread-order / each-call-exactly-once (keyword-call family)",
    "asyncioreactor.callFromThread: calls with keyword arguments scheduled with callLater(1e-6) instead of 0 -> CAUGHT per-thread-order / prompt-no-sleep-while-call-pending (keyword-call family)",
    "base.crash() also empties threadCallQueue -> CAUGHT lost-wakeup-deadlock / prompt-no-sleep-while-call-pending (restart family: calls queued when the run was crashed never run in the next run)",
    "seeded C13-r4a (asyncio: positional-only calls bypass the timed-call route the keyword calls keep) -> CAUGHT per-thread-order:asyncio",
    "base.wakeUp: no wake-up byte once stop() has been called (seeded C13-r5a) -> CAUGHT lost-wakeup-deadlock / prompt-no-sleep-while-call-pending on select/poll/epoll (asynchronous-shutdown family)",
    "selectreactor._preenDescriptors: the reactor's internal readers are not probed and so fall out of _reads (seeded C13-r5b) -> CAUGHT lost-wakeup-deadlock / prompt-no-sleep-while-call-pending:select (dying-descriptor family)",
    "base.callFromThread: wakeUp() only `if not threadable.isInIOThread()` (+ timeout() 0 while the queue is non-empty; seeded C13-r6a) -> CAUGHT lost-wakeup-deadlock / "
    "prompt-no-sleep-while-call-pending on select/poll/epoll (companion-reactor family: the registered I/O thread is the OTHER reactor's)",
    "FINDING put aside as an OBSERVATION outside the statement (unchanged tree, not repaired; only with knob COARSE_CLOCK_P > 0): on a clock whose consecutive readings tie, AsyncioSelectorReactor runs the calls of one thread out of order -> per-thread-order:asyncio "
    "(callFromThread = callLater(0); DelayedCall ordering has no tie-break); select/poll/epoll hold on the same clocks.  Knob deliberately left at 0.0",
    "seeded C13-r4b (asyncio: crash() cancels the loop timer but keeps _scheduledAt; after crash from a hook / I/O callback with a due timer armed, the next run never runs thread calls) -> CAUGHT lost-wakeup-deadlock:asyncio",
]
