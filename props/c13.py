"""C13 — callFromThread runs each call once, in per-thread order, promptly.

Engines E5 + E4.  A real select / poll / epoll / asyncio reactor runs its real
`run()` main loop on one baton thread, over the fake kernel's pollers; 1..6
producer baton threads issue `callFromThread` calls.  The reactor waker keeps
its real OS pipe (asyncio: its real socketpair); the fake pollers test those
real fds with a zero-timeout select.  Pre-emption points: every poller
entry/exit and, with tape-drawn probability, every *line* executed inside
base.py, posixbase.py, _signals.py and asyncioreactor.py — so a producer can be
descheduled between `threadCallQueue.append` and `wakeUp`, the reactor between
draining the queue and deleting the drained slice, etc.

Promptness is stated without timing: while an issued call is un-run, the
simulator must never have to advance simulated time (i.e. the reactor must not
be asleep in its poller with nothing ready and nobody else runnable); with an
infinite poll timeout that state is a deadlock (lost wake-up).
"""
from twisted.internet import protocol

from detsim import kernel as K, reactors as R, threads as T

ID = "C13"
ENGINE = "threads+kernel"
LEVEL = "exploration"
TECHNIQUE = "deterministic simulation: real reactor main loop + producer threads as baton threads over fake pollers, tape-chosen interleaving incl. line-level pre-emption; lost wake-up = forced clock advance or deadlock"
QUICK_RUNS = 1600
BATCH = 20
COMPONENTS = {"real": ["twisted.internet.base.ReactorBase.callFromThread/runUntilCurrent/wakeUp/mainLoop", "twisted.internet.posixbase._UnixWaker (real OS pipe)",
                       "selectreactor/pollreactor/epollreactor doIteration", "asyncioreactor.AsyncioSelectorReactor.callFromThread/run + asyncio's SelectorEventLoop (real self-pipe)"],
              "stub": ["OS thread scheduling (detsim.threads baton)", "select/poll/epoll/selector syscalls (detsim.kernel pollers; real fds polled with zero timeout)", "wall clock"]}
RULE = ("run = one tape-chosen reactor running its real main loop, 1..6 producer threads each issuing 1..12 callFromThread calls (some calls re-issue callFromThread from the reactor thread; in half of the runs a fifth of the calls raise after doing their work), "
        "far-future timers and an idle listening socket present; interleaving chosen at poller boundaries and at lines of the reactor source with probability p in {0, .05, .2} under a uniform scheduler, or under a PCT (priority) scheduler with few long-lasting pre-emptions; "
        "non-trivial = >= 2 producers and the reactor actually blocked in its poller at least once while producers were still running, or a line-level pre-emption fired")
ASSUMPTIONS = ["the reactor's clock is strictly increasing between two readings (monotonic clock with sub-call resolution)", "CPython list.append / slice deletion are atomic between trace 'line' events (the GIL guarantee the code relies on)",
               "quantifier's 10^4-call figure is not reached: <= 72 calls per run (depth is bounded by baton hand-over cost, not soundness)"]
RUN_WALL_LIMIT_S = 60


def run(sim):
    kind = sim.draw_choice(list(R.KINDS), "reactor")
    nprod = sim.draw_int(1, 6, "producers")
    preempt = sim.draw_choice([0.0, 0.05, 0.2], "preempt_p")
    with_timer = sim.draw_bool(0.5, "far_timer")
    policy = sim.draw_choice(["uniform", "pct"], "sched_policy")
    if policy == "pct" and preempt:
        preempt = sim.draw_choice([0.004, 0.015], "pct_change_p")   # few, long-lasting pre-emptions (see detsim.threads.Scheduler)
    raising = sim.draw_bool(0.5, "raising_calls")
    sim.config = {"reactor": kind, "producers": nprod, "preempt_p": preempt, "far_timer": with_timer, "policy": policy, "raising_calls": raising}
    now = [0.0]
    kern = K.Kernel(sim)
    kern.permute_ready = False
    files = ("internet/base.py", "internet/posixbase.py", "internet/_signals.py", "internet/asyncioreactor.py", "internet/selectreactor.py",
             "internet/pollreactor.py", "internet/epollreactor.py")
    sched = T.Scheduler(sim, trace_files=files if preempt else (), preempt_p=preempt, policy=policy)
    issued = []          # (producer, k) in issue order
    ran = []             # (producer, k) in run order
    ran_thread = []
    st = {"asleep": None, "producers_done": False, "blocked_while_producing": 0, "reactor_thread": None, "stopping": False}

    def idle(timeout, scan):
        # called on the reactor thread when its poller found nothing ready
        deadline = None if timeout is None else now[0] + timeout
        st["asleep"] = (deadline,)
        if not st["producers_done"]:
            st["blocked_while_producing"] += 1
            sim.probe("reactor_blocked_in_poller")
        sched.block_until(lambda: scan() or (deadline is not None and now[0] >= deadline), "poll")
        st["asleep"] = None

    kern.idle = idle

    def advance_clock():
        """Scheduler idle hook: nobody is runnable.  If the reactor sleeps with a finite timeout the only way on is to
        advance simulated time — which must never be necessary while an issued call has not run."""
        a = st["asleep"]
        if a is None or a[0] is None:
            return False
        pending = len(issued) - len(ran)
        sim.check("prompt-no-sleep-while-call-pending", pending == 0 or st["stopping"], kind,
                  lambda: "reactor asleep in its poller (finite timeout) with %d issued call(s) not run and no other runnable thread: lost wake-up" % pending)
        now[0] = a[0]
        sim.probe("clock_advanced_while_idle")
        return True

    sched.idle_hook = advance_clock
    r = None
    with R.installed(kern):
        try:
            def clock_read():
                # a monotonic clock whose resolution is finer than the spacing of two readings (true of
                # CLOCK_MONOTONIC on Linux): every reading is strictly later than the previous one.  With a frozen
                # clock the asyncio reactor's callFromThread (implemented as callLater(0)) ties on the timed-call heap
                # and runs same-thread calls out of order - an artefact of a frozen clock, not claimed as a defect.
                now[0] += 1e-7
                return now[0]

            r = R.make_reactor(kind, kern, clock_read)
            port = r.listenTCP(0, protocol.Factory(), interface="127.0.0.1")   # an unrelated, idle descriptor
            if with_timer:
                r.callLater(1000.0, lambda: None)                              # an unrelated, far timer

            def record(p, k, again, boom=False):
                ran.append((p, k))
                ran_thread.append(sched.me())
                if again:
                    # a call issued from the reactor thread itself
                    issued.append(("r" + p, k))
                    r.callFromThread(record, "r" + p, k, False)
                if boom:
                    # a call may fail; the reactor logs the failure and every other call still runs exactly once
                    sim.fault("call_raised")
                    raise RuntimeError("call %s/%d fails" % (p, k))

            def reactor_main():
                st["reactor_thread"] = sched.me()
                r.run(installSignalHandlers=False)

            def producer(p, n):
                for k in range(n):
                    for _ in range(sim.draw_int(0, 2, "pause")):
                        sched.point("producer-pause")
                    again = sim.draw_bool(0.15, "again")
                    boom = raising and sim.draw_bool(0.2, "raises")
                    issued.append(("p%d" % p, k))
                    sim.event("issue", p, k)
                    r.callFromThread(record, "p%d" % p, k, again, boom)

            rt = sched.spawn("reactor", reactor_main)
            prods = [sched.spawn("prod%d" % p, producer, p, sim.draw_int(1, 12, "ncalls")) for p in range(nprod)]
            def lost(e):
                pending = len(issued) - len(ran)
                sim.fail("lost-wakeup-deadlock" if pending else "deadlock", kind,
                         "no runnable thread; reactor parked in its poller with %d issued call(s) not run: %s" % (pending, e))

            with sim.guard("thread-raised", kind):
                try:
                    sched.run(max_steps=400000, until=lambda: all(t.state == "done" for t in prods))
                    st["producers_done"] = True
                    # bounded liveness: once producers are done every issued call runs within a step budget
                    sched.run(max_steps=50000, until=lambda: len(ran) >= len(issued) and len(issued) > 0)
                except T.Deadlock as e:
                    lost(e)
            sim.check("all-calls-ran-within-budget", len(ran) >= len(issued), kind,
                      lambda: "%d of %d issued calls ran within the step budget after the last producer finished" % (len(ran), len(issued)))
            # stop the reactor from a thread, as applications do
            st["stopping"] = True
            stopper = sched.spawn("stopper", lambda: r.callFromThread(r.stop))
            with sim.guard("thread-raised", kind):
                try:
                    sched.run(max_steps=50000, until=lambda: rt.state == "done")
                except T.Deadlock as e:
                    sim.fail("stop-not-delivered", kind, "reactor.stop issued with callFromThread never ran: %s" % e)
            sim.check("reactor-stopped", rt.state == "done", kind, "reactor main loop did not finish after callFromThread(stop)")
        finally:
            sched.shutdown()
            if r is not None:
                R.teardown(r)
    # history checks
    sim.check("each-call-exactly-once", sorted(ran) == sorted(issued) and len(set(ran)) == len(ran), kind,
              lambda: "issued %d calls, ran %d; duplicates=%r missing=%r" % (len(issued), len(ran), sorted(x for x in set(ran) if ran.count(x) > 1)[:3],
                                                                           sorted(set(issued) - set(ran))[:3]))
    sim.check("ran-on-reactor-thread", all(t is st["reactor_thread"] for t in ran_thread), kind, "a call ran outside the reactor thread")
    per = {}
    for p, k in ran:
        per.setdefault(p, []).append(k)
    bad = sorted(str(p) for p, ks in per.items() if ks != sorted(ks))
    sim.check("per-thread-order", not bad, kind, lambda: "calls of producer(s) %s ran out of issue order: %r" % (bad, {b: per.get(b) for b in bad[:2]}))
    sim.sim_time += now[0]
    sim.state((kind, nprod, preempt, min(st["blocked_while_producing"], 3)))
    sim.nontrivial = (nprod >= 2 and st["blocked_while_producing"] > 0) or sim.probes.get("line_preemption", 0) > 0


MUTANTS = [
    "base.callFromThread without self.wakeUp() -> CAUGHT lost-wakeup-deadlock / prompt-no-sleep-while-call-pending",
    "base.runUntilCurrent: del self.threadCallQueue[:] instead of [:count] (drops concurrently appended calls) -> CAUGHT lost-wakeup-deadlock / each-call-exactly-once",
    "base.runUntilCurrent without the re-wakeUp when calls remain -> survives: equivalent, the appending thread always calls wakeUp itself",
]
