"""C13 — callFromThread runs each call once, in per-thread order, promptly.

Engines E5 + E4.  A real select / poll / epoll / asyncio reactor runs its real
`run()` main loop on one baton thread, over the fake kernel's pollers; 1..6
producer baton threads issue `callFromThread` calls.  The reactor waker keeps
its real OS pipe (asyncio: its real socketpair); the fake pollers test those
real fds with a zero-timeout select.  Pre-emption points: every poller
entry/exit and, with tape-drawn probability, every *line* executed inside
base.py, posixbase.py, _signals.py and asyncioreactor.py — so a producer can be
descheduled between `threadCallQueue.append` and `wakeUp`, the reactor between
draining the queue and deleting the drained slice, etc.

Two further families.  (1) callFromThread(f, *args, **kwargs): in half of the runs
a third of the issued calls carry keyword arguments (some or all of their
arguments), mixed with positional calls of the same thread.  (2) State carried
across uses: in four runs of ten the reactor is crash()ed - from a thread call,
a callWhenRunning hook, a timed call or the I/O callback of an inbound
connection, with unrelated short timers armed or not - and run() again, once or
twice, on the same thread (crash() + run() is the supported restart; a stop()ped
reactor is not restartable).  Producers keep issuing across the restart and
further producers start once the later run has started; every call, whichever
run it was issued in, is judged by the same clauses.

Promptness is stated without timing: while an issued call is un-run, the
simulator must never have to advance simulated time (i.e. the reactor must not
be asleep in its poller with nothing ready and nobody else runnable); with an
infinite poll timeout that state is a deadlock (lost wake-up).
"""
from twisted.internet import protocol

from detsim import kernel as K, reactors as R, threads as T

ID = "C13"
ENGINE = "threads+kernel"
LEVEL = "exploration"
TECHNIQUE = "deterministic simulation: real reactor main loop + producer threads as baton threads over fake pollers, tape-chosen interleaving incl. line-level pre-emption; lost wake-up = forced clock advance or deadlock"
QUICK_RUNS = 1400
BATCH = 20
COMPONENTS = {"real": ["twisted.internet.base.ReactorBase.callFromThread/runUntilCurrent/wakeUp/mainLoop", "twisted.internet.posixbase._UnixWaker (real OS pipe)",
                       "selectreactor/pollreactor/epollreactor doIteration", "asyncioreactor.AsyncioSelectorReactor.callFromThread/run + asyncio's SelectorEventLoop (real self-pipe)"],
              "stub": ["OS thread scheduling (detsim.threads baton)", "select/poll/epoll/selector syscalls (detsim.kernel pollers; real fds polled with zero timeout)", "wall clock"]}
RULE = ("run = one tape-chosen reactor running its real main loop, 1..6 producer threads each issuing 1..12 callFromThread calls (some calls re-issue callFromThread from the reactor thread; in half of the runs a fifth of the calls raise after doing their work; "
        "in half of the runs three calls of ten pass some or all of their arguments as keyword arguments), far-future timers and a listening socket present; "
        "in 4 runs of 10 the reactor is crash()ed once or twice - from a thread call, a callWhenRunning hook, a timed call or the I/O callback of an inbound connection, with or without "
        "a short unrelated timer armed - and run() again on the same thread, 1..2 more producers of 1..6 calls starting once that later run has started while the earlier ones carry on; interleaving chosen at poller boundaries and at lines of the reactor source with probability p in {0, .05, .2} under a uniform scheduler, or under a PCT (priority) scheduler with few long-lasting pre-emptions; "
        "non-trivial = >= 2 producers and the reactor actually blocked in its poller at least once while producers were still running, or a line-level pre-emption fired")
ASSUMPTIONS = ["the reactor's clock is strictly increasing between two readings (monotonic clock with sub-call resolution)", "CPython list.append / slice deletion are atomic between trace 'line' events (the GIL guarantee the code relies on)",
               "quantifier's 10^4-call figure is not reached: <= 72 calls per run, + <= 24 in runs with restarts (depth is bounded by baton hand-over cost, not soundness)",
               "restart family: a call issued by a still-running producer between crash() and the next run() is expected to run (once, in order) in that next run - the unchanged reactors queue it; "
               "nothing is demanded of its latency until the reactor sleeps in its poller again",
               "short timers are 0..5e-6 s (0..50 clock readings): the poll reactor truncates timeouts to whole milliseconds and busy-polls the remainder one clock reading at a time"]
RUN_WALL_LIMIT_S = 60
# short timer delays, in units of the simulated clock's resolution (1e-7 s per reading): the poll reactor truncates its timeout to whole
# milliseconds and busy-polls for the rest, one clock reading at a time, so longer delays only buy thousands of empty iterations
DELAYS = (0, 1e-6, 5e-6)
CRASH_FROM = ("thread", "hook", "timer", "io")   # where reactor.crash() is called from: a thread call, a callWhenRunning hook, a timed call, an I/O callback


def run(sim):
    kind = sim.draw_choice(list(R.KINDS), "reactor")
    nprod = sim.draw_int(1, 6, "producers")
    preempt = sim.draw_choice([0.0, 0.05, 0.2], "preempt_p")
    with_timer = sim.draw_bool(0.5, "far_timer")
    policy = sim.draw_choice(["uniform", "pct"], "sched_policy")
    if policy == "pct" and preempt:
        preempt = sim.draw_choice([0.004, 0.015], "pct_change_p")   # few, long-lasting pre-emptions (see detsim.threads.Scheduler)
    raising = sim.draw_bool(0.5, "raising_calls")
    kw_p = sim.draw_choice([0.0, 0.3], "keyword_calls_p")          # share of the issued calls that carry keyword arguments
    ncrash = sim.draw_weighted([(0, 6), (1, 3), (2, 1)], "restarts")   # the reactor is crash()ed and run() again this many times
    plan = [sim.draw_choice(CRASH_FROM, "crash_from") for _ in range(ncrash)]
    near_p = sim.draw_choice([0.0, 0.5], "near_timer_p")            # an unrelated short timer is armed before a run() with this probability
    sim.config = {"reactor": kind, "producers": nprod, "preempt_p": preempt, "far_timer": with_timer, "policy": policy, "raising_calls": raising,
                  "keyword_calls_p": kw_p, "restarts": plan, "near_timer_p": near_p}
    now = [0.0]
    kern = K.Kernel(sim)
    kern.permute_ready = False
    files = ("internet/base.py", "internet/posixbase.py", "internet/_signals.py", "internet/asyncioreactor.py", "internet/selectreactor.py",
             "internet/pollreactor.py", "internet/epollreactor.py")
    sched = T.Scheduler(sim, trace_files=files if preempt else (), preempt_p=preempt, policy=policy)
    issued = []          # (producer, k) in issue order
    ran = []             # (producer, k) in run order
    ran_thread = []
    st = {"asleep": None, "producers_done": False, "blocked_while_producing": 0, "reactor_thread": None, "stopping": False,
          "started": 0, "crashes": 0, "restart": False}

    def idle(timeout, scan):
        # called on the reactor thread when its poller found nothing ready
        deadline = None if timeout is None else now[0] + timeout
        st["asleep"] = (deadline,)
        if not st["producers_done"]:
            st["blocked_while_producing"] += 1
            sim.probe("reactor_blocked_in_poller")
        sched.block_until(lambda: scan() or (deadline is not None and now[0] >= deadline), "poll")
        st["asleep"] = None

    kern.idle = idle

    def advance_clock():
        """Scheduler idle hook: nobody is runnable.  If the reactor sleeps with a finite timeout the only way on is to
        advance simulated time — which must never be necessary while an issued call has not run."""
        a = st["asleep"]
        if a is None or a[0] is None:
            return False
        pending = len(issued) - len(ran)
        sim.check("prompt-no-sleep-while-call-pending", pending == 0 or st["stopping"], kind,
                  lambda: "reactor asleep in its poller (finite timeout) with %d issued call(s) not run and no other runnable thread: lost wake-up" % pending)
        now[0] = a[0]
        sim.probe("clock_advanced_while_idle")
        return True

    sched.idle_hook = advance_clock
    r = None
    with R.installed(kern):
        try:
            def clock_read():
                # a monotonic clock whose resolution is finer than the spacing of two readings (true of
                # CLOCK_MONOTONIC on Linux): every reading is strictly later than the previous one.  With a frozen
                # clock the asyncio reactor's callFromThread (implemented as callLater(0)) ties on the timed-call heap
                # and runs same-thread calls out of order - an artefact of a frozen clock, not claimed as a defect.
                now[0] += 1e-7
                return now[0]

            r = R.make_reactor(kind, kern, clock_read)

            def do_crash(how):
                # always runs on the reactor thread, inside run(): crash() + run() is the supported way to restart a reactor
                st["crashes"] += 1
                st["restart"] = True
                sim.fault("crash_from_" + how)
                sim.event("crash", how)
                r.crash()

            class Visitor(protocol.Protocol):
                def connectionMade(self):
                    do_crash("io")

            factory = protocol.Factory()
            factory.protocol = Visitor
            port = r.listenTCP(0, factory, interface="127.0.0.1")               # an unrelated descriptor, idle unless a run is crashed from its I/O callback
            addr = port.getHost()
            if with_timer:
                r.callLater(1000.0, lambda: None)                              # an unrelated, far timer

            def issue(name, k, again, boom):
                """One callFromThread call; callFromThread(f, *args, **kwargs) accepts keyword arguments as well."""
                style = sim.draw_weighted([("positional", 2), ("keyword", 2), ("all-keyword", 1)], "call_style") if kw_p and sim.draw_bool(kw_p, "keyword_call") else "positional"
                issued.append((name, k))
                if st["started"] > 1:
                    sim.probe("call_issued_in_a_later_run")
                if style == "positional":
                    r.callFromThread(record, name, k, again, boom)
                elif style == "keyword":
                    sim.probe("call_with_keyword_arguments")
                    r.callFromThread(record, name, k, boom=boom, again=again)
                else:
                    sim.probe("call_with_keyword_arguments")
                    r.callFromThread(record, again=again, k=k, p=name, boom=boom)

            def record(p, k, again=False, boom=False):
                ran.append((p, k))
                ran_thread.append(sched.me())
                if again:
                    # a call issued from the reactor thread itself
                    issue("r" + p, k, False, False)
                if boom:
                    # a call may fail; the reactor logs the failure and every other call still runs exactly once
                    sim.fault("call_raised")
                    raise RuntimeError("call %s/%d fails" % (p, k))

            def on_start():
                st["started"] += 1

            def near_timer_fired():
                sim.probe("near_timer_fired")

            def reactor_main():
                st["reactor_thread"] = sched.me()
                run_no = 0
                while True:
                    # what an application does between two run()s: startup hooks, timers
                    r.callWhenRunning(on_start)
                    if near_p and sim.draw_bool(near_p, "near_timer"):
                        r.callLater(sim.draw_choice(DELAYS, "near_delay"), near_timer_fired)   # an unrelated, short timer
                    how = plan[run_no] if run_no < ncrash else None
                    if how == "hook":
                        r.callWhenRunning(do_crash, "hook")
                    elif how == "timer":
                        r.callLater(sim.draw_choice(DELAYS, "crash_delay"), do_crash, "timer")
                    st["restart"] = False
                    r.run(installSignalHandlers=False)
                    if not st["restart"]:
                        return
                    run_no += 1
                    sim.probe("reactor_run_again_after_crash")

            def producer(p, n, group):
                if group:
                    # producers of a later group start once that run of the reactor has started
                    sched.block_until(lambda: st["started"] > group, "run-started")
                for k in range(n):
                    for _ in range(sim.draw_int(0, 2, "pause")):
                        sched.point("producer-pause")
                    again = sim.draw_bool(0.15, "again")
                    boom = raising and sim.draw_bool(0.2, "raises")
                    sim.event("issue", p, k)
                    issue("p%d" % p, k, again, boom)

            def crasher(g, how):
                # ends run number g of the reactor from a thread call, or from the I/O callback of an inbound connection
                sched.block_until(lambda: st["started"] > g, "run-started")
                for _ in range(sim.draw_int(0, 8, "crash_pause")):
                    sched.point("crasher-pause")
                if how == "thread":
                    r.callFromThread(do_crash, "thread")
                else:
                    c = kern.socket()
                    c.connect_ex((addr.host, addr.port))
                    sched.point("syn-sent")
                    kern.fire("connect", c)

            rt = sched.spawn("reactor", reactor_main)
            prods = [sched.spawn("prod%d" % p, producer, p, sim.draw_int(1, 12, "ncalls"), 0) for p in range(nprod)]
            for g in range(ncrash):
                if plan[g] in ("thread", "io"):
                    prods.append(sched.spawn("crasher%d" % g, crasher, g, plan[g]))
                for _ in range(sim.draw_int(1, 2, "late_producers")):
                    prods.append(sched.spawn("prod%d" % len(prods), producer, len(prods), sim.draw_int(1, 6, "late_ncalls"), g + 1))

            def lost(e):
                pending = len(issued) - len(ran)
                sim.fail("lost-wakeup-deadlock" if pending else "deadlock", kind,
                         "no runnable thread; reactor parked in its poller with %d issued call(s) not run: %s" % (pending, e))

            with sim.guard("thread-raised", kind):
                try:
                    sched.run(max_steps=400000, until=lambda: all(t.state == "done" for t in prods))
                    st["producers_done"] = True
                    # bounded liveness: once producers are done every issued call runs within a step budget
                    sched.run(max_steps=50000, until=lambda: len(ran) >= len(issued) and len(issued) > 0)
                except T.Deadlock as e:
                    lost(e)
            sim.check("all-calls-ran-within-budget", len(ran) >= len(issued), kind,
                      lambda: "%d of %d issued calls ran within the step budget after the last producer finished" % (len(ran), len(issued)))
            # stop the reactor from a thread, as applications do
            st["stopping"] = True
            stopper = sched.spawn("stopper", lambda: r.callFromThread(r.stop))
            with sim.guard("thread-raised", kind):
                try:
                    sched.run(max_steps=50000, until=lambda: rt.state == "done")
                except T.Deadlock as e:
                    sim.fail("stop-not-delivered", kind, "reactor.stop issued with callFromThread never ran: %s" % e)
            sim.check("reactor-stopped", rt.state == "done", kind, "reactor main loop did not finish after callFromThread(stop)")
        finally:
            sched.shutdown()
            if r is not None:
                R.teardown(r)
    # history checks
    sim.check("each-call-exactly-once", sorted(ran) == sorted(issued) and len(set(ran)) == len(ran), kind,
              lambda: "issued %d calls, ran %d; duplicates=%r missing=%r" % (len(issued), len(ran), sorted(x for x in set(ran) if ran.count(x) > 1)[:3],
                                                                           sorted(set(issued) - set(ran))[:3]))
    sim.check("ran-on-reactor-thread", all(t is st["reactor_thread"] for t in ran_thread), kind, "a call ran outside the reactor thread")
    per = {}
    for p, k in ran:
        per.setdefault(p, []).append(k)
    bad = sorted(str(p) for p, ks in per.items() if ks != sorted(ks))
    sim.check("per-thread-order", not bad, kind, lambda: "calls of producer(s) %s ran out of issue order: %r" % (bad, {b: per.get(b) for b in bad[:2]}))
    sim.sim_time += now[0]
    sim.state((kind, nprod, preempt, min(st["blocked_while_producing"], 3)))
    sim.nontrivial = (nprod >= 2 and st["blocked_while_producing"] > 0) or sim.probes.get("line_preemption", 0) > 0


MUTANTS = [
    "base.callFromThread without self.wakeUp() -> CAUGHT lost-wakeup-deadlock / prompt-no-sleep-while-call-pending",
    "base.runUntilCurrent: del self.threadCallQueue[:] instead of [:count] (drops concurrently appended calls) -> CAUGHT lost-wakeup-deadlock / each-call-exactly-once",
    "base.runUntilCurrent without the re-wakeUp when calls remain -> survives: equivalent, the appending thread always calls wakeUp itself",
    "base.callFromThread: calls with keyword arguments are inserted at the head of threadCallQueue -> CAUGHT per-thread-order / each-call-exactly-once (keyword-call family)",
    "asyncioreactor.callFromThread: calls with keyword arguments scheduled with callLater(1e-6) instead of 0 -> CAUGHT per-thread-order / prompt-no-sleep-while-call-pending (keyword-call family)",
    "base.crash() also empties threadCallQueue -> CAUGHT lost-wakeup-deadlock / prompt-no-sleep-while-call-pending (restart family: calls queued when the run was crashed never run in the next run)",
    "seeded C13-r4a (asyncio: positional-only calls bypass the timed-call route the keyword calls keep) -> CAUGHT per-thread-order:asyncio",
    "seeded C13-r4b (asyncio: crash() cancels the loop timer but keeps _scheduledAt; after crash from a hook / I/O callback with a due timer armed, the next run never runs thread calls) -> CAUGHT lost-wakeup-deadlock:asyncio",
]
