"""C58 — ClientService keeps one connection and resolves every waiter.

Engine E2 (clock).  A real ClientService (automat machine of
twisted.application._client_service) runs against a simulator endpoint whose
connect() returns Deferreds that the tape later fires with a protocol bound to
a recording transport, fails, or leaves hanging (cancellation is observed), on
sim.clock (through a recording facade, so every timer the service creates is a
retry timer), with a deterministic retryPolicy (a table drawn per run: delays
of exactly zero as int or float, non-monotonic and repeated entries; the
argument it is asked about is recorded) and a scripted
prepareConnection hook (absent, returns, raises, returns a Deferred fired later
with success/failure; on rejection the hook may close the transport itself).

Histories: startService / stopService (also duplicated and before start),
whenConnected(failAfterFailures=None|1|2|3), attempt succeeds / fails / hangs,
established connection drops, close requested by the service is delivered,
clock advances exactly to / short of / past the retry; with the
`callback_restart` knob the application's callbacks on whenConnected and
stopService Deferreds call startService() (restart when cancelled / once
stopped), i.e. also while stopService() or connectionLost() is on the stack;
with the `app_raises` knob the application protocol's own connectionLost raises
in some of the losses (dropped connections and requested closes alike; the
harness, standing in for the reactor, swallows that exception and the history
goes on); with the `companion` knob a second live ClientService built from the
SAME application factory object, with its own endpoint, retry table and
history model, runs on the same clock and the tape alternates between the two
services (both models are audited after every step); with the `failure_kinds`
knob a failing attempt fails in one of several ways (refused, name lookup,
timeout, an application-defined exception, ConnectingCancelledError, a
CancelledError errbacked by the endpoint, or the endpoint abandoning its own
attempt by cancelling the Deferred it handed out) - each is a failed attempt
for the retry policy and for every failAfterFailures countdown; the
`cancel_style` knob chooses what the endpoint's canceller does when its
Deferred is cancelled (nothing, or errback with ConnectingCancelledError /
CancelledError as real endpoints do).

Oracle after every step (written from the statement and the public docs):
open connections + attempts in progress <= 1; every retry timer's delay ==
policy(consecutive failures); no attempt starts while a retry timer is pending
or while the service is stopped; a running service always has a connection, an
attempt or a retry timer; whenConnected Deferreds fire at most once, with a
sane result, and no later than the next established connection / their failure
limit / the completion of stopService; stopService Deferreds fire exactly once,
not before everything that was open at the time of the call is closed, and as
soon as it is; nothing raises - in particular no automat NoTransition
("event-rejected", witness input@state), including ones swallowed by the
attempt's Deferred chain.

The predicted prepareConnection defects (DESIGN section 8; known findings, not
repaired, listed in known_findings.json) each get their own
signature; with `avoid_known` (3 of 4 runs) the hook never rejects and
nothing is dropped or stopped while a prepareConnection Deferred is pending.
"""
from automat import NoTransition
from zope.interface import implementer

from twisted.application import _client_service
from twisted.application.internet import ClientService
from twisted.internet import defer, error
from twisted.internet.address import IPv4Address
from twisted.internet.interfaces import IStreamClientEndpoint
from twisted.internet.protocol import Factory, Protocol
from twisted.python.failure import Failure

from detsim.sim import Violation

ID = "C58"
REENTRANT_ENABLED = False
# Module-level knobs (no environment switches):
AVOID_KNOWN_ALWAYS = False          # True: every run avoids the preconditions of the known prepareConnection findings (not repaired; used for mutant runs)
JUDGE_STOP_BEFORE_START_P = 0.25     # share of the extended runs in which stopService() on a service that was never started must resolve
                                    # the whenConnected Deferreds handed out so far (genuine defect of the tree as first examined, REPAIRED in /repo
                                    # edc5991; 0.0 = no verdict, only for dev-time comparison; see ASSUMPTIONS and the last MUTANTS entry)
ENGINE = "clock"
LEVEL = "exploration"
TECHNIQUE = ("deterministic simulation: seeded start/stop/whenConnected/attempt-outcome/drop/prepareConnection/clock histories "
             "on a real ClientService with a simulator endpoint, SimClock and deterministic retry policy, checked against a history oracle")
QUICK_RUNS = 32000
USES_DEPTH = True   # thorough tier: history length bound scales with sim.depth (1..3) beyond the quick tier\'s run indices
BATCH = 40
RUN_WALL_LIMIT_S = 60   # the machine is shared; a run itself takes about a millisecond
COMPONENTS = {"real": ["twisted.application.internet.ClientService", "twisted.application._client_service (automat machine, _Core, proxies)",
                       "twisted.internet.defer.Deferred", "automat TypeMachine"],
              "stub": ["stream client endpoint (attempt outcome chosen by the tape)", "transport (close delivered by the tape)", "clock (SimClock)",
                       "retryPolicy (table drawn per run and per service)", "prepareConnection hook (scripted)",
                       "application protocol (connectionLost raises when the tape says so)"]}
RULE = ("run = one ClientService (prepareConnection mode none/sync/deferred/mixed drawn), 8..60 tape-chosen operations: startService, stopService, "
        "whenConnected(None|1|2|3), succeed/fail the pending attempt, fire/fail the pending prepareConnection Deferred, drop the open connection, "
        "deliver a requested close, advance the clock to/short of/past the retry; in `extended` runs the retry policy table is drawn (zero, int/float, "
        "non-monotonic, repeated delays) and, with `callback_restart`, callbacks of whenConnected/stopService Deferreds call startService(); "
        "with `app_raises` the application protocol's connectionLost raises in 40% of the losses; with `companion` (35% of the extended runs) a second "
        "live ClientService sharing the application factory object (own endpoint, own drawn retry table, own model, same clock) takes 45% of the "
        "operations and both models are checked after every step; with `failure_kinds` (60% of the extended runs) a failing attempt draws how it fails "
        "(refused / DNS / timeout / application-defined / ConnectingCancelledError / CancelledError errbacked by the endpoint / the endpoint cancels its "
        "own pending Deferred), and `cancel_style` draws what the endpoint's canceller does (silent / errback ConnectingCancelledError / errback CancelledError); "
        "a whenConnected Deferred that fails must fail with the stop's CancelledError or, at its limit, with the failure of the attempt that used the limit up; "
        "non-trivial = at least 2 connection attempts AND (a retry timer fired, an established connection dropped, or stopService found a connection or attempt)")
ASSUMPTIONS = ["operations are issued from outside Deferred callbacks, except startService() in runs with the `callback_restart` knob (a None-returning input, which automat accepts "
               "while another input is being processed) and, in runs with the disabled `reentrant` knob, stopService()/whenConnected() from a whenConnected callback",
               "a whenConnected Deferred cancelled by a stop may observe the service already started again by a callback that ran earlier in the same cascade",
               "any non-negative retry delay is legal, including exactly 0 (the retry then happens as soon as the clock runs its due calls)",
               "a dropped established connection counts as the first consecutive failure for the retry policy (policy(1)), as documented for retryPolicy's argument",
               "whenConnected Deferreds registered on a service that was never started are judged when stopService is called on it in the share "
               "JUDGE_STOP_BEFORE_START_P = 0.25 of the extended runs (read literally the statement covers that history; the tree as first examined left such a "
               "Deferred pending - Init --stop--> Stopped did not cancel the waiters - genuine defect, REPAIRED in /repo edc5991, see the last MUTANTS entry; a "
               "violation is reported as waiter-in-time:stopped-before-start; with the knob at 0.0 the history gets no verdict, which is only for dev-time comparison)",
               "an attempt that ends with CancelledError / ConnectingCancelledError while nobody stopped the service (the endpoint gave up by itself) is a "
               "failed attempt like any other: the retry policy and every failAfterFailures countdown count it; a limited whenConnected Deferred may "
               "therefore legally fail with CancelledError while the service is running, if that is the failure of the attempt that used up its limit",
               "whenConnected Deferreds registered while a stop is in progress and followed by startService before the stop completes wait for the next connection",
               "a connection being closed by the prepareConnection hook itself is not counted as open",
               "an exception raised by the application protocol's own connectionLost is the application's fault and is swallowed by the harness the way a "
               "reactor logs it; the connection is closed all the same, so every clause applies to that loss as to any other (whether the exception "
               "reaches the caller of the proxy's connectionLost is not judged)",
               "two services given the same application factory object are independent: each is judged by its own model only (its own endpoint, policy "
               "table, waiters and stops); they share the clock, so one service's clock operation may fire the other's retry timer"]

KNOWN = ["C58:event-rejected:_clientDisconnected@Connecting", "C58:event-rejected:_clientDisconnected@Waiting",
         "C58:event-rejected:_clientDisconnected@Stopped", "C58:single-connection:attempt+prepare-failed",
         "C58:stop-waits-for-close:prepare-pending", "C58:stop-waits-for-close:prepare-failed",
         "C58:stale-loss-misattributed:current-connection-open",
         "C58:reentrant-call-rejected:stopService", "C58:reentrant-call-rejected:whenConnected"]

DELAYS = [0.5, 1.0, 2.0, 4.0]


class AppError(Exception):
    """Raised by the application protocol's own connectionLost (a fault of the application, not of the service)."""


class EndpointError(Exception):
    """An application-defined way for a connection attempt to fail."""


GAVE_UP = "gave-up"   # the attempt's Deferred was cancelled by the endpoint itself and made its own CancelledError


class App(Protocol):
    conn = None

    def connectionLost(self, reason):
        conn = self.conn
        if conn is not None and conn.app_raises:
            conn.app_raised = True
            raise AppError("application connectionLost failed")


class Transport:
    def __init__(self, conn, on_close):
        self.conn = conn
        self.on_close = on_close
        self.disconnecting = False

    def write(self, data):
        pass

    def writeSequence(self, seq):
        pass

    def loseConnection(self):
        self.disconnecting = True
        self.on_close(self.conn, "lose")

    def abortConnection(self):
        self.disconnecting = True
        self.on_close(self.conn, "abort")

    def getPeer(self):
        return IPv4Address("TCP", "10.0.0.9", 9)

    def getHost(self):
        return IPv4Address("TCP", "10.0.0.1", 1)


class Conn:
    def __init__(self, idx):
        self.idx = idx
        self.open = True
        self.closing = False
        self.hook_closed = False
        self.prepare = "none"     # none | pending | ok | failed
        self.established = False
        self.proxy = None
        self.app = None
        self.pd = None
        self.app_raises = False   # the application protocol's connectionLost will raise
        self.app_raised = False

    def live(self):
        return self.open and not self.hook_closed

    def status(self):
        if self.established:
            return "established"
        return {"pending": "prepare-pending", "failed": "prepare-failed", "ok": "prepared", "none": "connecting"}[self.prepare]


class Attempt:
    def __init__(self, idx):
        self.idx = idx
        self.state = "pending"    # pending | connected | failed | cancelled
        self.d = None
        self.factory = None
        self.examined = False

    def live(self):
        return self.state == "pending"

    def status(self):
        return "attempt"


class RecordingClock:
    def __init__(self, inner, on_sched):
        self.inner = inner
        self.on_sched = on_sched

    def seconds(self):
        return self.inner.seconds()

    def callLater(self, delay, f, *a, **kw):
        dc = self.inner.callLater(delay, f, *a, **kw)
        self.on_sched(dc, delay)
        return dc

    def getDelayedCalls(self):
        return self.inner.getDelayedCalls()


class Waiter:
    def __init__(self, idx, limit):
        self.idx = idx
        self.remaining = limit
        self.results = []
        self.must = None   # reason it must have fired by now


class Stop:
    def __init__(self, idx, alive):
        self.idx = idx
        self.alive = alive
        self.results = []


def run(sim):
    # The only randomness in the code under test is the jitter of the stock backoff policy.  Every run passes its own
    # retryPolicy, so it should never be consulted; it is rebound to a fixed jitter all the same, so that a run in
    # which the service does fall back on it is still reproducible.
    saved = _client_service._defaultPolicy
    _client_service._defaultPolicy = _client_service.backoffPolicy(jitter=lambda: 0.5)
    try:
        _run(sim)
    finally:
        _client_service._defaultPolicy = saved


def _run(sim):
    prepare_mode = sim.draw_choice(["none", "sync", "deferred", "mixed"], "prepare_mode")
    nops = sim.draw_int(8, 60 * sim.depth, "nops")
    avoid = sim.draw_bool(0.75, "avoid_known") or AVOID_KNOWN_ALWAYS
    close_on_reject = sim.draw_bool(0.5, "close_on_reject")
    # Fifth draw: gate of the later-added families (0 = none of them, so that older tapes keep their meaning).
    extended = sim.draw_bool(0.65, "extended")
    delays = list(DELAYS)
    callback_restart = False
    reentrant = False
    app_raises = False
    companion_delays = None
    failure_kinds = False
    cancel_style = "silent"
    judge_unstarted = False
    if extended:
        # retry policy table of this run: any non-negative delay is legal, in particular exactly zero (int or float),
        # tables that are not monotonic, and tables with repeated entries
        delays = [sim.draw_choice([d, 0, 0.0, 0.25, 3], "delay%d" % i) for i, d in enumerate(DELAYS)]
        # the application reacts to the result of a whenConnected / stopService Deferred by calling startService()
        # from inside the callback ("restart when cancelled", "restart once stopped").  startService() returns None,
        # so automat accepts it while another input is being processed.
        callback_restart = sim.draw_bool(0.5, "callback_restart")
        # Re-entrant stopService()/whenConnected() from inside a whenConnected callback raise RuntimeError
        # (automat refuses re-entrant inputs that return a value).  The property statement does not cover
        # that, so no verdict is given: the knob is drawn but disabled.
        reentrant = sim.draw_bool(0.3, "reentrant") and not avoid and REENTRANT_ENABLED
        # (families added later draw after the older ones)
        # the application protocol's own connectionLost raises in some of the losses (the reactor logs that and goes on;
        # the service must have been told about the loss all the same)
        app_raises = sim.draw_bool(0.5, "app_raises")
        # a second, live ClientService built from the SAME application factory object (one factory, several endpoints),
        # with its own endpoint, retry table and model, on the same clock; the tape alternates between the two
        if sim.draw_bool(0.35, "companion"):
            companion_delays = [sim.draw_choice([d, 0, 0.0, 0.25, 3], "delayB%d" % i) for i, d in enumerate([1.5, 0.75, 5.0, 2.5])]
        # an attempt fails in one of several ways: refused, name lookup, timeout, an application-defined exception, the
        # endpoint giving up on its own attempt (it cancels its own pending Deferred, as a timeout wrapper does, or
        # errbacks with CancelledError / ConnectingCancelledError) - every one of them is a failed attempt
        failure_kinds = sim.draw_bool(0.6, "failure_kinds")
        # what the endpoint's canceller does when its Deferred is cancelled (by the service's stop or by the endpoint):
        # nothing (the Deferred fails itself with CancelledError), or errback with the exception real endpoints use
        cancel_style = sim.draw_choice(["silent", "connecting-cancelled", "cancelled"], "cancel_style")
        judge_unstarted = sim.draw_bool(JUDGE_STOP_BEFORE_START_P, "judge_stop_before_start")
    cfg = {"prepare_mode": prepare_mode, "nops": nops, "avoid_known": avoid, "close_on_reject": close_on_reject, "reentrant": reentrant,
           "delays": delays, "callback_restart": callback_restart}
    if extended:
        cfg["app_raises"] = app_raises
        cfg["failure_kinds"] = failure_kinds
        cfg["cancel_style"] = cancel_style
        cfg["judge_stop_before_start"] = judge_unstarted
        if companion_delays is not None:
            cfg["companion_delays"] = companion_delays
    sim.config = cfg
    factory = Factory.forProtocol(App)
    services = [_service(sim, cfg, delays, factory, "")]
    if companion_delays is not None:
        services.append(_service(sim, cfg, companion_delays, factory, "B"))
    for _ in range(nops):
        sim.step(300 * sim.depth)
        svc = services[0]
        if len(services) > 1 and sim.draw_bool(0.45, "other_service"):
            svc = services[1]
            sim.probe("companion_operation")
        for x in services:
            x.m["restarted_in_callback"] = False
        svc.step([x for x in services if x is not svc])
        states = [x.audit() for x in services]
        sim.state(states[0] if len(states) == 1 else tuple(states))
    sim.nontrivial = any(len(x.attempts) >= 2 and bool(x.m["retry_fired"] or x.m["drops"] or x.m["busy_stops"]) for x in services)


class _Service:
    pass


def _service(sim, cfg, delays, factory, tag):
    """One real ClientService with its own endpoint, retry table and history model."""
    prepare_mode, avoid, close_on_reject = cfg["prepare_mode"], cfg["avoid_known"], cfg["close_on_reject"]
    reentrant, callback_restart, app_raises = cfg["reentrant"], cfg["callback_restart"], cfg.get("app_raises", False)
    failure_kinds, cancel_style = cfg.get("failure_kinds", False), cfg.get("cancel_style", "silent")
    judge_unstarted = cfg.get("judge_stop_before_start", False)
    event = sim.event if not tag else (lambda *fields: sim.event("service" + tag, *fields))
    clk = sim.clock
    asked = []

    def policy(n):
        asked.append(n)
        return delays[min(max(n, 1), len(delays)) - 1]

    def expected_delay(n):
        return delays[min(max(n, 1), len(delays)) - 1]

    m = {"running": False, "ever_started": False, "k": 0, "retry_fired": 0, "drops": 0, "busy_stops": 0}
    conns, attempts, waiters, stops, timers = [], [], [], [], []

    def live_things():
        return [c for c in conns if c.live()] + [a for a in attempts if a.live()]

    def check_single(where):
        lv = live_things()
        sim.check("single-connection", len(lv) <= 1, "+".join(sorted(x.status() for x in lv)),
                  lambda: "%s: %d open connections / attempts in progress: %s" % (where, len(lv), ", ".join("%s#%d" % (x.status(), x.idx) for x in lv)))

    def guarded(opname, fn, *a):
        try:
            return fn(*a)
        except (Violation, AppError):
            # (AppError: the application protocol's own failure, handled - "logged" - by whoever delivered the loss)
            raise
        except NoTransition as e:
            sim.fail("event-rejected", "%s@%s" % (e.symbol, getattr(e.state, "name", e.state)),
                     "%s: automat rejected input %s in state %s" % (opname, e.symbol, getattr(e.state, "name", e.state)))
        except Exception as e:
            if m.get("in_callback"):
                sim.fail("reentrant-call-rejected", opname, "%s() called from a whenConnected callback raised %s: %s" % (opname, type(e).__name__, str(e)[:200]))
            sim.fail("no-raise", "%s:%s" % (opname, type(e).__name__), "%s raised %s: %s" % (opname, type(e).__name__, str(e)[:200]))

    # ---------------------------------------------------------------- stubs
    @implementer(IStreamClientEndpoint)
    class Endpoint:
        def connect(self, factory):
            a = Attempt(len(attempts))
            a.factory = factory
            event("connect", a.idx, clk.seconds())
            stale_guard("a new connection attempt was started")
            sim.check("attempt-while-stopped", m["running"], "connect", "endpoint.connect() called while the service is stopped")
            aw = m.get("await_timer")
            if aw is not None:
                sim.check("retry-waits", aw != "unscheduled" and aw.called and not aw.cancelled, "no-delay",
                          "endpoint.connect() at t=%s right after a failure/drop, without waiting for a retry timer" % clk.seconds())
                m["await_timer"] = None
            pend = [dc for dc in timers if dc.active()]
            sim.check("retry-waits", not pend, "connect", lambda: "endpoint.connect() at t=%s while a retry timer is still pending for t=%s" % (clk.seconds(), pend[0].getTime()))

            def cancelled(d):
                if m.get("giving_up") is a:
                    # the endpoint itself abandons its attempt (op_attempt); the service did not ask for this
                    event("attempt-abandoned", a.idx)
                else:
                    event("attempt-cancelled", a.idx)
                    sim.fault("attempt_cancelled_by_stop")
                    a.state = "cancelled"
                if cancel_style != "silent":
                    sim.probe("canceller_errbacks")
                    exc = (error.ConnectingCancelledError(IPv4Address("TCP", "10.0.0.9", 9)) if cancel_style == "connecting-cancelled"
                                          else defer.CancelledError())
                    if m.get("giving_up") is a:
                        m["last_exc"] = exc
                    d.errback(Failure(exc))
            a.d = defer.Deferred(cancelled)
            attempts.append(a)
            check_single("connect()")
            return a.d

    def on_close(conn, how):
        event("transport-close-requested", conn.idx, how)
        conn.closing = True

    def on_sched(dc, delay):
        m["k"] += 1
        event("retry-timer", delay)
        stale_guard("a retry was scheduled")
        want = expected_delay(m["k"])
        sim.check("retry-delay", delay == want, "policy",
                  "retry timer delay %r, policy(%d consecutive failures) = %r" % (delay, m["k"], want))
        sim.check("retry-delay", bool(asked) and asked[-1] == m["k"], "policy-argument",
                  lambda: "retry policy was last asked about %r consecutive failures, the history has %d" % (asked[-1] if asked else None, m["k"]))
        if want == 0:
            sim.probe("zero_delay_retry")
        other = [t for t in timers if t.active()]
        sim.check("one-retry-timer", not other, "timer", "a second retry timer was scheduled while one is pending")
        sim.check("retry-while-stopped", m["running"], "timer", "retry timer scheduled while the service is stopped")
        timers.append(dc)
        if m.get("await_timer") == "unscheduled":
            m["await_timer"] = dc

    def stale_guard(what):
        sim.check("stale-loss-misattributed", not m.get("stale_loss"), "current-connection-open",
                  "the loss of a connection rejected by prepareConnection was taken for the loss of the current connection: "
                  "%s although the established connection is still open" % what)

    def established(conn):
        conn.established = True
        m["k"] = 0
        event("established", conn.idx)
        for w in waiters:
            if not w.results:
                w.must = "connected"

    def chain_failed(exc):
        """An attempt (or its prepareConnection) failed while the service wanted a connection."""
        if not m["running"]:
            return
        m["await_timer"] = "unscheduled"
        m["last_exc"] = exc
        for w in waiters:
            if not w.results and w.remaining is not None:
                w.remaining -= 1
                if w.remaining <= 0:
                    w.must = "failure-limit"

    def hook(proto):
        conn = proto.conn
        kinds = {"sync": [("ok", 4), ("fail", 0 if avoid else 2)], "deferred": [("deferred", 1)],
                 "mixed": [("ok", 2), ("deferred", 3), ("fail", 0 if avoid else 1)]}[prepare_mode]
        kind = sim.draw_weighted(kinds, "prepare")
        event("prepareConnection", conn.idx, kind)
        if kind == "ok":
            conn.prepare = "ok"
            established(conn)
            return "ignored"
        if kind == "fail":
            exc = RuntimeError("rejected by prepareConnection")
            reject(conn, exc)
            raise exc
        conn.prepare = "pending"
        conn.pd = defer.Deferred()
        sim.probe("prepare_deferred")
        return conn.pd

    def reject(conn, exc):
        conn.prepare = "failed"
        sim.fault("prepare_rejected")
        if close_on_reject:
            conn.hook_closed = True
            conn.app.transport.loseConnection()
        chain_failed(exc)

    svc = ClientService(Endpoint(), factory, retryPolicy=policy, clock=RecordingClock(clk, on_sched),
                        prepareConnection=None if prepare_mode == "none" else hook)

    # ---------------------------------------------------------------- observation helpers
    def current_established():
        for c in conns:
            if c.open and c.established:
                return c
        return None

    def watch_waiter(w, d):
        def rec(res):
            w.results.append(res)
            event("whenConnected-fired", w.idx, "F:" + res.type.__name__ if isinstance(res, Failure) else "protocol")
            if len(w.results) > 1:
                return None
            stale_guard("a whenConnected Deferred fired")
            if isinstance(res, Failure):
                last = m.get("last_exc")
                at_limit = w.remaining is not None and w.remaining <= 0
                # the failure of the attempt that used up the limit (GAVE_UP: a CancelledError made by the abandoned Deferred itself)
                the_attempts = res.value is last or (last is GAVE_UP and res.type is defer.CancelledError)
                if res.check(defer.CancelledError) and not (at_limit and the_attempts):
                    # (a callback that ran earlier in the same cascade may already have started the service again)
                    sim.check("waiter-result", not m["running"] or m.get("restarted_in_callback"), "cancelled-while-running", "whenConnected #%d failed with CancelledError while the service is running" % w.idx)
                else:
                    sim.check("waiter-result", at_limit, "early-failure",
                              "whenConnected #%d (failAfterFailures left %r) failed with %s" % (w.idx, w.remaining, res.type.__name__))
                    sim.check("waiter-result", the_attempts, "not-the-failed-attempts-failure",
                              lambda: "whenConnected #%d failed with a %s that is not the failure of the attempt that used up its limit (%s)"
                              % (w.idx, res.type.__name__, "CancelledError" if last is GAVE_UP else type(last).__name__))
                    if res.check(defer.CancelledError):
                        sim.probe("limit_reached_by_abandoned_attempt")
            else:
                c = current_established()
                sim.check("waiter-result", c is not None and res is c.app, "not-current-protocol", "whenConnected #%d fired with %r" % (w.idx, type(res).__name__))
            if reentrant and not m.get("in_callback") and sim.draw_bool(0.3, "reenter"):
                # the application reacts to the result by calling back into the service
                m["in_callback"] = True
                sim.fault("reentrant_call")
                try:
                    if sim.draw_bool(0.5, "reenter_stop"):
                        op_stop()
                    else:
                        op_when()
                finally:
                    m["in_callback"] = False
            react_with_start("whenConnected", 0.5 if isinstance(res, Failure) else 0.2)
            return None
        d.addBoth(rec)

    def react_with_start(source, p):
        """The application's callback on a Deferred of the service calls startService()."""
        if not callback_restart or m.get("in_callback"):
            return
        if any(c.open and not c.established for c in conns):
            # a connection that prepareConnection rejected or has not accepted yet is still open: precondition of the
            # known prepareConnection findings (only in runs without avoid_known); starting now would only re-report them
            return
        if not sim.draw_bool(p, "restart_in_callback"):
            return
        sim.fault("start_from_%s_callback" % source)
        if m.get("inside"):
            sim.probe("start_while_%s_on_stack" % m["inside"])
        if not m["running"]:
            m["restarted_in_callback"] = True
            if m["ever_started"] and not live_things():
                # the stop is complete: whatever was waiting is resolved by it, not by the service started now
                for w in waiters:
                    if not w.results:
                        w.must = w.must or "stopped"
        m["in_callback"] = True
        try:
            op_start()
        finally:
            m["in_callback"] = False

    def watch_stop(s, d):
        def rec(res):
            s.results.append(res)
            event("stopService-fired", s.idx)
            stale_guard("a stopService Deferred fired")
            still = [x for x in s.alive if x.live()]
            sim.check("stop-waits-for-close", not still, "+".join(sorted(x.status() for x in still)),
                      lambda: "stopService Deferred #%d fired while %s still open" % (s.idx, ", ".join("%s#%d" % (x.status(), x.idx) for x in still)))
            if len(s.results) == 1:
                react_with_start("stopService", 0.4)
            return None
        d.addBoth(rec)

    def audit():
        if sim.violation is not None:
            raise sim.violation
        # exceptions swallowed by an attempt's Deferred chain
        for a in attempts:
            if a.examined or not a.d.called or isinstance(getattr(a.d, "result", None), defer.Deferred):
                continue
            res = getattr(a.d, "result", None)
            a.examined = True
            if isinstance(res, Failure):
                a.d.addErrback(lambda f: None)
                if res.check(NoTransition):
                    e = res.value
                    sim.fail("event-rejected", "%s@%s" % (e.symbol, getattr(e.state, "name", e.state)),
                             "attempt #%d: automat rejected input %s in state %s (swallowed by the attempt's Deferred)" % (a.idx, e.symbol, getattr(e.state, "name", e.state)))
                sim.fail("no-raise", "attempt-chain:%s" % res.type.__name__, "attempt #%d chain ended with %s: %s" % (a.idx, res.type.__name__, res.getErrorMessage()[:200]))
        check_single("after step")
        lv = live_things()
        if not m["running"] and m["ever_started"] and not lv and not m.get("restart_pending"):
            for w in waiters:
                if not w.results:
                    w.must = w.must or "stopped"
        for w in waiters:
            sim.check("waiter-once", len(w.results) <= 1, "whenConnected", "whenConnected #%d fired %d times" % (w.idx, len(w.results)))
            if w.must is not None:
                sim.check("waiter-in-time", len(w.results) == 1, w.must, "whenConnected #%d has not fired although: %s" % (w.idx, w.must))
        for s in stops:
            sim.check("stop-once", len(s.results) <= 1, "stopService", "stopService Deferred #%d fired %d times" % (s.idx, len(s.results)))
            if not [x for x in s.alive if x.live()]:
                sim.check("stop-fires", len(s.results) == 1, "stopService", "everything open at stopService #%d is closed but its Deferred has not fired" % s.idx)
        if m["running"]:
            busy = lv or [dc for dc in timers if dc.active()] or [c for c in conns if c.open and c.hook_closed]
            sim.check("makes-progress", bool(busy), "idle", "service is running but has no connection, no attempt in progress and no retry timer")
        else:
            sim.check("no-stray-retry", not [dc for dc in timers if dc.active()], "timer", "a retry timer is pending although the service is stopped")
        timers[:] = [dc for dc in timers if dc.active()]
        if not lv:
            m["restart_pending"] = False
        c = current_established()
        return (m["running"], len(lv), bool(timers), c is not None, sum(1 for w in waiters if not w.results) > 0,
                   sum(1 for s in stops if not s.results) > 0, min(m["k"], 4),
                   tuple(sorted(x.status() for x in conns if x.open)))

    # ---------------------------------------------------------------- operations
    def op_start():
        event("startService", "dup" if m["running"] else "-")
        if not m["running"] and live_things() and m["ever_started"]:
            m["restart_pending"] = True
            sim.probe("restart_while_disconnecting")
        m["running"] = True
        m["ever_started"] = True
        guarded("startService", svc.startService)

    def op_stop():
        lv = live_things()
        event("stopService", len(lv))
        if lv and m["running"]:
            m["busy_stops"] += 1
        if any(isinstance(x, Conn) and x.prepare == "pending" for x in lv):
            sim.fault("stop_during_prepare")
        m["running"] = False
        m["restart_pending"] = False
        m["await_timer"] = None
        if not m["ever_started"] and any(not w.results for w in waiters):
            # stopService() on a service that was never started, with whenConnected Deferreds outstanding
            sim.probe("stop_before_first_start_with_waiter")
            if judge_unstarted:
                for w in waiters:
                    if not w.results:
                        w.must = w.must or "stopped-before-start"
        s = Stop(len(stops), lv)
        stops.append(s)
        outer, m["inside"] = m.get("inside"), "stopService"
        try:
            d = guarded("stopService", svc.stopService)
        finally:
            m["inside"] = outer
        if d is not None:
            watch_stop(s, d)

    def op_when():
        limit = sim.draw_choice([None, 1, 2, 3], "failAfterFailures")
        w = Waiter(len(waiters), limit)
        waiters.append(w)
        event("whenConnected", w.idx, limit)
        cur = current_established()
        if cur is not None and not cur.closing and m["running"]:
            w.must = "connected"
        elif not m["running"] and m["ever_started"] and not live_things():
            w.must = "stopped"
        d = guarded("whenConnected", svc.whenConnected, limit)
        if d is not None:
            watch_waiter(w, d)

    def op_attempt(a):
        ok = not sim.draw_bool(0.4, "attempt_fails")
        if ok:
            event("attempt-succeeds", a.idx)
            conn = Conn(len(conns))
            conns.append(conn)
            a.state = "connected"
            proxy = guarded("buildProtocol", a.factory.buildProtocol, IPv4Address("TCP", "10.0.0.9", 9))
            conn.proxy = proxy
            conn.app = proxy._protocol
            conn.app.conn = conn
            guarded("makeConnection", proxy.makeConnection, Transport(conn, on_close))
            if prepare_mode == "none":
                established(conn)
            guarded("attempt-callback", a.d.callback, proxy)
        else:
            kind = "refused"
            if failure_kinds:
                kind = sim.draw_weighted([("refused", 3), ("gives-up", 3), ("cancelled-error", 2), ("dns", 1), ("timeout", 1),
                                          ("connecting-cancelled", 1), ("application-defined", 1)], "failure_kind")
            event("attempt-fails", a.idx, kind)
            sim.fault("attempt_failed")
            if kind != "refused":
                sim.probe("attempt_failed_" + kind.replace("-", "_"))
            a.state = "failed"
            if kind == "gives-up":
                # the endpoint abandons its own attempt: it cancels the Deferred it handed out (nobody stopped the service)
                sim.fault("attempt_abandoned_by_endpoint")
                chain_failed(GAVE_UP)
                m["giving_up"] = a
                try:
                    guarded("attempt-abandon", a.d.cancel)
                finally:
                    m["giving_up"] = None
            else:
                exc = {"refused": error.ConnectionRefusedError, "cancelled-error": defer.CancelledError, "dns": error.DNSLookupError,
                       "timeout": error.TimeoutError, "application-defined": EndpointError,
                       "connecting-cancelled": lambda: error.ConnectingCancelledError(IPv4Address("TCP", "10.0.0.9", 9))}[kind]()
                chain_failed(exc)
                guarded("attempt-errback", a.d.errback, Failure(exc))

    def op_prepare(conn):
        ok = True if avoid else not sim.draw_bool(0.4, "prepare_fails")
        event("prepare-fires", conn.idx, "ok" if ok else "fail")
        d, conn.pd = conn.pd, None
        if d.called:
            # cancelled by the service (stop while preparing)
            conn.prepare = "failed"
            return
        if ok:
            conn.prepare = "ok"
            if conn.open:
                established(conn)
            guarded("prepare-callback", d.callback, None)
        else:
            exc = RuntimeError("rejected later")
            reject(conn, exc)
            guarded("prepare-errback", d.errback, Failure(exc))

    def op_lost(conn, why):
        event("connection-lost", conn.idx, why, conn.status())
        if conn.established and why == "drop":
            m["drops"] += 1
            sim.fault("connection_dropped")
            if m["running"]:
                m["await_timer"] = "unscheduled"
        if conn.prepare == "pending":
            sim.fault("lost_during_prepare")
        conn.open = False
        reason = Failure(error.ConnectionDone() if conn.closing else error.ConnectionLost())
        cur = current_established()
        m["stale_loss"] = (not conn.established) and cur is not None and cur is not conn
        if app_raises and sim.draw_bool(0.4, "app_connectionLost_raises"):
            conn.app_raises = True
        if any(o.current_established() is not None for o in m.get("others", ())):
            sim.probe("loss_beside_other_services_connection")
        m["inside"] = "connectionLost"
        try:
            guarded("connectionLost", conn.proxy.connectionLost, reason)
        except AppError:
            # what a reactor does with an exception from a protocol's connectionLost: log it and carry on.  The
            # connection is gone all the same, and the oracle below treats this loss like every other one.
            pass
        finally:
            m["stale_loss"] = False
            m["inside"] = None
        if conn.app_raised:
            sim.fault("app_connectionLost_raised")
            if conn.closing:
                sim.probe("app_raised_on_requested_close")

    def op_clock():
        pend = [dc for dc in timers if dc.active()]
        if pend:
            left = pend[0].getTime() - clk.seconds()
            how = sim.draw_choice(["exact", "short", "past"], "how")
            event("clock", how)
            before = clk.seconds()
            if how == "exact":
                guarded("clock", clk.advance, left)
            elif how == "short":
                guarded("clock", clk.advance, left / 2)
            else:
                guarded("clock", clk.jump, left + 1.25)
            if not pend[0].active():
                m["retry_fired"] += 1
            sim.sim_time += clk.seconds() - before
        else:
            event("clock", "idle")
            guarded("clock", clk.advance, 0.75)
            sim.sim_time += 0.75

    def step(others):
        m["others"] = others
        pend_a = [a for a in attempts if a.live()]
        pend_p = [c for c in conns if c.pd is not None]
        closing = [c for c in conns if c.open and c.closing]
        droppable = [c for c in conns if c.open and not c.closing and (c.prepare != "pending" or not avoid)]
        preparing = any(c.open and c.prepare == "pending" for c in conns)
        can_stop = not (avoid and preparing)
        ops = [("attempt", 10 if pend_a else 0),
               ("deliver-close", 10 if closing else 0),
               ("prepare", 8 if pend_p else 0),
               ("clock", 6),
               ("start", 6 if not m["running"] else 1),
               ("whenConnected", 4),
               ("drop", 3 if droppable else 0),
               ("stop", (3 if m["running"] else 1) if can_stop else 0)]
        op = sim.draw_weighted(ops, "op")
        if op == "attempt":
            op_attempt(pend_a[0])
        elif op == "deliver-close":
            op_lost(sim.draw_choice(closing, "which"), "close")
        elif op == "prepare":
            op_prepare(sim.draw_choice(pend_p, "which"))
        elif op == "clock":
            op_clock()
        elif op == "start":
            op_start()
        elif op == "whenConnected":
            op_when()
        elif op == "drop":
            op_lost(sim.draw_choice(droppable, "which"), "drop")
        else:
            op_stop()

    me = _Service()
    me.m, me.attempts, me.conns, me.step, me.audit, me.current_established = m, attempts, conns, step, audit, current_established
    return me


MUTANTS = [
    '(all run with the module knob AVOID_KNOWN_ALWAYS = True so that the known prepareConnection defects do not end the runs first)',
    "_client_service.py waitForRetry: 's.failedAttempts += 1' -> '= 1': CAUGHT retry-delay",
    "_client_service.py rememberConnection: 's.failedAttempts = 0' removed: CAUGHT retry-delay",
    "_client_service.py Waiting.stop: 'futureRetry.cancel()' removed: CAUGHT no-stray-retry",
    '_client_service.py stopWhileConnected returns succeed(None) instead of waiting: CAUGHT stop-waits-for-close:established',
    "_client_service.py failedWhenConnecting: 'remaining <= 1' -> '<= 0': CAUGHT waiter-in-time:failure-limit",
    '_client_service.py Waiting.stop: cancelConnectWaiters() removed: CAUGHT waiter-in-time:stopped',
    '_client_service.py _Core.unawait keeps the waiter list: CAUGHT no-raise:*:AlreadyCalledError',
    "_client_service.py Connected._clientDisconnected -> Connecting (reconnect without waiting): first SURVIVED, CAUGHT retry-waits:no-delay after adding the 'a failure/drop must be followed by a fired retry timer before the next connect()' clause",
    '_client_service.py restartDone without finishStopping(): CAUGHT stop-fires',
    '_client_service.py connectingStop without attempt.cancel(): CAUGHT stop-fires / single-connection',
    "round 4 (drawn policy table, startService from callbacks): ClientService.stopService clears `running` after machine.stop(): CAUGHT makes-progress:idle; "
    "waitForRetry 'if not delay: delay = _defaultPolicy(...)': CAUGHT retry-delay:policy",
    "round 5 (application connectionLost raises; companion service on the same application factory): _ReconnectingProtocolProxy.connectionLost notifies the "
    "machine only after the application's connectionLost returned normally (try/finally flattened): CAUGHT makes-progress:idle / stop-fires / waiter-in-time:stopped; "
    "attemptConnection caches the _DisconnectFactory per application factory in the machine builder's closure (second service's losses reach the first "
    "service's machine): CAUGHT makes-progress:idle / stop-fires / waiter-in-time:stopped",
    "round 6 (ways an attempt fails, endpoint abandoning its own attempt, canceller styles): failedWhenConnecting returns early for failure.check(CancelledError) "
    "(abandoned attempts not counted against failAfterFailures): CAUGHT waiter-in-time:failure-limit; failedWhenConnecting fires the ready waiters with a "
    "fresh Failure(ConnectionRefusedError()) instead of the attempt's failure: CAUGHT waiter-result:not-the-failed-attempts-failure",
    "GENUINE DEFECT of the tree as first examined, REPAIRED in /repo edc5991 (judged in the JUDGE_STOP_BEFORE_START_P = 0.25 share of the extended runs; 0 only for dev-time "
    "comparison): whenConnected() on a never-started service followed by stopService(): "
    "immediateStop (Init -> Stopped) did not call cancelConnectWaiters(), the Deferred stayed pending although the stop completed (a whenConnected() "
    "issued right after fails at once with CancelledError): waiter-in-time:stopped-before-start, replay replays/C58_10138165_61.json; repair: "
    "'s.cancelConnectWaiters()' added to immediateStop - the check holds with the knob at 0.5",
]
