"""C54 — FTP sessions never touch paths outside the shell's root.

Engine E3 (net) + a filesystem audit seam.  A real ftp.FTP (built by a real
FTPFactory, real Portal/checkers) serves a scratch directory through the real
FTPShell / FTPAnonymousShell over FilePath.  A scripted client logs in and sends
1-25 commands whose path arguments are built from a hostile grammar ('.', '..',
empty segments, absolute forms, the name of a *sibling directory that has the
root's name as a prefix*, the parent's secret file, NUL, backslash, globs,
non-UTF-8 bytes, very long names), relative to a working directory that itself
moves; RNFR/RNTO pairs have other commands in between.  In 40% of the escape
attempts the parent references themselves are written in decorated spellings
(DOT_SPELLINGS: NUL before / inside / after, CR NUL, backslash, %2e and %252e,
trailing dots / blanks / tab, ';' and '#' parameters, control and Telnet IAC bytes,
non-shortest and full-width UTF-8 dots, glob characters), uniformly or mixed
with plain ones, optionally with decorated separators and decorated '.' segments
in between, from every working-directory depth and followed by every kind of
tail (prefix-named sibling, secret, root re-entered by name, new names, globs);
the first name of the tail may be decorated the same way, and paths that stay
inside the root get one decorated '.'/'..' segment now and then.  The command stream is cut
into tape-chosen segments (pipelined lines in one segment, lines split anywhere)
and is only delivered while the server reads (FTP pauses its transport while a
command is in progress).  PASV/EPSV ports are fake listening ports returned by
`FTP.listenFactory`; PORT/EPRT go through a `connectTCP` stub put on the
simulated global reactor; the scenario connects / refuses / never connects the
data channel (DTP timeout on the simulated clock) at tape-chosen moments, feeds
and drains it in tape-chosen pieces, closes it mid-transfer, and may drop the
control connection at a tape-chosen step.

State of the root and refusals by the file system.  The root does not always hold the full tree: in 35% of the runs it is a
chain of empty directories a/b/c, a single file, empty (fresh account / emptied upload area) or DOES NOT EXIST at all when the
client logs in (a home directory nobody created - ftp.FTPRealm hands out userHome.child(name) without looking - or one that an
earlier session removed with 'RMD /'; POPULATIONS) while the client names the same paths, so that operations fail half-way,
create their intermediate directories (up to the root itself), find a non-directory where they expected the root, or leave every
directory up to the root itself empty.  Now and then the client logs in AGAIN in the middle of the session (same or other
account, logged_in_again:* probes): the realm hands out a new shell - fresh FilePath objects, none of the stat results the old
shell had cached - on the file system as the session has left it so far (root emptied, removed, replaced by a file).  New names may lie below new intermediate directories, have a last component
longer than NAME_MAX or be longer than PATH_MAX as a whole (ENAMETOOLONG after the parents were made).  In 20% of the
sessions ONE filesystem call that the server makes on a path inside the root (the k-th mkdir / open / rmdir / remove /
rename / listing, or the k-th of any kind) is refused with a drawn errno (ENOSPC, EACCES, EIO, EROFS, EDQUOT,
ENAMETOOLONG, EPERM, EBUSY, EMFILE, ENOENT, EEXIST): the audit hook raises the OSError, which aborts the call exactly
where the system call would have failed.  When the refused call is a rename the errno may be one of rename(2)'s own (EXDEV, ENOTEMPTY,
EISDIR).  In 15% of the sessions one or more directories of the tree are OTHER FILE SYSTEMS (a mount point inside the account's
directory, nested mounts, every first-level directory its own export): every rename / link across such a boundary is refused
with EXDEV for the whole session.  What the server does next (error reply, clean-up, retry, copy-and-delete fallback, temporary
names) is judged like everything else: by the paths it touches.

The root itself as an argument.  Every command that takes a path gets, now and then (root_spelling:* probes), an argument that
resolves to the root itself, written from the current working directory: '/', exactly as many '..' as the working directory is
deep, a directory entered and left again ('a/b/../..', '/d2/..'), runs of slashes and '.' segments, decorated like the other
arguments.  It is the boundary value of the path parameter: whatever a command derives from its argument (parent, sibling,
temporary name beside it, intermediate directories) lies outside the root then - also where the command expected a file, a
new name or a rename target.

Filesystem audit: one `sys.addaudithook` per process, gated so that it records
only while code under test runs (open, os.listdir/scandir/mkdir/rmdir/remove/
rename/symlink/link/chmod/chown/truncate/utime, shutil.*).  HOME is the scratch
parent during a run, so a '~' that some layer expanded lands next to the secret.

Oracle (the only verdicts)
  fs-confined        an audited path, made absolute and normalised textually, is the root or below it.  Judged:
                     (i) every audited path inside the scratch parent directory of this run (root, prefix-named
                     sibling, secret and the parent itself live there), whoever made the call; (ii) an audited path
                     anywhere else only if the Python stack shows the call was made by twisted ftp.py / filepath.py
                     code itself (innermost twisted frame there, no importlib/linecache/traceback/logging/warnings
                     frame) and it is not a read-only access below sys.prefix / stdlib / the twisted source / /verif;
  outside-unchanged  names, types, modes and contents of everything in the scratch parent outside the root are the
                     same after the session as before;
  no-leak            no byte string that exists only in file contents / file names outside the root ever appears on
                     the control or data channel (it could only get there by an outside open / listing).
No verdict, counted by probes and logged in the trace:
  * an exception escaping from FTP code (ftp_code_raised_no_verdict:<Type>); the session carries on the way a
    reactor would (the connection whose handler raised is dropped); a command that never completes;
  * ftp_layer_passed_unconfined_segments_no_verdict: the protocol handed its IFTPShell a segment list that, applied
    textually to the root, leaves it (FilePath refuses such lists on its own, so the property still holds);
  * a small second family (6% of runs) calls the IFTPShell methods of the real FTPShell / FTPAnonymousShell directly
    with hostile segment lists ('..', embedded separators, absolute names) under the same audit
    (shell_layer_direct_*_no_verdict): what the shell layer would do if the protocol layer stopped normalising.
Both layers confine paths independently; a change that breaks only one of them leaves C54 true and only moves these
probes off zero.
"""
import errno
import os
import shutil
import sys
import tempfile

from zope.interface import implementer

from detsim import clock as _clock


def _no_sockets(*a, **kw):
    raise RuntimeError("no real sockets in simulation")


# ftp.py binds `reactor.listenTCP` / `reactor.connectTCP` as class attributes at import time; the simulated global reactor has no sockets
if _clock.GLOBAL is not None:
    for _name in ("listenTCP", "connectTCP"):
        if not hasattr(_clock.GLOBAL, _name):
            setattr(_clock.GLOBAL, _name, _no_sockets)

from twisted.cred import checkers, portal  # noqa: E402
from twisted.internet import defer, error, interfaces  # noqa: E402
from twisted.internet.address import IPv4Address, IPv6Address  # noqa: E402
from twisted.protocols import basic, ftp  # noqa: E402
from twisted.python import filepath  # noqa: E402
from twisted.python.failure import Failure  # noqa: E402

from detsim import net  # noqa: E402
from detsim.sim import StepLimit, Violation  # noqa: E402
from detsim.fs import scratch_root  # noqa: E402
from models import ftppath as M  # noqa: E402

ID = "C54"
ENGINE = "net"
LEVEL = "exploration"
TECHNIQUE = ("deterministic simulation: scripted hostile FTP client over a simulated control link (seeded segmentation/pipelining), "
             "scenario-owned data channels (PASV/EPSV fake ports, PORT/EPRT connectTCP stub) with seeded timing, loss and time-outs, "
             "process-wide audit hook on filesystem calls + textual containment model")
QUICK_RUNS = 16000
TWIN_P = 0.08   # this share of the runs drives two independent instances of the scenario one after the other (detsim.runner._run_scenario)
BATCH = 50
RUN_WALL_LIMIT_S = 90
COMPONENTS = {
    "real": ["twisted.protocols.ftp.FTP (lineReceived/processCommand, all ftp_* handlers, cleanupDTP, connectionLost, TimeoutMixin on the simulated clock)",
             "twisted.protocols.ftp.toSegments", "twisted.protocols.ftp.FTPShell / FTPAnonymousShell (via recording subclasses that only log their arguments)",
             "twisted.protocols.ftp.DTPFactory / DTP / FileConsumer / _FileReader / _FileWriter / ASCIIConsumerWrapper", "twisted.protocols.ftp.FTPFactory + policies.ProtocolWrapper",
             "twisted.protocols.basic.LineReceiver / FileSender", "twisted.python.filepath.FilePath on a real scratch directory", "twisted.cred.portal.Portal + in-memory checkers"],
    "stub": ["control and data TCP transports, delivery segmentation (detsim.net.SimTransport / net.cut)", "listening port (FTP.listenFactory) and reactor.connectTCP connector",
             "the FTP client (scripted)", "the realm (returns the recording shell subclasses)", "clock (detsim.clock.SimClock behind the global SimReactor)"],
}
RULE = ("run = one FTP session (94%): optional pre-login command, login (anonymous or writable user; 15% switch to TYPE A), 1-25 commands from the hostile path grammar "
        "(CWD/CDUP/PWD/SIZE/MDTM/LIST/NLST/RETR/STOR/APPE/DELE/MKD/RMD/RNFR-RNTO with commands in between/working directory removed or renamed under the session/"
        "a new USER+PASS login as the same or the other account (new shell from the realm, working directory reset)/misc), "
        "one closing relative SIZE; the root starts fully populated (64%) or as a chain of empty directories / one file / empty (fresh account) / not existing at all "
        "(home directory never created or removed by an earlier session; 9%), new names may need new "
        "intermediate directories or exceed NAME_MAX / PATH_MAX, every path argument is a spelling of the root itself now and then ('/', as many '..' as the cwd is deep, "
        "'a/b/../..', '/./' ...), in 20% of the sessions the k-th filesystem call of a drawn class on a path inside the root is refused "
        "with a drawn errno (os_refusal:* faults; a refused rename may get EXDEV / ENOTEMPTY / EISDIR) and in 15% directories inside the root are other file systems "
        "(every rename / link across the boundary fails with EXDEV, os_refusal:cross_device); command stream cut by the tape, data channels connected/refused/fed/drained/closed/timed out by the tape, optional control-connection "
        "loss; or (6%) 1-8 direct IFTPShell calls with hostile segment lists (instrumentation, no verdict).  non-trivial = after login at least one path argument tried "
        "to leave the root (climbed above it, named a neighbour through '..' - plain or in a decorated spelling: NUL / backslash / %2e / trailing dot or blank / ';' / "
        "control byte / alternative dot / glob inside or next to the '..', 40% of the escapes - an absolute form or '~') and (the command stream was cut at least once or a data "
        "connection was opened); shell family: at least one segment list that resolves outside the root was passed")
ASSUMPTIONS = [
    "the scratch tree contains no symbolic links (the statement puts them aside); containment is decided textually (normpath(abspath(p)), no symlink resolution)",
    "filesystem accesses are observed through CPython audit events (open, os.listdir, os.scandir, os.mkdir, os.rmdir, os.remove, os.rename, os.symlink, os.link, os.chmod, "
    "os.chown, os.truncate, os.utime, shutil.*); os.stat/os.access raise no audit event and are not in the statement (opens, lists, creates, renames, deletes): no verdict on them",
    "paths outside the per-run scratch parent are judged only when the call stack attributes the call to twisted ftp.py/filepath.py code; what the interpreter itself opens "
    "(imports, source lines for tracebacks, /etc/passwd read by libc for pwd/grp) is ignored",
    "exceptions escaping from FTP code, missing replies and commands that never complete get no verdict (the statement is about paths only); they are counted by probes",
    "the protocol layer (toSegments) and the shell layer (FilePath.descendant) each confine paths; a defect in one layer alone is masked by the other and is not a violation "
    "(probes ftp_layer_passed_unconfined_segments_no_verdict / shell_layer_direct_*_no_verdict report it)",
    "decorated spellings of '.'/'..' ('..\\0', '.\\0.', '%2e%2e', '.. ', '..;', ...) are sent because a layer that cleans a segment up AFTER comparing it with '..' turns them into "
    "parent references; the oracle does not care how the server reads them (refusal, literal name inside the root): only the audited paths, the outside snapshot and the "
    "channels are judged, exactly as for plain arguments",
    "the root's own directory entry counts as inside the root (the oracle's definition: 'the root or below it'): a session that removes its emptied root ('RMD /' on an "
    "empty root succeeds on the unchanged tree, and a following 'STOR /' then creates a plain file under the root's name) has touched nothing outside; only a symbolic link "
    "appearing under the root's name is reported by outside-unchanged",
    "the root need not exist when the client logs in (population 'missing': FTPRealm never looks, and 'RMD /' by an earlier session removes it): its place in the parent "
    "directory is given, and only what happens at that name or below it is inside.  In ROOT_BASE_MISSING_P = 0.3 of the 'missing' runs the directory that holds the root is "
    "missing as well: 'MKD x' on the tree as first examined then created the root's ancestors (outside the root by the letter of the statement: genuine defect, REPAIRED in "
    "/repo 89087ce, see MUTANTS G1)",
    "a second USER/PASS in the authenticated state is an ordinary part of 'any sequence of commands'; which account the client holds afterwards only decides which shell "
    "class serves the next commands - the verdicts are the same for both",
    "an injected refusal (OSError raised by the audit hook for one call on a path inside the root) stands for what the kernel may answer to any such call (disk full, quota, "
    "read-only remount, permissions, I/O error, a concurrent process creating/removing the entry); it is never injected for paths outside the root or for the interpreter's own "
    "file accesses, and the refused call is still logged as an (inside) access.  How the server reports the failure gets no verdict",
    "directories inside the root that are other file systems are modelled at the same seam: the audit hook refuses every os.rename / os.link whose two names are both inside the "
    "root but on different file systems with EXDEV (a rename of a directory onto its own descendant gets EXDEV too where the kernel would say EINVAL: both are refusals); "
    "stat-level differences between file systems (st_dev) are not modelled",
    "FilePath's temporary-sibling names (os.urandom) are drawn from a per-run counter so that a run replays identically; the scratch volume refuses every audited call after "
    "FS_CALL_BUDGET of them in one run (a bound like the step cap, never reached on the unchanged tree: fs_call_budget_exhausted_no_verdict stays 0)",
    "the client cannot name the random scratch directory, so absolute filesystem paths of the neighbours are never sent; FTP-absolute forms ('/..', '//', '/~/') are",
]
LEVEL_NOTE = ("Path arguments and command sequences (histories) are sampled by a seeded grammar: input sampling decides which (cwd, pending rename, argument) combinations reach "
              "toSegments/FTPShell, i.e. most of the fs-confined / outside-unchanged / no-leak verdict.  The schedule/delivery/fault dimension (segmentation and pipelining of the "
              "command stream, when the data connection is made, fed and closed relative to the commands, data-channel loss mid-transfer, DTP/idle time-outs, control-connection "
              "loss) decides in which working-directory / pending-rename / data-connection state each path is resolved and whether and when the open/list/write actually happens.")

ASCII_P = 0.15                    # share of sessions that switch to TYPE A right after login (ASCIIConsumerWrapper on the RETR/STOR path)
CMARK = b"C0NTENT-0UTS1DE"        # exists only in contents of files outside the root
NMARK = "unl1sted"                # exists only in names of files outside the root; the client never sends it
AUDITED = {"open": 1, "os.listdir": 1, "os.scandir": 1, "os.mkdir": 1, "os.rmdir": 1, "os.remove": 1, "os.rename": 2, "os.symlink": 2, "os.link": 2,
           "os.chmod": 1, "os.chown": 1, "os.truncate": 1, "os.utime": 1}

# ------------------------------------------------------------------ audit seam

_AUD = {"on": False, "log": [], "installed": False, "fault": None, "xdev": None, "budget": None}
_CUR = {}

# ---- refusal fault: the kernel refuses ONE filesystem call that the session makes on a path inside the root (disk full, quota, read-only
# remount, permission, I/O error, name too long, descriptor table full, an entry that another process created / removed in between).
# The audit hook is the seam: a hook that raises aborts the audited call with that exception, exactly where the system call would fail.
REFUSAL_CLASS = {"open": "open", "os.listdir": "list", "os.scandir": "list", "os.mkdir": "mkdir", "os.rmdir": "rmdir", "os.remove": "remove",
                 "os.rename": "rename"}
REFUSAL_CLASSES = ["any", "mkdir", "open", "rmdir", "remove", "rename", "list"]
REFUSAL_ERRNOS = ["ENOSPC", "EACCES", "EIO", "EROFS", "EDQUOT", "ENAMETOOLONG", "EPERM", "EBUSY", "EMFILE", "ENOENT", "EEXIST"]
# what rename(2) answers on top of those: the two names are on different file systems, the target is a non-empty directory / a directory
# while the source is none.  Drawn separately and used when the refused call turns out to be a rename (classes "rename" and "any");
# "same" = the errno drawn from REFUSAL_ERRNOS.
RENAME_ERRNOS = [("same", 5), ("EXDEV", 4), ("ENOTEMPTY", 2), ("EISDIR", 2)]
REFUSAL_P = 0.2
# ---- sub-trees of the root that are other file systems (mount points inside the account's directory: tmpfs, NFS exports, bind mounts;
# one directory, nested mounts, or every first-level directory its own export).  Unlike the one-shot refusal this is a lasting property
# of the tree: EVERY rename / hard link whose two names are both inside the root but on different file systems is refused with EXDEV,
# as the kernel does.
OTHER_FS_P = 0.15
OTHER_FS_LAYOUTS = [["a"], ["a", "d2", "sp ace"], ["a/b"], ["d2"], ["a", "a/b"], ["sp ace"]]
# ---- bound (not a fault): the scratch volume takes FS_CALL_BUDGET audited calls per run; every later one in the scratch parent is
# refused with ENOSPC.  A session on the unchanged tree stays far below it (fs_call_budget_exhausted_no_verdict = 0); it keeps a changed
# tree that starts copying a directory into itself (or any other runaway file-system loop) from eating the run's time - what it
# touched until then is judged as usual.
FS_CALL_BUDGET = 3000


def _refusal(event, paths):
    """The exception to abort this audited call with, or None.  Only calls on paths inside the root are counted, so what the
    interpreter does on its own behalf (imports, source lines) neither shifts the count nor is ever refused."""
    f = _AUD["fault"]
    if f is None or f["fired"]:
        return None
    cls = REFUSAL_CLASS.get(event)
    if cls is None or f["cls"] not in ("any", cls):
        return None
    if not any(M.inside(f["root"], M.norm(p)) for p in paths):
        return None
    f["seen"] += 1
    if f["seen"] < f["k"]:
        return None
    f["fired"] = cls
    if cls == "rename" and f["rename_errname"] != "same":
        f["errname"] = f["rename_errname"]
        f["errno"] = getattr(errno, f["errname"])
        f["rename_specific"] = True
    return OSError(f["errno"], os.strerror(f["errno"]), paths[0])


def _cross_device(event, paths):
    """EXDEV for a rename / link between the other file system inside the root and the rest of the root, or None.  Names outside
    the root are never refused (what the server does with them is for the oracle to see)."""
    x = _AUD["xdev"]
    if x is None or event not in ("os.rename", "os.link") or len(paths) != 2:
        return None
    a, b = M.norm(paths[0]), M.norm(paths[1])
    if not (M.inside(x["root"], a) and M.inside(x["root"], b)):
        return None

    def filesystem(p):      # the innermost mount point that holds p; None = the root's own file system
        held = [d for d in x["dirs"] if M.inside(d, p)]
        return max(held, key=len) if held else None

    if filesystem(a) == filesystem(b):
        return None
    x["fired"] += 1
    return OSError(errno.EXDEV, os.strerror(errno.EXDEV), paths[0])

_SUT_FILES = ("twisted/protocols/ftp.py", "twisted/python/filepath.py")
_INTERNAL_MARKS = ("importlib", "/logging/", "linecache.py", "tokenize.py", "traceback.py", "warnings.py", "zipimport.py", "pkgutil.py")
_WRITE_FLAGS = os.O_WRONLY | os.O_RDWR | os.O_CREAT | os.O_TRUNC | os.O_APPEND


def _attributed():
    """True when the filesystem call was made by FTP / FilePath code itself: the innermost twisted frame on the stack
    is in protocols/ftp.py or python/filepath.py and nothing the interpreter does on its own behalf (imports, reading
    source lines for tracebacks or warnings, logging) is on the stack.  Frame 0 is this function, 1 the hook."""
    f = sys._getframe(2)
    innermost = None
    while f is not None:
        fn = f.f_code.co_filename
        for m in _INTERNAL_MARKS:
            if m in fn:
                return False
        if innermost is None and "/twisted/" in fn:
            innermost = fn
        f = f.f_back
    return innermost is not None and innermost.endswith(_SUT_FILES)


def _readonly(event, args):
    if event in ("os.listdir", "os.scandir"):
        return True
    if event == "open":
        mode, flags = (args + (None, None))[1:3]
        if isinstance(mode, str):
            return not any(c in mode for c in "wax+")
        if isinstance(flags, int):
            return not (flags & _WRITE_FLAGS)
    return False


def _hook(event, args):
    if not _AUD["on"]:
        return
    refuse = None
    try:
        n = AUDITED.get(event)
        if n is None:
            if not event.startswith("shutil."):
                return
            n = len(args)
        paths = []
        for a in args[:n]:
            if isinstance(a, int) or a is None:
                continue
            if isinstance(a, (str, bytes)) or hasattr(a, "__fspath__"):
                paths.append(a)
        if paths:
            _AUD["log"].append((event, paths, _attributed(), _readonly(event, args)))
            if _AUD["fault"] is not None:
                refuse = _refusal(event, paths)
            if refuse is None and _AUD["xdev"] is not None:
                refuse = _cross_device(event, paths)
            b = _AUD["budget"]
            if b is not None and any(M.inside(b["parent"], M.norm(p)) for p in paths):
                b["left"] -= 1
                if b["left"] < 0 and refuse is None:
                    refuse = OSError(errno.ENOSPC, os.strerror(errno.ENOSPC), paths[0])
    except Exception:       # an audit hook must never raise into the code under test ...
        pass
    if refuse is not None:  # ... except for the one injected refusal of a call inside the root
        raise refuse


def _install_hook():
    if not _AUD["installed"]:
        _AUD["installed"] = True
        sys.addaudithook(_hook)


class _Gate:
    def __enter__(self):
        _AUD["on"] = True

    def __exit__(self, *exc):
        _AUD["on"] = False
        return False


GATE = _Gate()


# ------------------------------------------------------------------ scratch tree

# What the root holds when the session starts (index 0 = the fully populated tree).  The client's script names the same
# directories and files whatever is there: on a sparse or empty root most of them are simply missing, MKD/STOR of a nested name
# creates its intermediate directories, and whatever empties a directory leaves its ancestors - up to the root itself - empty.
POPULATIONS = [("full", 14), ("chain", 2), ("onefile", 1), ("empty", 3), ("missing", 2)]
# "missing": the root directory does not exist when the client logs in - a home directory that was never created (ftp.FTPRealm hands out
# userHome.child(name) without looking) or that an earlier session removed ('RMD /' on an emptied root succeeds).  Everything the
# server does then starts from a path that is not a directory: what it creates on the way (the root itself, by MKD) is inside, what
# it puts beside a target that is the root is not.
# Share of the "missing" runs in which the directory that should hold the root is missing as well (<parent>/home/<root> with no
# <parent>/home: the operator never created the home base).  On the tree as first examined 'MKD x' then created the root's missing
# ANCESTORS (os.makedirs), which lie outside the root: fs-confined:os.mkdir:root-ancestor + outside-unchanged:changed - genuine defect
# (deviation from the letter of the statement), REPAIRED in /repo 89087ce (see MUTANTS, "G1").  The precondition is let into this
# share (0.3) of the "missing" runs; 0 keeps it out and is only for dev-time comparison.
ROOT_BASE_MISSING_P = 0.3
# Share of the commands (weight out of ~45) that log in AGAIN in the middle of the session (USER/PASS in the authenticated state is
# legal: the server asks its realm for a new shell - a fresh FilePath without the cached stat results of the old one - and resets the
# working directory): the same account or the other one, the file system as the session has left it so far.
RELOGIN_WEIGHT = 1


class Scratch:
    """parent/ (random name, never logged)
         secret.txt  unl1sted_p      <- must stay untouched
         <root>/ ...                  <- the shell's root: fully populated / a chain of empty directories a/b/c /
                                         one file / empty (fresh account, emptied upload area) / not there at all
         <root><suffix>/ hidden.txt unl1sted_s   <- sibling whose name has the root's name as a prefix
    """

    def __init__(self, sim):
        self.rootname = sim.draw_choice(["pub", "r", "data.d"], "rootname")
        self.sibname = self.rootname + sim.draw_choice(["2", "-old", ".bak", "lic"], "sibsuffix")
        self.dup_inside = sim.draw_bool(0.5, "dup_inside")
        self.population = sim.draw_weighted(POPULATIONS, "population")
        self.base_missing = (self.population == "missing" and ROOT_BASE_MISSING_P > 0 and sim.draw_bool(ROOT_BASE_MISSING_P, "root_base_missing"))
        self.parent = None
        self.root = None

    def build(self):
        self.parent = os.path.realpath(tempfile.mkdtemp(prefix="verif_c54_", dir=scratch_root()))
        P = self.parent
        self.root = os.path.join(P, "home", self.rootname) if self.base_missing else os.path.join(P, self.rootname)
        self.sib = os.path.join(P, self.sibname)
        self.dirs = [[], ["a"], ["a", "b"], ["a", "b", "c"], ["sp ace"], ["d2"]]
        self.files = [["f0.txt"], ["a", "f1.txt"], ["a", "b", "f2.txt"], ["a", "big.bin"], ["sp ace", "x y"], ["we*rd"], ["back\\slash"],
                      ["caf\xe9"], ["secret.txt"], ["~"], ["d2", "g.txt"]]
        if self.dup_inside:
            self.dirs.append([self.sibname])
            self.files.append([self.sibname, "hidden.txt"])
        # self.dirs / self.files: the names the client knows; self.present_*: what exists when the session starts
        if self.population == "full":
            self.present_dirs, self.present_files = list(self.dirs), list(self.files)
        elif self.population == "chain":
            self.present_dirs, self.present_files = self.dirs[:4], []
        elif self.population == "onefile":
            self.present_dirs, self.present_files = self.dirs[:1], self.files[:1]
        elif self.population == "empty":
            self.present_dirs, self.present_files = self.dirs[:1], []
        else:
            self.present_dirs, self.present_files = [], []          # not even the root
        for d in self.present_dirs:
            os.makedirs(os.path.join(self.root, *d), exist_ok=True)
        for f in self.present_files:
            with open(os.path.join(self.root, *f), "wb") as fh:
                fh.write(b"big" * 1700 if f[-1] == "big.bin" else ("inside:" + "/".join(f)).encode("utf-8"))
        os.mkdir(self.sib)
        for name, data in (("hidden.txt", b"hidden " + CMARK), (NMARK + "_s", b"x " + CMARK)):
            with open(os.path.join(self.sib, name), "wb") as fh:
                fh.write(data)
        for name, data in (("secret.txt", b"secret " + CMARK), (NMARK + "_p", b"y " + CMARK)):
            with open(os.path.join(P, name), "wb") as fh:
                fh.write(data)

    def rel(self, np):
        if np == self.parent:
            return "<parent>"
        return np[len(self.parent) + 1:]

    def kind(self, np):
        if np == self.parent:
            return "parent"
        if M.inside(self.sib, np):
            return "sibling"
        if M.inside(np, self.root):
            return "root-ancestor"
        if os.path.dirname(np) == self.parent and os.path.basename(np) in ("secret.txt", NMARK + "_p"):
            return "secret"
        return "other"

    def snapshot(self):
        """Everything in the parent outside the root: name -> (type, mode, content)."""
        out = {}
        for dirpath, dirnames, filenames in os.walk(self.parent):
            if dirpath == os.path.dirname(self.root):
                # the entry under the root's own name is the root, whatever the session left there (a directory; nothing, after 'RMD /'
                # on an emptied root or when the home directory was never made; a file, after a following 'STOR /'): see <rootentry> below
                dirnames[:] = [d for d in dirnames if d != self.rootname]
                filenames = [f for f in filenames if f != self.rootname]
            dirnames.sort()
            for d in dirnames:
                p = os.path.join(dirpath, d)
                out[self.rel(p)] = ("link" if os.path.islink(p) else "dir", os.lstat(p).st_mode & 0o7777, None)
            for f in sorted(filenames):
                p = os.path.join(dirpath, f)
                if os.path.islink(p):
                    out[self.rel(p)] = ("link", 0, os.readlink(p))
                else:
                    with open(p, "rb") as fh:
                        out[self.rel(p)] = ("file", os.lstat(p).st_mode & 0o7777, fh.read())
        out["<parent>"] = ("dir", os.lstat(self.parent).st_mode & 0o7777, None)
        # the root's own directory entry is "the root": a session that removes its (emptied) root, or puts something else there, has
        # not touched anything outside it; only a link appearing under that name would redirect the whole tree
        out["<rootentry>"] = ("link" if os.path.islink(self.root) else "not-a-link", 0, None)
        return out

    def destroy(self):
        if self.parent is not None:
            shutil.rmtree(self.parent, ignore_errors=True)
            self.parent = None


def _teardown():
    _AUD["on"] = False
    _AUD["fault"] = None
    _AUD["xdev"] = None
    _AUD["budget"] = None
    del _AUD["log"][:]
    env = _CUR.pop("env", None)
    if env is not None:
        env.destroy()
    if "chunk" in _CUR:
        basic.FileSender.CHUNK_SIZE = _CUR.pop("chunk")
    if "randomBytes" in _CUR:
        filepath.randomBytes = _CUR.pop("randomBytes")
    if "home" in _CUR:
        home = _CUR.pop("home")
        if home is None:
            os.environ.pop("HOME", None)
        else:
            os.environ["HOME"] = home
    if _CUR.pop("connectTCP", None) and _clock.GLOBAL is not None:
        _clock.GLOBAL.connectTCP = _no_sockets


def cleanup(sim):
    _teardown()


# ------------------------------------------------------------------ recording shells, realm

class _SpyMixin:
    rec = None

    def makeDirectory(self, path):
        self.rec("makeDirectory", path)
        return super().makeDirectory(path)

    def removeDirectory(self, path):
        self.rec("removeDirectory", path)
        return super().removeDirectory(path)

    def removeFile(self, path):
        self.rec("removeFile", path)
        return super().removeFile(path)

    def rename(self, fromPath, toPath):
        self.rec("rename-from", fromPath)
        self.rec("rename-to", toPath)
        return super().rename(fromPath, toPath)

    def access(self, path):
        self.rec("access", path)
        return super().access(path)

    def stat(self, path, keys=()):
        self.rec("stat", path)
        return super().stat(path, keys)

    def list(self, path, keys=()):
        self.rec("list", path)
        return super().list(path, keys)

    def openForReading(self, path):
        self.rec("openForReading", path)
        return super().openForReading(path)

    def openForWriting(self, path):
        self.rec("openForWriting", path)
        return super().openForWriting(path)


class SpyAnonShell(_SpyMixin, ftp.FTPAnonymousShell):
    pass


class SpyUserShell(_SpyMixin, ftp.FTPShell):
    pass


@implementer(portal.IRealm)
class Realm:
    def __init__(self, root, rec):
        self.root, self.rec = root, rec

    def requestAvatar(self, avatarId, mind, *ifaces):
        cls = SpyAnonShell if avatarId is checkers.ANONYMOUS else SpyUserShell
        sh = cls(filepath.FilePath(self.root))
        sh.rec = self.rec
        return (ftp.IFTPShell, sh, lambda: None)


# ------------------------------------------------------------------ data channel stubs

class Ep:
    """One data-connection attempt set up by PASV/EPSV (we connect to the server) or PORT/EPRT (the server connects to us)."""

    def __init__(self, idx, kind, factory, upload):
        self.idx, self.kind, self.factory = idx, kind, factory
        self.state = "waiting"        # waiting | open | closed | refused | failed
        self.listening = True
        self.t = None
        self.proto = None
        self.recv = bytearray()
        self.upload = upload
        self.up_off = 0
        self.timed_out = False


@implementer(interfaces.IListeningPort)
class FakePort:
    def __init__(self, ep, portno):
        self.ep, self.portno = ep, portno

    def startListening(self):
        pass

    def stopListening(self):
        if self.ep.listening:
            self.ep.listening = False
            self.ep.factory.doStop()
        return defer.succeed(None)

    def getHost(self):
        return IPv4Address("TCP", "10.0.0.2", self.portno)


@implementer(interfaces.IConnector)
class FakeConnector:
    def __init__(self, ep, host, port):
        self.ep, self.host, self.port = ep, host, port

    def stopConnecting(self):
        self.disconnect()

    def disconnect(self):
        ep = self.ep
        if ep.state == "waiting":
            ep.state = "failed"
            ep.factory.clientConnectionFailed(self, Failure(error.UserError()))
            ep.factory.doStop()
        elif ep.state == "open":
            ep.t.loseConnection()

    def connect(self):
        pass

    def getDestination(self):
        return IPv4Address("TCP", self.host, self.port)


# ------------------------------------------------------------------ client-side generation

WEIRD = ["", "/", ".", "..", "...", "....", "~", "~/f0.txt", "~root", "a\x00b", "..\x00", "\x00", "a/\x00/../..", "..\\..\\secret.txt", "..\\",
         "%2e%2e/secret.txt", "..%2f", "*", "a/*", "a/b/?2.txt", "[a-z]*", "*/..", "../*", "\xff\xfe", "caf\xe9", "A" * 300, "a/" + "B" * 256,
         "a\nb", " ..", ".. ", "../ ", "-a", "-l", "-la", "sp ace/x y", "/.././../", ".//..//", "a/b/c/../../../..", "a/b/../../../secret.txt",
         "/../" * 3, "a//b///c", "./././a", "we*rd", "back\\slash", "a/b/c/", "/a/./b/../b"]


# Spellings of a '.' / '..' segment that some lenient layer (Telnet-padding / NUL stripping, percent decoding, backslash as a
# separator, Windows-style trimming of trailing dots and blanks, ';' path parameters, control-character removal, non-shortest
# UTF-8, glob expansion) could read as the plain segment.  Each entry: (class, function of the plain segment).  The plain
# spelling is not in the table (it is the draw value 0 of the callers).
DOT_SPELLINGS = [
    ("nul", lambda d: d + "\x00"), ("nul", lambda d: "\x00" + d), ("nul", lambda d: d[0] + "\x00" + d[1:]), ("nul", lambda d: "\x00" + "\x00".join(d) + "\x00"),
    ("nul", lambda d: d + "\r\x00"),
    ("backslash", lambda d: d + "\\"), ("backslash", lambda d: "\\" + d), ("backslash", lambda d: d + "\\."),
    ("percent", lambda d: "%2e" * len(d)), ("percent", lambda d: "%2E" + d[1:]), ("percent", lambda d: d[:-1] + "%2e"), ("percent", lambda d: "%252e" * len(d)),
    ("percent", lambda d: d + "%00"), ("percent", lambda d: d + "%2f"),
    ("trailing", lambda d: d + "."), ("trailing", lambda d: d + " "), ("trailing", lambda d: " " + d), ("trailing", lambda d: d + "\t"), ("trailing", lambda d: d + ". ."),
    ("param", lambda d: d + ";"), ("param", lambda d: d + ";x=1"), ("param", lambda d: d + "#"), ("param", lambda d: d + "?x"),
    ("ctl", lambda d: d + "\r"), ("ctl", lambda d: d + "\n"), ("ctl", lambda d: "\x7f" + d), ("ctl", lambda d: d[0] + "\x08" + d[1:]), ("ctl", lambda d: "\xff\xf1" + d),
    ("altdot", lambda d: "\xc0\xae" * len(d)), ("altdot", lambda d: "\xef\xbc\x8e" * len(d)), ("altdot", lambda d: d[:-1] + "\xc0\xae"), ("altdot", lambda d: "\xb7" * len(d)),
    ("glob", lambda d: d + "*"), ("glob", lambda d: "[.]" * len(d)), ("glob", lambda d: d[:-1] + "?"),
]
# what may stand between two segments (index 0 = the plain separator)
SEPARATORS = ["/", "//", "/./", "\\", "/\x00/", "%2f", "/\\", "\x00/"]
# the same idea for an ordinary name (the first segment of the tail that follows the climbs)
NAME_SPELLINGS = [
    ("nul", lambda n: n + "\x00"), ("nul", lambda n: "\x00" + n), ("nul", lambda n: n[:1] + "\x00" + n[1:]), ("nul", lambda n: n[:-1] + "\x00" + n[-1:]),
    ("trailing", lambda n: n + "."), ("trailing", lambda n: n + " "), ("backslash", lambda n: n + "\\"), ("param", lambda n: n + ";"),
    ("percent", lambda n: "%" + "%02x" % ord(n[0]) + n[1:]), ("ctl", lambda n: n + "\r"), ("case", lambda n: n.upper()),
]


class Gen:
    def __init__(self, sim, env, writable):
        self.sim, self.env, self.writable = sim, env, writable
        self.cwd = []                 # the client's idea of the working directory (prediction only; never used by the oracle)
        self.dirs = [list(d) for d in env.dirs]
        self.newn = 0
        self.attempts = 0
        self.respelt = False          # the last _escape() wrote its parent references in decorated spellings

    def _decorate(self, s):
        sim = self.sim
        k = sim.draw_weighted([("none", 6), ("dot", 1), ("dslash", 1), ("trail", 1), ("traildot", 1), ("lead", 1), ("updown", 1), ("respell", 1)], "decor")
        if k == "respell":
            # one '.' / '..' segment of a path that stays inside the root, in a decorated spelling
            parts = s.split("/")
            idx = [i for i, x in enumerate(parts) if x in (".", "..")]
            if not idx:
                parts.insert(1 if s.startswith("/") else 0, ".")
                idx = [1 if s.startswith("/") else 0]
            i = sim.draw_choice(idx, "which")
            cls, fn = sim.draw_choice(DOT_SPELLINGS, "spelling")
            parts[i] = fn(parts[i])
            sim.probe("respelt_dot_segment_inside_root:" + cls)
            return "/".join(parts)
        if k == "dot" and "/" in s:
            return s.replace("/", "/./", 1)
        if k == "dslash" and "/" in s:
            return s.replace("/", "//", 1)
        if k == "trail":
            return s + "/"
        if k == "traildot":
            return s + "/."
        if k == "lead":
            return ("//" + s[1:]) if s.startswith("/") else "./" + s
        if k == "updown":
            return ("/a/../" + s[1:]) if s.startswith("/") else s
        return s

    def _express(self, target):
        if self.sim.draw_bool(0.45, "absolute"):
            s = "/" + "/".join(target)
        else:
            s = M.relative_to(self.cwd, target)
        return self._decorate(s)

    def _escape(self):
        sim, env = self.sim, self.env
        depth = len(self.cwd)
        form = sim.draw_choice(["rel", "abs", "deep", "relplus", "rel", "abs", "tilde"], "escform")
        if form == "tilde":
            ups = sim.draw_choice(["~/", "~/./", "/~/", "a/~/"], "tilde")
            self.sim.probe("tilde_form")
        elif form == "rel":
            ups = self._climbs("", depth + 1)
        elif form == "relplus":
            ups = self._climbs("", depth + 1 + sim.draw_int(1, 2, "extra"))
        elif form == "abs":
            ups = self._climbs("/", sim.draw_int(1, 2, "ups"))
        else:
            ups = self._climbs("/a/b/", sim.draw_int(3, 4, "ups"))
        self.newn += 1
        tail = sim.draw_choice(["secret.txt", env.sibname + "/hidden.txt", env.sibname, env.sibname + "/", "", env.rootname + "/f0.txt", env.rootname,
                                "esc%d" % self.newn, env.sibname + "/esc%d" % self.newn, env.rootname + "/a",
                                "*", env.sibname + "/*", env.rootname + "*", "s*.txt", env.sibname + "/h?dden.txt", "[a-z]*"], "esctail")
        if "*" in tail or "?" in tail:
            self.sim.probe("glob_escape")
        if self.respelt and tail and sim.draw_bool(0.2, "tailspell"):
            # the first name after the climbs (sibling / root / secret / new name) in a decorated spelling as well
            first, sep, rest = tail.partition("/")
            cls, fn = sim.draw_choice(NAME_SPELLINGS, "namespelling")
            tail = fn(first) + sep + rest
            sim.probe("respelt_name_after_climb:" + cls)
        return ups + tail

    def _climbs(self, prefix, n):
        """prefix + n parent references, each followed by a separator.  In 40% of the escapes the parent references (and
        possibly the separators, with '.' segments in between) are written in the DOT_SPELLINGS / SEPARATORS variants: one
        spelling for all of them, or one drawn per climb (plain ones mixed in)."""
        sim = self.sim
        self.respelt = sim.draw_bool(0.4, "respell")
        if not self.respelt:
            return prefix + "../" * n
        uniform = sim.draw_bool(0.5, "uniform")
        altsep = sim.draw_bool(0.25, "altsep")
        dots = sim.draw_bool(0.2, "dotsbetween")
        sp = sim.draw_choice(DOT_SPELLINGS, "spelling")
        out = prefix
        for i in range(n):
            if not uniform and i:
                sp = sim.draw_choice(DOT_SPELLINGS, "spelling") if sim.draw_bool(0.7, "respell_this") else None
            if sp is None:
                out += ".."
            else:
                out += sp[1]("..")
                sim.probe("respelt_parent_reference:" + sp[0])
            out += sim.draw_choice(SEPARATORS, "sep") if altsep else "/"
            if dots and sim.draw_bool(0.5, "dothere"):
                out += sim.draw_choice(DOT_SPELLINGS, "spelling")[1](".") + "/"
                sim.probe("respelt_dot_between_climbs")
        self.sim.probe("respelt_escape_cwd_depth_%d" % min(len(self.cwd), 3))
        return out

    def _root_spelling(self):
        """A path argument that names the ROOT ITSELF - the boundary value of every path parameter, whatever the command expects
        there (a file, a new name, a rename target): anything a command derives from its argument (parent directory, sibling,
        temporary name next to it, intermediate directories) then lies outside the root.  Written from the working directory the
        client believes to be in: the bare '/', exactly as many '..' as the working directory is deep, a directory entered and left
        again (relative or absolute), runs of slashes and '.' segments; the usual decorations on top."""
        sim = self.sim
        form = sim.draw_choice(["slash", "climb", "downup", "absdownup", "dots"], "rootform")
        if form == "slash":
            s = "/"
        elif form == "climb":
            s = M.relative_to(self.cwd, [])
        elif form in ("downup", "absdownup"):
            d = sim.draw_choice([x for x in self.dirs if x], "via")
            s = ("/" + "/".join(d)) if form == "absdownup" else M.relative_to(self.cwd, d)
            s += "/.." * len(d)
        else:
            s = sim.draw_choice(["//", "/.", "/./", "/./.", "///", "/./a/.."], "rootdots")
        sim.probe("root_spelling:" + form)
        return self._decorate(s)

    def path(self, want):
        """want: 'dir' | 'file' | 'new' | 'any'.  Returns a str path argument."""
        sim = self.sim
        kinds = [("target", 9), ("escape", 5), ("weird", 2), ("new", 8 if want == "new" else 1), ("root", 3)]
        k = sim.draw_weighted(kinds, "pathkind")
        self.respelt = False
        if k == "escape":
            s = self._escape()
        elif k == "root":
            s = self._root_spelling()
        elif k == "weird":
            s = sim.draw_choice(WEIRD, "weird")
        elif k == "new":
            self.newn += 1
            d = sim.draw_choice(self.dirs, "newdir")
            s = self._express(d + self._new_names())
        else:
            if want == "dir" or (want in ("any", "new") and sim.draw_bool(0.4, "wantdir")):
                s = self._express(sim.draw_choice(self.dirs, "dir"))
            else:
                s = self._express(sim.draw_choice(self.env.files, "file"))
        segs, escaped = M.walk(self.cwd, s)
        if not segs and not escaped:
            sim.probe("path_argument_names_the_root:" + want)
        if escaped or self.respelt or s.startswith(("~/", "/~/", "a/~/")) or self.env.sibname in s.split("/") and ".." in s.split("/"):
            self.attempts += 1
            self.sim.probe("escape_attempt")
            if self.env.sibname in s:
                self.sim.probe("sibling_named_via_dotdot")
        return s

    def _new_names(self):
        """The not yet existing tail of a new path: one fresh name; or fresh intermediate directories in front of it (the server
        has to create them first); or a last component longer than NAME_MAX / a path longer than PATH_MAX (the file system refuses it
        with ENAMETOOLONG - after the intermediate directories have been made, where there are any)."""
        sim = self.sim
        shape = sim.draw_weighted([("plain", 40), ("nested", 10), ("overlong", 2), ("nested_overlong", 3), ("beyond_path_max", 1)], "newshape")
        names = ["n%d" % self.newn]
        if shape in ("nested", "nested_overlong"):
            names = ["m%d" % self.newn, "k", "k2"][:sim.draw_int(1, 3, "newdepth")] + names
            sim.probe("new_name_below_new_directories")
        if shape in ("overlong", "nested_overlong"):
            names[-1] = "L" * sim.draw_choice([256, 300], "namelen")
            sim.probe("new_name_longer_than_name_max")
        if shape == "beyond_path_max":
            names = ["D%d" % self.newn + "d" * 240] * 18
            sim.probe("new_path_longer_than_path_max")
        return names

    def note_cwd(self, arg):
        segs, escaped = M.walk(self.cwd, arg)
        if not escaped and segs in self.env.present_dirs:
            self.cwd = segs


def enc(s):
    return s.encode("latin-1", "replace")


def gen_script(sim, env, cfg):
    """Returns (list of command lines as bytes, list of upload plans per data-setup command, Gen)."""
    g = Gen(sim, env, cfg["writable"])
    cmds = []
    plans = []
    portno = [5000]

    def setup():
        k = sim.draw_weighted([("PASV", 6), ("EPSV", 2), ("PORT", 3), ("EPRT", 1), ("none", 1), ("badport", 1)], "setup")
        if k == "none":
            return
        portno[0] += 1
        if k == "PASV":
            cmds.append(b"PASV")
        elif k == "EPSV":
            cmds.append(sim.draw_choice([b"EPSV", b"EPSV 1", b"EPSV 2", b"EPSV 9", b"EPSV x"], "epsv"))
        elif k == "PORT":
            cmds.append(b"PORT 10,0,0,1,%d,%d" % (portno[0] >> 8, portno[0] & 255))
        elif k == "EPRT":
            cmds.append(sim.draw_choice([b"EPRT |1|10.0.0.1|%d|" % portno[0], b"EPRT |2|::1|%d|" % portno[0], b"EPRT |3|x|1|", b"EPRT garbage"], "eprt"))
        else:
            cmds.append(sim.draw_choice([b"PORT 1,2,3", b"PORT a,b,c,d,e,f", b"PORT", b"PORT 10,0,0,1,1"], "badport"))

    def transfer(kind):
        setup()
        upload = b""
        if kind in ("STOR", "APPE"):
            upload = sim.draw_bytes(sim.draw_int(0, 40, "uplen"), b"abc\r\n\x00z")
        elif sim.draw_bool(0.15, "stray_upload"):
            upload = sim.draw_bytes(sim.draw_int(1, 8, "uplen"), b"abc\r\n")
        plans.append(upload)
        if sim.draw_bool(0.15, "between"):
            p = g.path("dir")
            cmds.append(b"CWD " + enc(p))
            g.note_cwd(p)
        if kind == "LIST":
            cmds.append(b"LIST" + ((b" " + enc(g.path("any"))) if sim.draw_bool(0.7, "listarg") else b""))
        elif kind == "NLST":
            cmds.append(b"NLST" + ((b" " + enc(g.path("any"))) if sim.draw_bool(0.8, "listarg") else b" "))
        elif kind == "RETR":
            cmds.append(b"RETR " + enc(g.path("file")))
        else:
            cmds.append(kind.encode() + b" " + enc(g.path("new")))

    # ---- before login
    if sim.draw_bool(0.15, "prelogin"):
        cmds.append(sim.draw_choice([b"CWD ..", b"RETR ../secret.txt", b"PASS x", b"LIST /..", b"PWD", b"FEAT"], "precmd"))
        sim.probe("cmd_before_login")
    if cfg["writable"]:
        if sim.draw_bool(0.1, "badpass"):
            cmds += [b"USER alice", b"PASS wrong"]
            sim.probe("login_refused")
        cmds += [b"USER alice", b"PASS pw"]
    else:
        cmds += [b"USER anonymous", b"PASS a@b"]
    if cfg["ascii"]:
        cmds.append(b"TYPE A")
    g.attempts = 0
    n = sim.draw_int(1, 25, "ncmds")
    W = cfg["writable"]       # the account the client is logged in as right now (it may log in again, see LOGIN)
    while n > 0:
        n -= 1
        weights = [("CWD", 6), ("CDUP", 2), ("PWD", 1), ("SIZE", 2), ("MDTM", 1), ("LIST", 3), ("NLST", 2), ("RETR", 4), ("STOR", 4 if W else 1), ("APPE", 1),
                   ("DELE", 3 if W else 1), ("MKD", 3 if W else 1), ("RMD", 2 if W else 1), ("REN", 4 if W else 1), ("misc", 2), ("VANISH", 2 if W else 0),
                   ("LOGIN", RELOGIN_WEIGHT)]
        k = sim.draw_weighted(weights, "cmd")
        if k == "LOGIN":
            # a new login on the same control connection: the realm hands out a NEW shell (fresh FilePath objects: nothing the old shell
            # had cached about the root survives), the working directory is the root again; the file system is as the session left it
            who = sim.draw_choice(["same", "other"], "relogin")
            if who == "other":
                W = not W
            if W:
                if sim.draw_bool(0.1, "badpass"):
                    cmds += [b"USER alice", b"PASS wrong"]
                cmds += [b"USER alice", b"PASS pw"]
            else:
                cmds += [b"USER anonymous", b"PASS a@b"]
            g.cwd = []
            g.writable = W
            sim.probe("logged_in_again:%s_account" % who)
        elif k == "CWD":
            p = g.path("dir")
            cmds.append(sim.draw_choice([b"CWD ", b"cwd ", b"CWD  "], "cwdform") + enc(p))
            g.note_cwd(p)
        elif k == "CDUP":
            cmds.append(b"CDUP")
            if not g.cwd:
                g.attempts += 1
                sim.probe("cdup_at_root")
            g.note_cwd("..")
        elif k == "PWD":
            cmds.append(b"PWD")
        elif k in ("SIZE", "MDTM"):
            cmds.append(k.encode() + b" " + enc(g.path("file")))
        elif k in ("LIST", "NLST", "RETR", "STOR", "APPE"):
            transfer(k)
        elif k == "DELE":
            cmds.append(b"DELE " + enc(g.path("file")))
        elif k == "MKD":
            cmds.append(b"MKD " + enc(g.path("new")))
        elif k == "RMD":
            cmds.append(b"RMD " + enc(g.path("dir")))
        elif k == "VANISH":
            # the working directory (or one of its ancestors) is removed or renamed under the session, then relative paths follow
            d = sim.draw_choice([["a", "b", "c"], ["a", "b"], ["d2"], ["sp ace"], ["a"]], "vdir")
            cmds.append(b"CWD /" + enc("/".join(d)))
            g.cwd = list(d)
            victim = d[:sim.draw_int(1, len(d), "victim")]
            if sim.draw_bool(0.4, "vanish_rmd"):
                cmds.append(b"RMD /" + enc("/".join(victim)))
            else:
                g.newn += 1
                cmds += [b"RNFR /" + enc("/".join(victim)), b"RNTO /moved%d" % g.newn]
            sim.probe("cwd_removed_or_renamed")
            for _ in range(sim.draw_int(1, 3, "vafter")):
                nxt = sim.draw_choice(["CDUP", "CWD ..", "MKD sub", "SIZE f2.txt", "CWD ../..", "RMD .", "PWD", "DELE ../f1.txt", "RNFR .", "CWD .", "LIST", "STOR"], "vnext")
                if nxt in ("LIST", "STOR"):
                    transfer(nxt)
                else:
                    cmds.append(enc(nxt))
                    if nxt == "RNFR .":
                        cmds.append(b"RNTO ../../" + enc(env.sibname) + b"/x")
        elif k == "REN":
            cmds.append(b"RNFR " + enc(g.path("any")))
            if sim.draw_bool(0.25, "ren_between"):
                p = g.path("dir")
                cmds.append(sim.draw_choice([b"CWD " + enc(p), b"PWD", b"NOOP", b"RNFR " + enc(p)], "ren_mid"))
                sim.probe("command_between_rnfr_rnto")
            cmds.append(b"RNTO " + enc(g.path("new")))
        else:
            cmds.append(sim.draw_choice([b"NOOP", b"TYPE A" if cfg["ascii"] else b"TYPE L 8", b"TYPE A N" if cfg["ascii"] else b"TYPE I", b"TYPE I", b"TYPE E", b"TYPE", b"FEAT", b"SYST", b"MODE S", b"MODE B", b"STRU F", b"OPTS UTF8 ON",
                                         b"STAT .", b"APPE f0.txt", b"REST 0", b"ABOR", b"XYZZY ../..", b"", b" ", b"noop", b"EPSV ALL", b"RNTO ../secret.txt",
                                         b"SITE CHMOD 777 ../secret.txt", b"CWD", b"RETR", b"USER anonymous", b"X" * 17000], "misc"))
    cmds.append(b"SIZE f0.txt")       # a path relative to whatever working directory the session ended in
    if sim.draw_bool(0.3, "quit"):
        cmds.append(b"QUIT")
    return cmds, plans, g


# ------------------------------------------------------------------ session driver

class Session:
    STEP_CAP = 900

    def __init__(self, sim, env, cfg):
        self.sim, self.env, self.cfg = sim, env, cfg
        self.shell_calls = []
        self.eps = []
        self.plans = []
        self.ctrl_buf = b""
        self.codes = []
        self.internal_errors = 0
        self.ctrl_lost = False
        self.overflow = False

    # ---- seams handed to the code under test
    def rec_shell(self, method, path):
        try:
            segs = list(path)
        except TypeError:
            segs = [path]
        self.shell_calls.append((method, segs))

    def _new_ep(self, kind, factory):
        upload = self.plans.pop(0) if self.plans else b""
        ep = Ep(len(self.eps), kind, factory, upload)
        self.eps.append(ep)
        factory.doStart()
        return ep

    def listen(self, portn, factory, interface=""):
        ep = self._new_ep("pasv", factory)
        self.sim.event("listen", ep.idx, interface or "-")
        return FakePort(ep, 6000 + ep.idx)

    def connectTCP(self, host, port, factory, timeout=30, bindAddress=None):
        ep = self._new_ep("port", factory)
        self.sim.event("connectTCP", ep.idx, host, port)
        self.sim.probe("port_mode")
        return FakeConnector(ep, host, port)

    # ---- observation after every entry into the code under test
    def observe(self):
        sim, env = self.sim, self.env
        _AUD["on"] = False
        calls, self.shell_calls = self.shell_calls, []
        for method, segs in calls:
            sim.event("shell", method, repr(segs))
        f = _AUD["fault"]
        if f is not None and f["fired"] and not f["reported"]:
            f["reported"] = True
            sim.fault("os_refusal:" + f["fired"])
            sim.event("os-refused", f["fired"], f["errname"])
            if env.population != "full":
                sim.probe("os_refusal_on_sparse_root")
            if f.get("rename_specific"):
                sim.probe("os_refusal_rename_specific_errno:" + f["errname"])
        x = _AUD["xdev"]
        while x is not None and x["reported"] < x["fired"]:
            x["reported"] += 1
            sim.fault("os_refusal:cross_device")
            sim.event("os-refused", "rename-or-link", "EXDEV", "other-fs")
        check_audit(sim, env)
        for method, segs in calls:
            # instrumentation only (no verdict): did the protocol layer hand its shell a segment list that, applied textually to the root, leaves it?
            ok = all(isinstance(s, (str, bytes)) for s in segs)
            if not (ok and M.inside(env.root, M.resolve_segments(env.root, segs))):
                sim.probe("ftp_layer_passed_unconfined_segments_no_verdict")
                sim.event("unconfined-segments", method)
        out = self.ct.take()
        if out:
            sim.check("no-leak", CMARK not in out and NMARK.encode() not in out, "control", lambda: "control channel carried %r" % out[:300])
            lines, self.ctrl_buf = M.split_replies(self.ctrl_buf + out)
            for code, final, line in lines:
                if final and code is not None and code >= 200:
                    self.codes.append(code)
                    if b"internal server error" in line:
                        self.internal_errors += 1
                if code is not None and (final or code < 200):
                    sim.event("reply", code, line[4:60] if code == 257 else b"")
        for ep in self.eps:
            if ep.t is not None and ep.t.out:
                d = ep.t.take()
                ep.recv += d
                sim.event("data-out", ep.idx, len(d) if b"\r\n" not in d else "lines=%d" % d.count(b"\r\n"))
                sim.check("no-leak", CMARK not in ep.recv and NMARK.encode() not in ep.recv, "data", lambda: "data channel carried %r" % bytes(ep.recv[-300:]))

    def enter(self, label, fn, *a):
        """Enter the code under test with the audit gate on.  The statement is silent about exceptions: one that
        escapes is counted and logged (no verdict) and returned to the caller, who reacts as a reactor would."""
        try:
            with GATE:
                fn(*a)
        except (Violation, StepLimit):
            raise
        except Exception as e:
            _AUD["on"] = False
            self.sim.probe("ftp_code_raised_no_verdict:%s" % type(e).__name__)
            self.sim.event("raised", label, type(e).__name__)
            return e
        return None

    def sut(self, label, fn, *a, drop=None):
        e = self.enter(label, fn, *a)
        if e is not None and drop is not None:
            # a reactor logs the exception and drops the connection whose event handler raised
            if drop == "ctrl":
                if not self.ct.disconnected:
                    self.ctrl_lost = True
                    self.enter("ctrl-dropped", self.ct.lose, Failure(e))
            elif drop.state == "open":
                drop.state = "closed"
                self.enter("data-dropped", drop.t.lose, Failure(e))
                self._port_lost(drop)
        self.observe()

    # ---- the session
    def run(self):
        sim, env, cfg = self.sim, self.env, self.cfg
        cmds, self.plans, g = gen_script(sim, env, cfg)
        self.gen = g
        wire = b"".join(c + b"\r\n" for c in cmds)
        bounds = []
        off = 0
        for i, c in enumerate(cmds):
            sim.event("cmd", i, c)
            off += len(c) + 2
            bounds.append(off)
        segs = net.cut(sim, wire, boundaries=bounds)
        for s in segs:
            nl = s.count(b"\r\n")
            if nl >= 2:
                sim.probe("pipelined_segment")
            if not s.endswith(b"\r\n"):
                sim.probe("split_midline")
        self.overflow = any(len(c) > 16000 for c in cmds)
        if self.overflow:
            sim.fault("line_too_long")

        p = portal.Portal(Realm(env.root, self.rec_shell))
        p.registerChecker(checkers.AllowAnonymousAccess())
        db = checkers.InMemoryUsernamePasswordDatabaseDontUse()
        db.addUser(b"alice", b"pw")
        db.addUser("alice", "pw")
        p.registerChecker(db)
        factory = ftp.FTPFactory(p)
        factory.timeOut = cfg["idle"]
        wrapper = factory.buildProtocol(IPv4Address("TCP", "10.0.0.1", 40000))
        server = wrapper.wrappedProtocol
        server.listenFactory = self.listen
        server.dtpTimeout = cfg["dtp_timeout"]
        self.server = server
        ct = self.ct = net.SimTransport(sim, "C", ("10.0.0.2", 21), ("10.0.0.1", 40000))
        if cfg["host"] != "v4":
            ct._host = IPv6Address("TCP", "::ffff:10.0.0.2" if cfg["host"] == "mapped" else "2001:db8::2", 21)
        ct.protocol = wrapper
        _clock.GLOBAL.connectTCP = self.connectTCP
        _CUR["connectTCP"] = True
        clock = sim.clock
        t_start = clock.seconds()

        self.sut("connect", wrapper.makeConnection, ct)
        pend = list(segs)
        loss_at = cfg["loss_at"]
        steps = 0
        alive = lambda: not ct.disconnected

        def due():
            nt = clock.next_time()
            return nt is not None and nt <= clock.seconds()

        while steps < self.STEP_CAP:
            steps += 1
            sim.step(self.STEP_CAP * 4)
            if loss_at is not None and steps == loss_at and alive():
                sim.fault("ctrl_lost")
                if any(ep.state == "open" and (ep.t.producer is not None or getattr(ep.proto, "_cons", None) is not None) for ep in self.eps):
                    sim.probe("ctrl_lost_midtransfer")
                sim.event("ctrl-lost")
                self.ctrl_lost = True
                self.sut("ctrl-lost", ct.lose, Failure(error.ConnectionLost()))
                continue
            ev = []
            if alive() and ct.disconnecting:
                ev.append((("cclose", None), 6))
            if alive() and not ct.disconnecting and pend and ct.reading:
                ev.append((("deliver", None), 6))
            if due():
                ev.append((("timer", None), 6))
            for ep in self.eps:
                if ep.state == "waiting" and (ep.kind == "port" or ep.listening):
                    ev.append((("dconnect", ep), 5))
                    if ep.kind == "port":
                        ev.append((("dfail", ep), 1))
                elif ep.state == "open":
                    t = ep.t
                    if t.disconnecting:
                        ev.append((("dfin", ep), 5))
                        continue
                    if ep.up_off < len(ep.upload) and t.reading:
                        ev.append((("dsend", ep), 4))
                    if t.producer is not None and not t.streaming:
                        ev.append((("dpull", ep), 5))
                    busy = t.producer is not None or ep.up_off < len(ep.upload) or bool(pend)
                    ev.append((("dclose", ep), 1 if busy else 4))
            if (cfg["impatient"] and clock.next_time() is not None and not due() and alive()
                    and (cfg["idle"] == 5 or any(e.state == "waiting" and not e.timed_out and (e.kind == "port" or e.listening) for e in self.eps))):
                ev.append((("advance", None), 1))
            if not ev:
                break
            (kind, ep) = sim.draw_weighted(ev, "event")
            self.do(kind, ep, pend)

        # ---- settle: resolve everything that is outstanding, in a fixed order
        for _ in range(4000):
            sim.step(self.STEP_CAP * 8)
            if due():
                self.do("timer", None, pend)
                continue
            openeps = [ep for ep in self.eps if ep.state == "open"]
            if openeps:
                ep = openeps[0]
                t = ep.t
                if t.disconnecting:
                    self.do("dfin", ep, pend)
                elif t.producer is not None and not t.streaming:
                    self.do("dpull", ep, pend)
                elif ep.up_off < len(ep.upload) and t.reading:
                    self.do("dsend", ep, pend)
                else:
                    self.do("dclose", ep, pend)
                continue
            if not alive():
                break
            if ct.disconnecting:
                self.do("cclose", None, pend)
                continue
            if ct.reading:
                if pend:
                    self.do("deliver", None, pend)
                    continue
                break
            waiting = [ep for ep in self.eps if ep.state == "waiting" and (ep.kind == "port" or ep.listening)]
            if waiting and clock.next_time() is not None:
                self.do("advance", None, pend)
                continue
            # the statement is silent about a command that never completes: no verdict
            sim.probe("command_stuck_no_verdict")
            sim.event("stuck")
            break

        if alive() and not self.ctrl_lost and not pend and not self.overflow:
            sim.probe("session_ran_to_end")
        # ---- the client goes away
        if alive():
            self.sut("client-close", ct.lose, Failure(error.ConnectionDone()))
        for ep in self.eps:
            if ep.state == "open":
                self.do("dclose", ep, pend)
        for _ in range(50):
            if not due():
                break
            self.do("timer", None, pend)
        for dc in clock.getDelayedCalls():
            dc.cancel()
        sim.sim_time += clock.seconds() - t_start
        if self.internal_errors:
            sim.probe("internal_error_reply")
        if 226 in self.codes:
            sim.probe("transfer_completed_226")
        if 426 in self.codes:
            sim.probe("transfer_aborted_426")
        if 425 in self.codes:
            sim.probe("cant_open_data_425")
        if 530 in self.codes:
            sim.probe("not_logged_in_530")
        if 503 in self.codes:
            sim.probe("bad_sequence_503")
        sim.state((cfg["writable"], len(self.eps) > 0, self.ctrl_lost, tuple(sorted(set(self.codes)))[:12]))
        sim.nontrivial = g.attempts >= 1 and (sim.faults.get("segmentation", 0) > 0 or any(ep.state != "waiting" for ep in self.eps))

    def do(self, kind, ep, pend):
        sim, ct, clock = self.sim, self.ct, self.sim.clock
        if kind == "deliver":
            s = pend.pop(0)
            sim.event("deliver", s)
            self.sut("dataReceived", ct.protocol.dataReceived, s, drop="ctrl")
        elif kind == "timer":
            self.sut("timer", clock.run_next)
            self._timed_out()
        elif kind == "advance":
            before = clock.seconds()
            was_closing = ct.disconnecting or ct.disconnected
            self.sut("timer", clock.run_next)
            sim.event("advance", clock.seconds() - before)
            if not was_closing and ct.disconnecting:
                sim.fault("idle_timeout")
            self._timed_out()
        elif kind == "cclose":
            sim.event("ctrl-close")
            self.sut("ctrl-close", ct.lose, Failure(error.ConnectionDone()))
        elif kind == "dconnect":
            sim.event("dconnect", ep.idx)
            holder = [None]
            self.enter("buildProtocol", lambda: holder.__setitem__(0, ep.factory.buildProtocol(IPv4Address("TCP", "10.0.0.1", 50000 + ep.idx))))
            proto = holder[0]
            if proto is None:
                ep.state = "refused"
                sim.probe("late_connect_refused")
                if ep.kind == "port":
                    ep.factory.doStop()
                self.observe()
                return
            ep.state = "open"
            ep.proto = proto
            ep.t = net.SimTransport(sim, "D%d" % ep.idx, ("10.0.0.2", 6000 + ep.idx), ("10.0.0.1", 50000 + ep.idx))
            ep.t.protocol = proto
            self.sut("data-connect", proto.makeConnection, ep.t, drop=ep if ep.kind == "port" else None)
        elif kind == "dfail":
            sim.event("dfail", ep.idx)
            sim.fault("port_refused")
            ep.state = "failed"
            self.sut("data-fail", ep.factory.clientConnectionFailed, None, Failure(error.ConnectionRefusedError()))
            ep.factory.doStop()
        elif kind == "dsend":
            left = len(ep.upload) - ep.up_off
            n = min(left, sim.draw_choice([left, 1, 2, 5, 17], "upn"))
            chunk = ep.upload[ep.up_off:ep.up_off + n]
            ep.up_off += n
            sim.event("dsend", ep.idx, chunk)
            if getattr(ep.proto, "_cons", None) is None:
                sim.probe("data_before_transfer_command")
            self.sut("data-received", ep.proto.dataReceived, chunk, drop=ep)
        elif kind == "dpull":
            sim.event("dpull", ep.idx)
            self.sut("data-pull", ep.t.producer.resumeProducing, drop=ep)
        elif kind == "dfin":
            sim.event("dfin", ep.idx)
            ep.state = "closed"
            self.sut("data-closed", ep.t.lose, Failure(error.ConnectionDone()))
            self._port_lost(ep)
        elif kind == "dclose":
            mid = ep.t.producer is not None or ep.up_off < len(ep.upload)
            sim.event("dclose", ep.idx, "mid" if mid else "idle")
            if mid:
                sim.fault("data_lost_midtransfer")
            ep.state = "closed"
            self.sut("data-closed", ep.t.lose, Failure(error.ConnectionLost() if mid else error.ConnectionDone()))
            self._port_lost(ep)
        else:
            raise ValueError(kind)

    def _timed_out(self):
        for e in self.eps:
            if e.state == "waiting" and not e.timed_out and e.factory.deferred is None:
                e.timed_out = True
                self.sim.fault("dtp_timeout")

    def _port_lost(self, ep):
        if ep.kind == "port":
            self.enter("clientConnectionLost", ep.factory.clientConnectionLost, None, Failure(error.ConnectionDone()))
            ep.factory.doStop()


_QUIET_ROOTS = []


def _quiet_roots():
    """Places whose files the interpreter reads on its own (modules, source lines): read-only accesses there are ignored
    even if the stack attribution says FTP code asked for them."""
    if not _QUIET_ROOTS:
        import sysconfig
        import twisted
        roots = {sys.prefix, sys.base_prefix, sys.exec_prefix, sysconfig.get_paths().get("stdlib", ""), sysconfig.get_paths().get("platstdlib", ""),
                 os.path.dirname(os.path.dirname(os.path.abspath(twisted.__file__))), "/repo/src", os.path.dirname(os.path.dirname(os.path.abspath(__file__)))}
        _QUIET_ROOTS.extend(sorted(os.path.normpath(r) for r in roots if r))
    return _QUIET_ROOTS


def check_audit(sim, env, verdict=True):
    """Judge what the audit hook recorded since the last call.  verdict=False (direct-shell instrumentation): count only."""
    log = _AUD["log"]
    if not log:
        return
    recs = list(log)
    del log[:]
    for event, paths, attributed, readonly in recs:
        for p in paths:
            try:
                np = M.norm(p)
            except Exception:
                continue
            if M.inside(env.parent, np):
                # the root's neighbourhood: every access here is judged, whoever made it
                sim.event("fs", event, env.rel(np))
                if M.inside(env.root, np):
                    continue
                if verdict:
                    sim.fail("fs-confined", "%s:%s" % (event, env.kind(np)), "%s(%s) is outside the root %s/" % (event, env.rel(np), env.rootname))
                sim.probe("shell_layer_direct_fs_escape_no_verdict")
            elif attributed and not (readonly and any(M.inside(r, np) for r in _quiet_roots())):
                # anywhere else: judged only when the call stack shows FTP/FilePath code made the call itself
                sim.event("fs", event, "<elsewhere>")
                if verdict:
                    sim.fail("fs-confined", "%s:elsewhere" % event, "%s(%r) made by FTP/FilePath code is outside the root" % (event, np))
                sim.probe("shell_layer_direct_fs_escape_no_verdict")
            # else: the interpreter's own accesses (imports, source lines for tracebacks, ...): irrelevant


# ------------------------------------------------------------------ direct shell family (layer 2 on its own)

class _PullSink:
    """Minimal IConsumer used to drain an IReadFile."""

    def __init__(self):
        self.data = bytearray()
        self.producer = None

    def registerProducer(self, producer, streaming):
        self.producer = producer

    def unregisterProducer(self):
        self.producer = None

    def write(self, data):
        self.data += data


def run_shell(sim, env):
    writable = sim.draw_bool(0.7, "writable")
    sim.config = {"family": "shell", "writable": writable, "rootname": env.rootname, "sibling": env.sibname}
    shell = (ftp.FTPShell if writable else ftp.FTPAnonymousShell)(filepath.FilePath(env.root))
    HOSTILE = ["..", ".", "", "a", "b", "c", "f0.txt", "f1.txt", "d2", "g.txt", env.sibname, env.rootname, "secret.txt", "hidden.txt", "/", "../" + env.sibname,
               env.sibname + "/hidden.txt", "../secret.txt", "/etc", "a/..", "a/../..", "new", "\x00", "~", "..\x00", "../" + env.rootname, "..", ".."]
    hostile = 0

    def segs():
        return [sim.draw_choice(HOSTILE, "seg") for _ in range(sim.draw_int(0, 4, "nsegs"))]

    results = []

    def call(name, *args):
        nonlocal hostile
        sim.event("call", name, *[repr(a) for a in args])
        del results[:]
        for a in args:
            if isinstance(a, list) and not M.inside(env.root, M.resolve_segments(env.root, a)):
                hostile += 1
                sim.probe("shell_layer_direct_hostile_segments")
        try:
            with GATE:
                d = getattr(shell, name)(*args)
                d.addCallbacks(lambda r: results.append(("ok", r)), lambda f: results.append(("err", f.type.__name__)))
        except Exception as e:          # property is silent on how a refusal is signalled
            results.append(("raised", type(e).__name__))
            if type(e).__name__ == "InsecurePath":
                sim.probe("shell_layer_direct_refused_insecurepath")
        finally:
            _AUD["on"] = False
        kind, val = results[-1] if results else ("none", None)
        sim.event("result", kind, val if kind != "ok" else "")
        if kind == "ok" and name == "openForReading":
            sink = _PullSink()
            try:
                with GATE:
                    val.send(sink)
                    for _ in range(2000):
                        if sink.producer is None:
                            break
                        sink.producer.resumeProducing()
            except Exception as e:
                _AUD["on"] = False
                sim.event("raised", "send", type(e).__name__)
            if CMARK in sink.data:
                sim.probe("shell_layer_direct_leak_no_verdict")
                sim.event("direct-leak", "read")
        elif kind == "ok" and name == "openForWriting":
            try:
                with GATE:
                    val.receive().addCallback(lambda c: (c.registerProducer(object(), True), c.write(b"w"), c.unregisterProducer()))
            except Exception as e:
                _AUD["on"] = False
                sim.event("raised", "receive", type(e).__name__)
        elif kind == "ok" and name == "list":
            names = [n if isinstance(n, str) else os.fsdecode(n) for n, _ in val]
            if any(NMARK in n for n in names):
                sim.probe("shell_layer_direct_leak_no_verdict")
                sim.event("direct-leak", "list")
            sim.event("listed", len(names))
        check_audit(sim, env, verdict=False)

    ops = ["list", "stat", "access", "openForReading", "openForWriting", "makeDirectory", "removeDirectory", "removeFile", "rename"]
    for _ in range(sim.draw_int(1, 8, "nops")):
        op = sim.draw_choice(ops, "op")
        if op == "rename":
            call(op, segs(), segs())
        elif op == "stat":
            call(op, segs(), ("size",))
        elif op == "list":
            call(op, segs(), sim.draw_choice([(), ("size", "directory")], "keys"))
        else:
            call(op, segs())
    sim.nontrivial = hostile > 0


# ------------------------------------------------------------------ entry point

def run(sim):
    _install_hook()
    _teardown()
    family = sim.draw_weighted([("session", 47), ("shell", 3)], "family")
    env = Scratch(sim)
    _CUR["env"] = env
    try:
        env.build()
        # a '~' that some layer expanded would land next to the secret, where the oracle looks
        _CUR["home"] = os.environ.get("HOME")
        os.environ["HOME"] = env.parent
        # FilePath draws the names of its temporary siblings from os.urandom: a per-run counter instead (unique names, same on replay)
        _CUR["randomBytes"] = filepath.randomBytes
        serial = [0]

        def counted_bytes(n):
            serial[0] += 1
            return (b"%06d" % serial[0]).rjust(n, b"t")[:n] if n >= 6 else b"t" * n

        filepath.randomBytes = counted_bytes
        before = env.snapshot()
        _AUD["budget"] = {"parent": env.parent, "left": FS_CALL_BUDGET}
        if family == "session":
            cfg = {
                "family": "session",
                "writable": sim.draw_bool(0.65, "writable"),
                "idle": sim.draw_choice([600, 600, 20, 5], "idle"),
                "dtp_timeout": sim.draw_choice([10, 10, 2], "dtp_timeout"),
                "chunk": sim.draw_choice([2 ** 14, 1000, 64, 7], "chunk"),
                "impatient": sim.draw_bool(0.3, "impatient"),
                "loss_at": sim.draw_int(1, 80, "loss_at") if sim.draw_bool(0.15, "ctrl_loss") else None,
                "host": sim.draw_weighted([("v4", 10), ("mapped", 1), ("v6", 1)], "host"),
                "ascii": sim.draw_bool(ASCII_P, "ascii"),
                "rootname": env.rootname, "sibling": env.sibname, "dup_inside": env.dup_inside, "population": env.population,
                "os_refusal": None, "other_fs": None,
            }
            if sim.draw_bool(REFUSAL_P, "os_refusal"):
                # the k-th call of the drawn class on a path inside the root is refused by the "kernel" with the drawn errno
                cfg["os_refusal"] = [sim.draw_choice(REFUSAL_CLASSES, "refusal_class"), sim.draw_int(1, 4, "refusal_k"),
                                     sim.draw_choice(REFUSAL_ERRNOS, "refusal_errno"), sim.draw_weighted(RENAME_ERRNOS, "refusal_rename_errno")]
                cls, k, errname, rename_errname = cfg["os_refusal"]
                _AUD["fault"] = {"cls": cls, "k": k, "errno": getattr(errno, errname), "errname": errname, "rename_errname": rename_errname,
                                 "root": env.root, "seen": 0, "fired": None, "reported": False}
            if sim.draw_bool(OTHER_FS_P, "other_fs"):
                # directories of the tree are other file systems: renames / links across their boundaries fail with EXDEV for the whole session
                cfg["other_fs"] = sim.draw_choice(OTHER_FS_LAYOUTS, "other_fs_layout")
                _AUD["xdev"] = {"root": env.root, "dirs": [os.path.join(env.root, *d.split("/")) for d in cfg["other_fs"]], "fired": 0, "reported": 0}
            sim.config = cfg
            sim.probe("root_population:" + env.population)
            _CUR["chunk"] = basic.FileSender.CHUNK_SIZE
            basic.FileSender.CHUNK_SIZE = cfg["chunk"]
            Session(sim, env, cfg).run()
        else:
            run_shell(sim, env)
        _AUD["on"] = False
        if _AUD["budget"]["left"] < 0:
            sim.probe("fs_call_budget_exhausted_no_verdict")
            sim.event("fs-call-budget-exhausted")
        if env.population == "missing":
            if os.path.lexists(env.root):
                sim.probe("missing_root_made_by_session_no_verdict")   # 'MKD x' creates the root on its way (a 'STOR /' a plain file): inside
        elif not os.path.lexists(env.root):
            sim.probe("root_itself_removed_by_session_no_verdict")     # e.g. 'RMD /' on an empty root: the root is not outside the root
        # (a following 'STOR /' may leave a plain file there, about one run in 16000: still the root's own name, see Scratch.snapshot)
        after = env.snapshot()
        if before != after:
            changed = sorted(k for k in set(before) | set(after) if before.get(k) != after.get(k))
            if family == "session":
                sim.fail("outside-unchanged", "changed", "entries outside the root that differ after the session: %r" % (changed[:6],))
            sim.probe("shell_layer_direct_outside_changed_no_verdict")
            sim.event("direct-outside-changed", len(changed))
    finally:
        _teardown()


MUTANTS = [
    "(tools/mutate.py C54 quick, VERIF_WORKERS=4; 'caught' = exit 1 with the named signature; 'masked' = exit 0 on all 24000 runs because the OTHER layer still confines "
    "the path, so C54 holds on the mutated tree - the named no-verdict probe leaves zero)",
    # ---- single-site changes that really escape end-to-end (the must-catch set)
    "S1 ftp.py FTPAnonymousShell._path: a leading '~' segment is expanded with os.path.expanduser (HOME = scratch parent) -> caught fs-confined:os.listdir:parent / open:sibling / os.rename:sibling (253 runs)",
    "S2 ftp.py _path: resolves against filesystemRoot.parent() (off-by-one root) -> caught fs-confined:os.listdir:sibling / os.rmdir:other / os.remove:other (42 runs)",
    "S3 ftp.py _path: FTP path mapped to the filesystem-absolute path '/'+'/'.join(segments) -> caught fs-confined:os.listdir:elsewhere / os.rmdir:elsewhere (stack attribution; 38 runs)",
    "S5 ftp.py FTPShell.rename: target = fp.sibling(toPath[-1]) (only the RNTO target misbehaves, only when the source is the root) -> caught fs-confined:os.rename:other / :sibling (800 runs)",
    "S6 ftp.py ftp_NLST: the glob branch additionally runs glob.glob on root+cwd+raw argument -> caught fs-confined:os.scandir:parent / :elsewhere (800 runs)",
    "S7 filepath.py FilePath.child: joins the name to dirname(ourPath); the prefix-without-separator check then lets exactly the prefix-named sibling through -> caught fs-confined:os.listdir:sibling / os.rmdir:sibling (439 runs)",
    "S9 ftp.py FTPShell.makeDirectory: creates the parents of the target first (p.parent().makedirs) -> caught fs-confined:os.mkdir:parent on 'MKD /' (800 runs)",
    "S11 ftp.py FTPAnonymousShell.access: lists p.parent() -> caught fs-confined:os.listdir:parent (105 runs)",
    "S14 filepath.py FilePath.descendant: path.sibling(name) instead of path.child(name) -> caught fs-confined:os.listdir:sibling / os.remove:secret (49 runs)",
    "S15 ftp.py FTPAnonymousShell.list: stats filePath.sibling(name) instead of child(name) -> SURVIVES, deliberately: only os.stat touches the parent (LIST then reports size/mtime of the "
    "parent's secret.txt); stat is not among the statement's verbs (opens, lists, creates, renames, deletes) and raises no audit event: no verdict",
    # ---- both layers broken (DESIGN must-catch list realised end-to-end)
    "Da toSegments appends '..' at depth 0 + _path via preauthChild('/'.join(segments)) (containment by string prefix without separator) -> caught fs-confined:open:sibling / os.listdir:sibling / os.rename:sibling (139 runs); "
    "with fs-confined switched off (dev-only wrapper) the same double mutant is caught by outside-unchanged:changed alone and by no-leak:data alone",
    "Db RNTO target not normalised (ftp_RNTO) + FTPShell.rename target joined textually -> caught fs-confined:os.rename:secret / :sibling / :elsewhere (454 runs)",
    "Dc1 ftp_STOR target not normalised + FilePath.child without its two checks -> caught fs-confined:open:sibling / :other / :elsewhere (396 runs)",
    "Dc2 ftp_MKD target not normalised + FilePath.child without checks -> caught fs-confined:os.mkdir:parent / :other / :elsewhere (313 runs)",
    "Dd ftp_NLST bypasses toSegments only for arguments containing '*' + FilePath.child without checks -> caught fs-confined:os.listdir:parent / :elsewhere (800 runs)",
    "De cwd stored unnormalised after CWD (later relative path escapes) + FilePath.child without checks -> caught fs-confined:os.listdir:sibling / open:other / os.mkdir:other (800 runs)",
    "Df ftp_LIST argument not normalised + _path via preauthChild -> caught fs-confined:os.listdir:sibling (800 runs)",
    "Dg toSegments maps a leading '/' to the segment '/' (FTP-absolute = filesystem-absolute) + FilePath.child without checks -> caught fs-confined:os.listdir:elsewhere / open:elsewhere (49 runs)",
    # ---- round 3: a segment is cleaned up AFTER the comparison with '..' (so a decorated '..' survives toSegments as a literal '..') + _path via preauthChild('/'.join(segments));
    #      reaches exactly the prefix-named sibling.  Needs the decorated-parent-reference family (respelt_parent_reference:* probes)
    "R1 toSegments strips NUL from a segment after the '.'/'..' comparison instead of refusing it + _path via preauthChild -> caught fs-confined:open:sibling / os.listdir:sibling / os.remove:sibling "
    "within the first 400 runs (e.g. 'RETR ..\\0/pub2/hidden.txt', 'CWD ..\\0/pub2/hidden.txt', 'DELE ..\\0/pub2/h?dden.txt'); missed before the family existed",
    "R2 same with s.strip() (blanks / tab / CR trimmed late) -> caught fs-confined:os.listdir:sibling / open:other / os.rmdir:sibling (450 runs)",
    "R3 same with urllib unquote of the segment (late percent-decoding; '%2e%2e', '..%2f', '..%00') -> caught fs-confined:os.listdir:sibling / open:other (400 runs)",
    "R4 same with s.split(';')[0] (path parameters dropped late) -> caught fs-confined:os.listdir:sibling / os.rename:sibling (500 runs)",
    "R5 same with the segment split at backslashes late ('..\\', '\\..') -> caught fs-confined:open:sibling / os.listdir:sibling / os.rmdir:sibling (500 runs)",
    "R6 same with control characters (< 0x20, 0x7f) removed late -> caught fs-confined:open:sibling / os.listdir:sibling / os.rmdir:sibling (400 runs)",
    "R7 same with s.rstrip('. ') or s (a '..' followed by dots/blanks collapses to the empty string and falls back to the literal name) -> survives, correctly: no parent reference is produced",
    # ---- round 4: clean-up / fallback code that runs after a FAILED or emptying operation and is not bounded by the root.  Needs the sparse / empty root populations
    #      (root_population:* probes) and a failing call (natural ENAMETOOLONG from over-long new names, or the injected os_refusal:* fault)
    "F1 ftp.py FTPShell.makeDirectory: on OSError other than EEXIST, os.removedirs(p.parent().path) 'tidies up' the intermediate directories (seed C54-r4b) -> caught "
    "fs-confined:os.rmdir:parent within 1300-3700 runs (empty root + MKD refused with ENOSPC/..., or MKD of an over-long name: removedirs empties root and goes on with its parent); "
    "caught as well with the refusal fault switched off (ENAMETOOLONG route alone, 3550 runs) ; missed before the populations existed (the full root stops removedirs inside the root)",
    "F2 ftp.py FTPShell.removeDirectory: os.removedirs(p.path) instead of os.rmdir (prunes emptied parents) -> caught fs-confined:os.rmdir:parent (2150 runs; chain / empty populations)",
    "F3 ftp.py FTPShell.removeFile: after p.remove(), os.removedirs(p.parent().path) (errors swallowed) -> caught fs-confined:os.rmdir:parent (3450 runs; one-file population, or STOR then DELE on an empty root)",
    "F4 ftp.py FTPShell.openForWriting: on ENOSPC/EROFS/EDQUOT the upload is spooled into filesystemRoot.sibling('spool-'+name) -> caught fs-confined:open:other (2200 runs; needs os_refusal:open)",
    "F5 ftp.py FTPShell.removeDirectory: on EBUSY the directory is renamed to filesystemRoot.sibling('.trash') -> caught fs-confined:os.rename:other (2100 runs; needs os_refusal:rmdir)",
    # ---- round 5: code that works BESIDE its argument (temporary sibling, parent) after a refused rename.  Needs arguments that name the root itself (root_spelling:* /
    #      path_argument_names_the_root:* probes) and EXDEV from rename (os_refusal:cross_device, os_refusal_rename_specific_errno:EXDEV)
    "X1 ftp.py FTPShell.rename: fp.moveTo(tp) instead of os.rename (FilePath's EXDEV fallback copies to destination.temporarySibling(); seed C54-r5a) -> caught "
    "fs-confined:os.mkdir:other / open:other (14 of the first 8000 runs: RNTO '/', '..', 'a/..' with the source on another file system); missed before (no EXDEV, RNTO rarely the root). "
    "The same change copies a directory into itself for 'RNFR a' + 'RNTO a/b/n' across a mount: the FS_CALL_BUDGET bound ends such runs",
    # ---- round 6: code that works beside its argument when the argument is the root and the root is NOT A DIRECTORY (yet / any more).  Needs the "missing" population
    #      (root_population:missing) or a root removed under the session followed by a new login (logged_in_again:*), plus a root spelling as the argument
    "Y1 ftp.py FTPShell.openForWriting: the upload goes to p.temporarySibling('.part') and _FileWriter.close() moves it into place (seed C54-r6b) -> caught "
    "fs-confined:open:other at run 153 of the quick tier ('STOR .' / 'STOR /' on a root that does not exist: the partial file is made in the root's parent); missed before "
    "(with an existing root p.isdir() refuses the upload first; within one login the root FilePath's cached stat still says 'directory' after 'RMD /')",
    "G1 GENUINE DEFECT of the tree as first examined, REPAIRED in /repo 89087ce (knob ROOT_BASE_MISSING_P = 0.3 lets its precondition into that share of the 'missing' runs; 0 only "
    "for dev-time comparison): with ROOT_BASE_MISSING_P > 0 the root is <parent>/home/<name> and <parent>/home "
    "does not exist either; 'USER alice, PASS pw, MKD f0.txt' -> FTPShell.makeDirectory -> FilePath.makedirs -> os.makedirs created <parent>/home, then the root, then the "
    "directory: fs-confined:os.mkdir:root-ancestor (and outside-unchanged:changed), run 53 of a quick tier at 0.5.  Stand-alone (before the repair): "
    "FTPShell(FilePath(t).child('users').child('alice')).makeDirectory(['x']) created t/users; STOR in the same state answers ENOENT and creates nothing.  Repair: "
    "makeDirectory answers ENOENT when the root's parent is not a directory",
    # ---- one layer broken, the other still confines: property holds, instrumentation reports it
    "M1 toSegments: '..' at depth 0 appended instead of InvalidPath -> masked (FilePath.child raises InsecurePath -> 550); ftp_layer_passed_unconfined_segments_no_verdict = 41030",
    "M1b toSegments: '..' at depth 0 silently ignored -> equivalent for C54 (stays in the root); no probe",
    "O1 toSegments: compares with '...' instead of '..' -> masked; ftp_layer probe 56829",
    "M3 ftp_RNTO: target = cwd + toName.split('/') -> masked; ftp_layer probe 2368",
    "O3 ftp_RNTO: source not normalised -> masked; ftp_layer probe 3452",
    "M4 ftp_CWD: working directory stored unnormalised -> masked; ftp_layer probe 3157",
    "O2 ftp_CDUP: appends '..' to the working directory -> masked; ftp_layer probe 18660",
    "M5/O17/O4a/O4b ftp_STOR / ftp_RETR / ftp_DELE / ftp_NLST argument not normalised -> masked; ftp_layer probe 3146 / 5664 / 3667 / 1180",
    "M2 _path via preauthChild('/'.join(segments)) (prefix without separator) -> masked by toSegments; shell_layer_direct_fs_escape_no_verdict = 107, _leak 12, _outside_changed 16",
    "O5 FilePath.child: both checks removed -> masked; shell_layer_direct_fs_escape 1007, _leak 57, _outside_changed 54",
    "O6 FilePath.child: only the startswith check removed -> masked; shell_layer_direct_fs_escape 268",
    "O7 FTPShell.rename: target joined textually -> masked; shell_layer_direct_fs_escape 63",
    "O13 FilePath.descendant: preauthChild(name) per segment -> masked; shell_layer_direct_fs_escape 69",
]
