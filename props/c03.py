"""C03 — a Deferred delivers one result; cancellation follows its protocol.

Engine E1 (tasks): histories of length <= 10 (short ones favoured) over one real
outer Deferred and up to three inner Deferreds: callback / errback / cancel on
the outer, "add a callback that returns a new unfired inner Deferred" (to the outer
or to an earlier inner one, so chains of depth 3+ form), fire or cancel an inner.  Every Deferred has a tape-chosen canceller in {none, does
nothing, fires callback, fires errback, raises}.  Wherever a failure is offered (errback operations, the errback-firing
canceller) the form is tape-chosen among the documented ones: errback(exception), errback(Failure), argument-less
errback() from inside an except block.  Deferred debugging (defer.setDebugging) is a per-run configuration value (on
in a quarter of the runs, restored afterwards).  The class of every Deferred is tape-chosen too (per-run knob: all plain
Deferreds / mixed / all subclass instances; the subclasses - a direct one and a subclass of it with its own constructor -
override nothing of the protocol), so a plain Deferred waits on a subclass instance and the other way round.
Results do not only come from the caller: the operation "chain" hands a feeder Deferred (a new one, or an earlier feeder that
fans out to one more target) to chainDeferred() with any Deferred of the pool as the target - the documented shorthand for
feeder.addCallbacks(target.callback, target.errback) - and feeders are fired / cancelled like inner ones, so a Deferred the outer
waits on gets its result (or a second one, or the one ignored late one) from another Deferred's callback list, and a forwarded
cancel meets a Deferred that some feeder is chained to.  The canceller callable comes in a tape-chosen form {function, bound
method, functools.partial, callable instance, callable collection} (per-run knob: all functions / any form).  Operations stay enabled after
the Deferred has fired (that is the point: second results, late results after a
canceller-less cancel, cancel of a fired Deferred).  Oracle: the reference state
machine in models/deferred.py (one result; suppress-one-after-cancel; canceller
exactly once on an unfired Deferred; CancelledError unless the canceller fired;
cancel of a fired, waiting Deferred forwards to the one it waits on), compared
after every operation: AlreadyCalledError raised or not, canceller call counts,
recorded callback inputs, result / pending callbacks of every Deferred.
"""
import functools

from twisted.internet import defer
from twisted.python.failure import Failure

from models.deferred import Interp, AlreadyCalled, CancellerRaised, CANCELLED
from props._defer_util import Boom, absres, real_view

ID = "C03"
ENGINE = "tasks"
LEVEL = "exploration"
TECHNIQUE = ("deterministic simulation: seeded histories of callback/errback/cancel/chain-to-inner/fire-inner/chainDeferred-feeder operations "
             "on real Deferreds vs a reference state machine, compared after every operation")
QUICK_RUNS = 60000
TWIN_P = 0.08   # this share of the runs drives two independent instances of the scenario one after the other (detsim.runner._run_scenario)
BATCH = 800
COMPONENTS = {"real": ["twisted.internet.defer.Deferred (callback/errback/cancel/_startRunCallbacks/_runCallbacks)"],
              "stub": ["order of the caller's operations (tape)"]}
RULE = ("run = history of 2..10 tape-chosen operations {callback, errback, cancel, add callback returning a new unfired inner Deferred, "
        "fire inner, cancel inner} on one outer Deferred (+ up to 3 inners), cancellers drawn from {none, noop, fires callback, fires errback, raises}; "
        "every failure is offered in a tape-chosen documented form {errback(exception), errback(Failure), bare errback() inside an except block}; "
        "Deferred debugging (defer.setDebugging) is on in a quarter of the runs (per-run knob, restored in a finally and in cleanup()); "
        "every Deferred is an instance of a tape-chosen class {Deferred, a direct application subclass, a subclass of that with its own "
        "constructor and attribute}; per-run knob classes in {plain, mixed, subclasses}, none of the subclasses overrides anything of the protocol; "
        "operation chain (per-run weight w_chain in {2, 0, 4}): feeder.chainDeferred(target) with a new feeder Deferred (at most 2; own "
        "canceller and class) or an earlier one (possibly fired: the target is fed at once) and a target among the inners, the outer and "
        "earlier feeders; feeders are fired and cancelled by the fire-inner / cancel-inner operations; the reference machine treats the "
        "chain entry as the documented addCallbacks(target.callback, target.errback) and never as a waiting relation; "
        "the canceller callable has a tape-chosen form {function, bound method, functools.partial, callable instance, non-empty callable "
        "collection} (per-run knob all-functions / any) plus, in the FALSY_CANCELLER_P share of the runs, an EMPTY callable collection "
        "(truth value False - precondition of the genuine defect listed in MUTANTS; verdicts of such runs carry '@falsy-canceller'); "
        "non-trivial = a cancel was issued AND (a result was offered to an already-fired Deferred OR the outer waited on an inner); "
        "abstract_states = distinct (canceller kinds, history) of length <= 8 reached")
ASSUMPTIONS = ["operations are issued from outside callbacks (cancellers fire only the Deferred they are given); the one exception is the "
               "chainDeferred entry of a feeder, which offers the feeder's result to its target from inside the feeder's callback list - "
               "feeders are never returned from callbacks and feed only Deferreds created before them, so no Deferred is entered while one "
               "of its own callbacks executes",
               "chainDeferred(d) is what its documentation says, a shorthand for addCallbacks(d.callback, d.errback): the result reaches "
               "the target as an ordinary callback/errback (accepted, or ignored as the one late result, or refused with AlreadyCalledError, "
               "which then is the feeder's current failure) and the feeder continues with None; it is not 'waiting on' in the sense of the "
               "statement, so cancel() of the target never touches the feeder and a cancel forwarded to the target stops there",
               "'its canceller' is whatever callable was given to the constructor (documented: 'a callable'); only None means 'without a "
               "canceller' - the truth value of the callable plays no part in the statement",
               "a canceller that calls cancel() again on the Deferred it was given (directly or through a Deferred waiting on it) is not "
               "generated: the statement taken per cancel() call demands one canceller call for every cancel() of a still unfired Deferred, "
               "which is what the tree does (n nested cancels = n calls, unbounded recursion if the canceller never stops); read 'once per "
               "Deferred' it would demand a re-entrancy guard the documentation does not promise - no verdict either way",
               "the statement does not depend on how the failure is handed to errback() nor on the Deferred debugging flag: the same "
               "reference machine is used for every errback form and with debugging on or off (the text of AlreadyCalledError, which "
               "debugging extends with creation/invocation stacks, is never inspected or logged)",
               "'a Deferred' in the statement includes instances of subclasses of Deferred (the class is documented as subclassable and "
               "Twisted itself returns subclass instances, e.g. DeferredList): the same reference machine is used whatever the class; "
               "the harness subclasses are defined once at import (Deferred.__init_subclass__ keeps a process-wide registry) and override "
               "no method of the protocol, only the constructor signature of the second one differs",
               "the argument-less errback() is only used inside an except block (without a current exception it documents "
               "NoCurrentExceptionError, which is outside this statement)",
               "a canceller that raises: the statement does not say whether cancel() propagates the exception and leaves the Deferred "
               "unfired, or errbacks with CancelledError; both are accepted (anything else is a violation)"]

# The canceller is "a callable" (Deferred.__init__): the forms an application hands over.  The last one is a callable
# COLLECTION (a list of hooks that is itself the canceller); an empty one is a callable like any other but its truth value is
# False.  Genuine defect of the tree as first examined, REPAIRED in /repo 6765c5e (Deferred.cancel tested `if canceller:` - a given
# canceller whose truth value is False was never called and the Deferred was treated as canceller-less, see MUTANTS): the empty
# collection joins the forms in this share of the runs (0.3; setting it to 0 is only for dev-time comparison).
CANCELLER_FORMS = [("function", 6), ("method", 2), ("partial", 2), ("object", 2), ("collection", 1)]
FALSY_CANCELLER_P = 0.3
FALSY_CANCELLER_W = 3     # weight of "empty-collection" among CANCELLER_FORMS in those runs


class CancellerBoom(Exception):
    pass


class _Operation:
    """An application object whose bound method is the canceller."""

    def __init__(self, f):
        self.f = f

    def stop(self, d):
        return self.f(d)


class _Stopper:
    """A callable instance."""

    def __init__(self, f):
        self.f = f

    def __call__(self, d):
        return self.f(d)


class CancelHooks(list):
    """A callable collection: calling it runs `first`, then every hook it holds.  Like every list it is false when empty."""

    def __init__(self, first, hooks=()):
        list.__init__(self, hooks)
        self.first = first

    def __call__(self, d):
        self.first(d)
        for h in self:
            h(d)


def canceller_in_form(form, f):
    if form == "function":
        return f
    if form == "method":
        return _Operation(f).stop
    if form == "partial":
        return functools.partial(lambda why, d: f(d), "user-gave-up")
    if form == "object":
        return _Stopper(f)
    if form == "collection":
        return CancelHooks(f, [lambda d: None])
    return CancelHooks(f)      # "empty-collection"


# The statement speaks of "a Deferred": an instance of an application-defined subclass IS one (Deferred is documented as
# subclassable; DeferredList and the Deferreds of several Twisted APIs are subclass instances).  Two subclasses that override
# nothing of the protocol: a direct one, and an indirect one with a constructor and state of its own.
class AppDeferred(defer.Deferred):
    """A direct application-defined subclass; nothing overridden."""


class TaggedDeferred(AppDeferred):
    """A subclass of a subclass, with its own constructor signature and an attribute of its own."""

    def __init__(self, tag, canceller=None):
        AppDeferred.__init__(self, canceller)
        self.tag = tag


DEFERRED_CLASSES = {"Deferred": lambda name, rc: defer.Deferred(rc),
                    "AppDeferred": lambda name, rc: AppDeferred(rc),
                    "TaggedDeferred": lambda name, rc: TaggedDeferred(name, canceller=rc)}
CLASS_MIX = {"plain": [("Deferred", 1)],
             "mixed": [("Deferred", 3), ("AppDeferred", 2), ("TaggedDeferred", 2)],
             "subclasses": [("AppDeferred", 1), ("TaggedDeferred", 1)]}


# the documented ways of handing a failure to errback(): an exception instance, a ready-made Failure, or no argument at all
# from inside an except block ("None to create a Failure instance from the current exception state")
ERRBACK_FORMS = [("exception", 4), ("failure", 2), ("bare", 3)]


def errback_with(d, form, tag):
    """Offer the failure Boom(tag) to d in one of the documented forms."""
    if form == "exception":
        d.errback(Boom(tag))
    elif form == "failure":
        d.errback(Failure(Boom(tag)))
    else:
        try:
            raise Boom(tag)
        except Boom:
            d.errback()


def cleanup(sim):
    # Deferred debugging is process-wide state: never let a run (however it ended) leave it switched on
    defer.setDebugging(False)


def run(sim):
    # Deferred debugging (defer.setDebugging; what `trial --debug-stacktraces` / `twistd --debug` switch on) is a per-run
    # configuration value: the protocol of the statement holds with it on or off.  The creation / invocation stacks it
    # records never reach the trace (only abstract names and verdicts are logged).
    debug = sim.draw_weighted([(False, 3), (True, 1)], "debug")   # recording stacks is slow: a quarter of the runs
    was = defer.getDebugging()
    defer.setDebugging(debug)
    try:
        _run(sim, debug)
    finally:
        defer.setDebugging(was)


def _run(sim, debug):
    nops = sim.draw_weighted([(2, 1), (3, 2), (4, 3), (5, 3), (6, 3), (7, 3), (8, 3), (9, 1), (10, 1)], "nops")
    w_cancel = sim.draw_choice([3, 1, 5], "w_cancel")
    w_chain = sim.draw_choice([2, 0, 4], "w_chain")     # weight of the chainDeferred operation (per-run knob; 0 = none)
    # which classes the Deferreds of this run are instances of (per-run knob; with "mixed" a plain Deferred waits on a
    # subclass instance and the other way round)
    classes = sim.draw_weighted([("plain", 2), ("mixed", 3), ("subclasses", 1)], "classes")
    # the form of the canceller callables (see CANCELLER_FORMS): per-run knob "all plain functions" / any form
    cforms = sim.draw_weighted([("function", 1), ("any", 1)], "canceller-forms")
    falsy_run = sim.draw_bool(FALSY_CANCELLER_P, "falsy-canceller-run")
    forms = CANCELLER_FORMS + ([("empty-collection", FALSY_CANCELLER_W)] if falsy_run else [])
    m = Interp()
    real = {}
    rlog = []
    calls = {}      # name -> real canceller call count
    klass = {}      # name -> name of the class the real Deferred is an instance of
    cform = {}      # name -> form of its canceller callable (None without a canceller)
    fed = set()     # names of the Deferreds some feeder was chained to (chainDeferred)
    st = {"cid": 0, "val": 0, "inners": 0, "srcs": 0, "falsy": False}
    history = []
    flags = {"cancel": 0, "refire": 0, "waited": 0}

    def fresh():
        st["val"] += 1
        return st["val"]

    def new_deferred(name):
        kind = sim.draw_weighted([(None, 3), ("noop", 2), ("callback", 1), ("errback", 1), ("raise", 1)], "canceller")
        eform = sim.draw_weighted(ERRBACK_FORMS, "canceller-errback-form") if kind == "errback" else None
        calls[name] = 0
        cform[name] = None
        if kind is None:
            mc, rc = None, None
        else:
            payload = fresh()
            mc = {"noop": "noop", "raise": "raise", "callback": ("callback", payload), "errback": ("errback", "c%d" % payload)}[kind]

            def rc(d):
                calls[name] += 1
                if d is not real[name]:
                    sim.fail("canceller-argument", name, "canceller of %s was passed another object" % name)
                if kind == "callback":
                    d.callback(payload)
                elif kind == "errback":
                    sim.probe("canceller_errback_" + eform)
                    errback_with(d, eform, "c%d" % payload)
                elif kind == "raise":
                    raise CancellerBoom(name)
            cform[name] = sim.draw_weighted(forms, "canceller-form") if cforms == "any" else "function"
            rc = canceller_in_form(cform[name], rc)
        m.new(name, mc)
        mix = CLASS_MIX[classes]
        klass[name] = sim.draw_weighted(mix, "class") if len(mix) > 1 else mix[0][0]
        if klass[name] != "Deferred":
            sim.probe("subclass_instance_" + klass[name])
        d = real[name] = DEFERRED_CLASSES[klass[name]](name, rc)
        d.vname = name
        return kind

    def make(dname, beh):
        st["cid"] += 1
        cid = st["cid"]

        def f(res):
            rlog.append((dname, cid, absres(res, None)))
            if beh[0] == "echo":
                return res
            return real[beh[1]]
        f.cid = cid
        return f, (cid, beh)

    def add_both(dname, beh):
        f, spec = make(dname, beh)
        m.add(m.ds[dname], spec, spec)
        real[dname].addBoth(f)

    outer_kind = new_deferred("outer")
    sim.config = {"nops": nops, "outer_canceller": outer_kind, "w_cancel": w_cancel, "w_chain": w_chain, "debug": debug, "classes": classes,
                  "outer_class": klass["outer"], "canceller_forms": cforms, "falsy_canceller_run": falsy_run}
    history.append("canc=%s" % outer_kind)
    add_both("outer", ("echo",))       # recorder: sees the one result the outer delivers

    def W(op):
        # witness of a verdict: the operation kind; runs in which a canceller whose truth value is False was due are marked
        return op + ("@falsy-canceller" if st["falsy"] else "")

    def digest_notes():
        """Count what the reference machine met during the operation just issued (probes / faults)."""
        for note in m.notes:
            if note[0] == "canceller":
                f = cform[note[1]]
                if f != "function":
                    sim.probe("canceller_called_form_" + f)
                if f == "empty-collection":
                    st["falsy"] = True
                    sim.fault("canceller_with_false_truth_value_due")
            elif note[0] == "forward-cancel":
                if note[2] in fed:
                    sim.fault("cancel_forwarded_to_chain_target")
                if note[1].startswith("src"):
                    sim.probe("cancel_forwarded_from_feeder")
            elif note[0] == "feed":
                called, suppress = note[3], note[4]
                sim.probe("feed_accepted" if not called else "feed_ignored_as_late_result" if suppress else "feed_refused_already_called")
        del m.notes[:]

    def offer(name, how):
        """callback/errback on a Deferred that may or may not have fired already."""
        md, d = m.ds[name], real[name]
        form = sim.draw_weighted(ERRBACK_FORMS, "errback-form") if how == "errback" else "value"
        if md.called:
            flags["refire"] += 1
            sim.probe("late_result_ignored" if md.suppress else "second_result")
            if how == "errback":
                sim.probe(("late_errback_" if md.suppress else "second_errback_") + form)
            if debug:
                sim.probe("late_result_ignored_debug" if md.suppress else "second_result_debug")
            if klass[name] != "Deferred":
                sim.probe("late_result_ignored_subclass_instance" if md.suppress else "second_result_subclass_instance")
        v = fresh()
        try:
            want = m.fire(md, ("V", v) if how == "callback" else ("F", "e%d" % v))
        except AlreadyCalled:
            want = "AlreadyCalledError"
        try:
            if how == "callback":
                d.callback(v)
            else:
                errback_with(d, form, "e%d" % v)
            got = "accepted"
        except defer.AlreadyCalledError:
            got = "AlreadyCalledError"
        sim.event(how, form, name, v, want, got)
        if want == "AlreadyCalledError":
            sim.check("second-result-raises", got == "AlreadyCalledError", W("offer"), "%s.%s [%s, debug=%s] on a fired Deferred did not raise (model: must raise)" % (name, how, form, debug))
        elif want == "ignored":
            sim.check("one-late-result-ignored", got == "accepted", W("offer"), "%s.%s [%s, debug=%s] after canceller-less cancel raised AlreadyCalledError (model: silently ignored)" % (name, how, form, debug))
        else:
            sim.check("first-result-accepted", got == "accepted", W("offer"), "%s.%s [%s, debug=%s] on an unfired Deferred raised AlreadyCalledError" % (name, how, form, debug))

    def cancel(name):
        md, d = m.ds[name], real[name]
        flags["cancel"] += 1
        if not md.called:
            sim.fault("cancel_unfired")
        elif md.waiting_on is not None:
            sim.fault("cancel_waiting")
            if klass[md.waiting_on.name] != "Deferred":
                sim.fault("cancel_waiting_on_subclass_instance")
            if klass[name] != "Deferred":
                sim.probe("cancel_of_waiting_subclass_instance")
        else:
            sim.fault("cancel_fired")
        if name.startswith("src"):
            sim.fault("cancel_feeder_unfired" if not md.called else "cancel_feeder_fired")
        if name in fed and not md.called:
            sim.probe("cancel_unfired_chain_target")
        try:
            m.cancel(md)
            want = "returns"
        except CancellerRaised as e:
            want = "canceller-raised:" + e.args[0]
        try:
            d.cancel()
            got = "returns"
        except CancellerBoom as e:
            got = "canceller-raised:" + e.args[0]
        sim.event("cancel", name, want, got)
        if want.startswith("canceller-raised"):
            sim.probe("canceller_raised")
            victim = want.split(":")[1]
            if got == "returns":
                # the other admissible reading: the exception is absorbed and the Deferred is errbacked with CancelledError
                m.fire(m.ds[victim], CANCELLED)
            else:
                sim.check("canceller-exception-identity", got == want, W("cancel"), "model %s real %s" % (want, got))
        else:
            sim.check("cancel-returns", got == "returns", W("cancel"), "cancel(%s) raised out of a canceller the model did not expect to raise: %s" % (name, got))

    def add_inner():
        # the Deferred that gets the new callback: usually the outer one, sometimes an earlier inner one, so that waiting
        # chains of depth 3 and more (outer -> inner1 -> inner2, with the middle one fired or not) occur
        parents = ["outer"] + ["inner%d" % i for i in range(1, st["inners"] + 1)]
        parent = "outer" if len(parents) == 1 or not sim.draw_bool(0.35, "nested") else sim.draw_choice(parents[1:], "parent")
        st["inners"] += 1
        iname = "inner%d" % st["inners"]
        kind = new_deferred(iname)
        history.append("add-inner(%s%s)" % (kind, "" if parent == "outer" else "@" + parent))
        sim.event("add-inner", iname, kind, parent, klass[iname])
        if parent != "outer":
            sim.probe("inner_chained_to_inner")
        add_both(iname, ("echo",))                 # recorder on the inner: sees the inner's one result
        add_both(parent, ("deferred", iname))      # callback returning the (still unfired) inner
        add_both(parent, ("echo",))                # recorder: what the parent continues with afterwards

    def chain():
        # a result provider of its own: a feeder Deferred handed to chainDeferred(), the documented shorthand for
        # feeder.addCallbacks(target.callback, target.errback) - "any event that fires [the feeder] will also fire [the target]".
        # The target is any Deferred of the pool (an inner one the outer waits on or will wait on, the outer, an earlier
        # feeder); usually the feeder is new, sometimes an earlier one fans its result out to one more target (it may have
        # fired already: the target is then fed at once).  Feeders are never returned from callbacks and only feed
        # Deferreds created before them, so no Deferred is ever entered while one of its own callbacks executes.
        srcs = ["src%d" % i for i in range(1, st["srcs"] + 1)]
        inners = ["inner%d" % i for i in range(1, st["inners"] + 1)]
        if srcs and (st["srcs"] >= 2 or sim.draw_bool(0.25, "chain-existing-feeder")):
            sname = sim.draw_choice(srcs, "feeder")
            kind = "again"
            sim.probe("chain_from_earlier_feeder_fired" if m.ds[sname].called else "chain_from_earlier_feeder")
        else:
            st["srcs"] += 1
            sname = "src%d" % st["srcs"]
            kind = new_deferred(sname)
            add_both(sname, ("echo",))                 # recorder: the feeder's one result
        lower = [x for x in srcs if x < sname]
        target = sim.draw_choice(inners[::-1] + ["outer"] + lower, "chain-target")
        history.append("chain(%s:%s->%s)" % (kind, sname, target))
        sim.event("chain", sname, kind, target, klass[sname])
        mt = m.ds[target]
        sim.probe("chain_target_" + ("feeder" if target in lower else "outer" if target == "outer" else "inner"))
        sim.probe("chain_target_unfired" if not mt.called else "chain_target_fired")
        if any(x.waiting_on is mt for x in m.ds.values()):
            sim.probe("chain_target_is_waited_on")
        fed.add(target)
        m.chain(m.ds[sname], mt)
        real[sname].chainDeferred(real[target])
        add_both(sname, ("echo",))                     # recorder: what the feeder continues with afterwards

    with sim.guard("operation-raised"):
        for _ in range(nops):
            sim.step(50)
            del m.notes[:]
            inners = ["inner%d" % i for i in range(1, st["inners"] + 1)]
            inners += ["src%d" % i for i in range(1, st["srcs"] + 1)]     # feeders are fired / cancelled like inner ones
            op = sim.draw_weighted([("callback", 3), ("cancel", w_cancel), ("errback", 2),
                                    ("add-inner", 3 if st["inners"] < 3 else 0),
                                    ("fire-inner", 3 if inners else 0),
                                    ("cancel-inner", 1 if inners else 0),
                                    ("chain", w_chain)], "op")
            if op in ("callback", "errback"):
                history.append(op)
                offer("outer", op)
            elif op == "cancel":
                history.append(op)
                cancel("outer")
            elif op == "add-inner":
                add_inner()
            elif op == "chain":
                chain()
            else:
                iname = sim.draw_choice(inners, "which")
                if op == "fire-inner":
                    how = sim.draw_choice(["callback", "errback"], "how")
                    history.append("%s-%s" % (how, iname))
                    offer(iname, how)
                else:
                    history.append("cancel-" + iname)
                    cancel(iname)
            digest_notes()
            # compare everything observable with the model
            for n in sorted(real):
                sim.check("canceller-call-count", calls[n] == m.ds[n].canceller_calls, W(op),
                          lambda: "canceller of %s called %d times, model %d (history %r, classes %r)" % (n, calls[n], m.ds[n].canceller_calls, history, sorted(klass.items())))
            if rlog != m.log:
                k = 0
                while k < len(rlog) and k < len(m.log) and rlog[k] == m.log[k]:
                    k += 1
                sim.fail("delivered-results", W(op), "first difference at #%d: real %r model %r (history %r, classes %r)" % (k, rlog[k:k + 3], m.log[k:k + 3], history, sorted(klass.items())))
            for n in sorted(real):
                rv, mv = real_view(real[n]), m.ds[n].view()
                if rv != mv:
                    field = ["called", "paused", "result", "pending"][[a == b for a, b in zip(rv, mv)].index(False)]
                    sim.fail("state-" + field, W(op), "%s real %r model %r (history %r, classes %r)" % (n, rv, mv, history, sorted(klass.items())))
            if m.ds["outer"].waiting_on is not None:
                flags["waited"] += 1
    if len(history) <= 9:   # canceller kind + at most 8 operations
        sim.state(" ".join(history))
    sim.nontrivial = bool(flags["cancel"] and (flags["refire"] or flags["waited"]))


# Sensitivity (tools/mutate.py C03, src/twisted/internet/defer.py)
MUTANTS = [
    "_suppressAlreadyCalled never reset (drop `self._suppressAlreadyCalled = False` in _startRunCallbacks): CAUGHT (second-result-raises)",
    "cancel() treats a fired Deferred like an unfired one (`if not self.called:` -> `if True:`): CAUGHT (second-result-raises, canceller-call-count)",
    "cancel() skips errback(CancelledError) (-> pass): CAUGHT (delivered-results)",
    "cancel() of a fired, waiting Deferred does not forward (`self.result.cancel()` -> pass): CAUGHT (delivered-results, canceller-call-count)",
    "suppress flag also set when a canceller exists: CAUGHT (second-result-raises)",
    "late result never ignored (`if self._suppressAlreadyCalled:` -> `if False:`): CAUGHT (one-late-result-ignored)",
    "round 4 (errback forms, debugging knob): argument-less errback() on a fired Deferred returns silently (`if fail is None: if self.called: return`): "
    "CAUGHT (second-result-raises)",
    "with debugging on a second result is dropped instead of raising (`raise AlreadyCalledError(extra)` -> `return`): CAUGHT (second-result-raises)",
    "cancel() arms the one-late-result allowance only with debugging off (`_suppressAlreadyCalled = not self.debug`): CAUGHT (one-late-result-ignored)",
    "errback(Failure instance) returns early while the allowance is armed (flag not consumed): CAUGHT (delivered-results)",
    "round 5 (class of every Deferred drawn from {Deferred, subclass, subclass of subclass}): cancel() of a fired Deferred forwards only to an "
    "exact Deferred (`isinstance(self.result, Deferred)` -> `type(self.result) is Deferred`): CAUGHT (canceller-call-count, delivered-results)",
    "_runCallbacks recognises only an exact Deferred as a returned Deferred (`type(current.result) in _DEFERRED_SUBCLASSES` -> `is Deferred`): "
    "CAUGHT (delivered-results)",
    "__init_subclass__ registers only direct subclasses of Deferred (second-level subclass instances are then not waited on): CAUGHT (delivered-results)",
    "round 6 (chainDeferred feeders; canceller callable forms): a forwarded cancel follows one chainDeferred link "
    "(`self.result.cancel()` -> `(self.result._chainedTo or self.result).cancel()`): CAUGHT (canceller-call-count, cancel-returns, "
    "canceller-exception-identity)",
    "a canceller-less cancel() also cancels the feeder chained to the Deferred (`if self._chainedTo is not None: self._chainedTo.cancel()` "
    "after arming the allowance): CAUGHT (canceller-call-count, cancel-returns)",
    "only callables with a __name__ are called as cancellers (`if canceller:` -> `if canceller and hasattr(canceller, '__name__'):`): "
    "CAUGHT (canceller-call-count)",
    "GENUINE DEFECT of the tree as first examined, REPAIRED in /repo 6765c5e: Deferred.cancel() decided 'is there a canceller' by truth value "
    "(`if canceller:`, defer.py cancel()): a "
    "canceller that was given but is false as a boolean (a callable collection that is empty, any callable with __len__() == 0 or "
    "__bool__() False) was never called, and the Deferred was handled as canceller-less (CancelledError, and the next callback/errback was "
    "silently swallowed instead of raising AlreadyCalledError).  Witness (before the repair): class Hooks(list): __call__ = ...; d = Deferred(Hooks()); "
    "d.cancel() -> Hooks.__call__ not called; d.callback(1) returns silently.  Signatures C03:canceller-call-count:cancel@falsy-canceller, "
    "C03:canceller-call-count:cancel-inner@falsy-canceller (later operations of such a run may add second-result-raises / state-* "
    "@falsy-canceller).  The precondition is let into the FALSY_CANCELLER_P = 0.3 share of the runs (0 only for dev-time comparison).  "
    "Repair: `if canceller is not None:` (the same test in the `else` branch that arms _suppressAlreadyCalled)",
    "`or type(resultResult) in _DEFERRED_SUBCLASSES` -> `is Deferred` in _runCallbacks: SURVIVES, equivalent (a fired Deferred whose result is a "
    "Deferred is always paused, so the next operand of the `or` decides the same way)",
]
